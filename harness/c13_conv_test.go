package zzverif

// C13 — conversion functions are mutually consistent and round-trip through strings.

import (
	"fmt"
	dtpb "github.com/google/fhir/go/proto/google/fhir/proto/r4/core/datatypes_go_proto"
	"regexp"
	"strconv"
	"strings"
	"testing"
	"unicode"
	"unicode/utf8"

	"github.com/verily-src/fhirpath-go/fhirpath/system"
)

var c13Targets = []string{"Boolean", "Integer", "Decimal", "String", "Date", "DateTime", "Time", "Quantity"}

type c13Case struct {
	X Val    `json:"x"`
	T string `json:"t"`
}

var c13Strings = []string{
	"1.0", " 1", "1 ", "+1", "-0", "-1", "1e3", "1E3", "1e-3", "2e47483647", "1.", ".5", "0", "00", "01", "2147483647", "2147483648", "-2147483648", "-2147483649", "4294967296", "4294967297", "9223372036854775807", "9223372036854775808", "18446744073709551617", "1.5", "-1.5", "+1.5", "1,5", "0.0", "1.00",
	"T", "t", "yes", "Y", "TRUE", "True", "true", "false", "F", "no", "N", "2", "1.0.0", "tru",
	"2020", "2020-13-01", "2020-02-30", "2020-02-29", "2021-02-29", "1900-02-29", "2100-02-29", "2000-02-29", "1900-02-28", "1900-02-29T10:00:00", "2000-02-29T10:00:00Z", "2019-04-31", "2020-00-10", "2020-01-00", "2020-1-1", "2020-01", "2020-01-01T", "2020-01-01T10", "2020-01-01T10:00", "2020-01-01T10:00:00", "2020-01-01T10:00:00.5", "2020-01-01T10:00:00.500", "2020-01-01T10:00:00Z", "2020-01-01T10:00:00+05:30", "2020-01-01T25:00:00", "2020-01-01 10:00:00", "@2020-01-01", "2020T",
	"24:00", "10", "10:00", "10:00:00", "10:00:00.5", "10:00:00.500", "T10:00:00", "@T10:00:00", "10:60", "1:00", "10:00:00Z",
	"5 'mg'", "5", "5 days", "5 day", "5  mg", "5 mg", "5'mg'", "5 ''", "5.5 'mg'", "-5 'mg'", "+5 'mg'", "5 'mg", "5 m g", "five", "5 weeks", "5 year", "5 '1'", "5 1",
	"", " ", "abc", "é", "null", "{}",
	"١٢٣", "１２.５", "-४२", "1.٥", "２０２０-０１-０１", "１０:００", "５ 'mg'", "－5", "+１", "𝟙", "truе",
}

func c13Pool() []Val {
	out := append([]Val{}, poolAll...)
	for _, s := range c13Strings {
		out = append(out, sv(s))
	}
	out = append(out, fv("string", "1"), fv("string", "true"), fv("string", "2020-01-01"), fv("code", "1"), fv("decimal", "1"), fv("decimal", "0.0"))
	return out
}

func c13Enum(yield func(c13Case)) {
	for _, x := range c13Pool() {
		for _, t := range c13Targets {
			yield(c13Case{X: x, T: t})
		}
	}
}

var c13DateAlpha = []string{"0", "1", "2", "9", "-", "T", ":", ".", "Z", "+", " ", "'", "m", "g", "d", "a", "y", "s", "e", "t", "r", "u", "f", "l"}

func c13Gen(s Src) c13Case {
	// a mutated valid rendering, or a random short string over the lexical alphabet
	base := pickOne(s, c13Strings)
	b := []rune(base)
	for i := 0; i < s.Range(0, 2) && len(b) > 0; i++ {
		pos := s.Intn(len(b))
		switch s.Intn(3) {
		case 0:
			b = append(b[:pos:pos], b[pos+1:]...)
		case 1:
			b[pos] = []rune(pickOne(s, c13DateAlpha))[0]
		default:
			b = append(b[:pos:pos], append([]rune(pickOne(s, c13DateAlpha)), b[pos:]...)...)
		}
	}
	if s.Prob(20) {
		b = []rune(s.Str(c13DateAlpha, 0, 8))
	}
	if s.Prob(20) {
		// another casing: per letter upper, lower or unchanged ('tRuE', 'YeS', '5 DAYS', '2020-01-01t10:00:00z')
		for i, r := range b {
			switch s.Intn(3) {
			case 0:
				b[i] = unicode.ToUpper(r)
			case 1:
				b[i] = unicode.ToLower(r)
			}
		}
	}
	return c13Case{X: sv(string(b)), T: pickOne(s, c13Targets)}
}

// sysType returns the System type name of a value spec after system.From ("" = complex).
func c13SysType(v Val) string {
	switch v.K {
	case "Integer", "fhir.integer", "fhir.positiveInt", "fhir.unsignedInt":
		return "Integer"
	case "Decimal", "fhir.decimal":
		return "Decimal"
	case "String", "fhir.string", "fhir.code", "fhir.id", "fhir.markdown", "fhir.uri", "fhir.url", "fhir.canonical", "fhir.uuid", "fhir.oid", "fhir.base64Binary":
		return "String"
	case "Boolean", "fhir.boolean":
		return "Boolean"
	case "Date", "fhir.date":
		return "Date"
	case "DateTime", "fhir.dateTime", "fhir.instant":
		return "DateTime"
	case "Time", "fhir.time":
		return "Time"
	case "Quantity", "fhir.Quantity":
		return "Quantity"
	}
	return ""
}

var (
	reInt  = regexp.MustCompile(`^(\+|-)?\d+$`)
	reDec  = regexp.MustCompile(`^(\+|-)?\d+(\.\d+)?$`)
	reDate = regexp.MustCompile(`^\d{4}(-\d{2}(-\d{2})?)?$`)
)

// c13Table: "yes" must convert, "no" must not, "" not asserted (N1 §5.5).
func c13Table(v Val, t string) string {
	st := c13SysType(v)
	if st == "" {
		return "no" // complex elements convert to nothing
	}
	if (v.K == "fhir.positiveInt" || v.K == "fhir.unsignedInt") && !fitsInt32(ratOf(v.S)) {
		return ""
	}
	if st == t {
		return "yes"
	}
	switch st {
	case "Boolean":
		switch t {
		case "Integer", "Decimal", "String", "Quantity":
			return "yes"
		}
		return "no"
	case "Integer":
		switch t {
		case "Decimal", "String", "Quantity":
			return "yes"
		case "Boolean":
			if v.S == "0" || v.S == "1" {
				return "yes"
			}
			return "no"
		}
		return "no"
	case "Decimal":
		switch t {
		case "String", "Quantity":
			return "yes"
		case "Boolean":
			r := ratOf(v.S)
			if r.Cmp(ratOf("0")) == 0 || r.Cmp(ratOf("1")) == 0 {
				return "yes"
			}
			return "no"
		}
		return "no"
	case "Date":
		switch t {
		case "DateTime", "String":
			return "yes"
		}
		return "no"
	case "DateTime":
		switch t {
		case "Date", "String":
			return "yes"
		}
		return "no"
	case "Time":
		if t == "String" {
			return "yes"
		}
		return "no"
	case "Quantity":
		if t == "String" {
			return "yes"
		}
		return "no"
	case "String":
		s := v.S
		switch t {
		case "Integer":
			if reInt.MatchString(s) {
				if fitsInt32(ratOf(strings.TrimPrefix(s, "+"))) {
					return "yes"
				}
				return "no" // a whole number outside the 32-bit range is not an Integer: never a (wrapped) value
			}
			return "no"
		case "Decimal":
			if reDec.MatchString(s) {
				return "yes"
			}
			return "no" // N1 §5.5.4: only (\+|-)?\d+(\.\d+)? is convertible; '1e3', '.5', '1.' are not
		case "Boolean":
			switch strings.ToLower(s) {
			case "true", "t", "yes", "y", "1", "1.0", "false", "f", "no", "n", "0", "0.0":
				return "yes"
			}
			return "no"
		case "Date":
			if reDate.MatchString(s) {
				if strings.HasPrefix(s, "0000") {
					return "" // year 0000: lexically a date, outside the FHIR range; not asserted
				}
				if _, err := parseAnyTemporal(s, false); err == nil && validCivil(s) {
					return "yes"
				}
				return "no"
			}
			return "no"
		case "DateTime", "Time", "Quantity":
			return "" // string grammar of these targets: relational laws only, plus the explicit lists below
		}
	}
	return ""
}

func validCivil(s string) bool {
	t, _, err := parseTemporalDate(s)
	if err != nil {
		return false
	}
	if t.M < 1 || t.M > 12 || t.D < 1 || t.Y < 1 {
		return false
	}
	dim := []int{31, 28, 31, 30, 31, 30, 31, 31, 30, 31, 30, 31}[t.M-1]
	if t.M == 2 && (t.Y%4 == 0 && (t.Y%100 != 0 || t.Y%400 == 0)) {
		dim = 29
	}
	return t.D <= dim
}

var c13MustConvert = map[string][]string{
	"DateTime": {"2020", "2020-01", "2020-02-29", "2020-01-01T10:00:00Z", "2020-01-01T10:00:00+05:30", "2020-01-01T10:00:00", "2020-01-01T10:00:00.500"},
	"Time":     {"10:00:00", "10:00:00.500", "10:00", "10"},
	"Quantity": {"5 'mg'", "5", "5 days", "5.5 'mg'", "5 day"},
}
var c13MustNotConvert = map[string][]string{
	"DateTime": {"abc", "", "2020-13-01", "2020-02-30", "24:00", "2020-01-01T25:00:00", "five"},
	"Time":     {"abc", "", "24:00", "10:60", "2020-01-01", "five"},
	"Quantity": {"abc", "", "five", "2020-01-01", "mg"},
}

// c13Shape abstracts a string to its lexical shape.
func c13Shape(s string) string {
	var sb strings.Builder
	sb.WriteByte('<')
	last := rune(0)
	for _, r := range s {
		c := r
		switch {
		case r >= '0' && r <= '9':
			c = '9'
		case (r >= 'a' && r <= 'z') || (r >= 'A' && r <= 'Z') || r > 127:
			c = 'a'
		}
		if (c == '9' || c == 'a') && c == last {
			continue // runs collapse
		}
		sb.WriteRune(c)
		last = c
	}
	sb.WriteByte('>')
	return sb.String()
}

func c13GoType(x any) string {
	if a, ok := x.(system.Any); ok {
		return a.Name()
	}
	return typeName(x)
}

func c13Run(ctx *Ctx, c c13Case) {
	vars := map[string]any{"x": c.X.mustBuild()}
	to, conv := "to"+c.T, "convertsTo"+c.T
	outTo := evalWith("%x."+to+"()", nil, vars)
	outConv := evalWith("%x."+conv+"()", nil, vars)
	st := c13SysType(c.X)
	cell := st
	if cell == "" {
		cell = "complex"
	}
	if c.X.K == "String" {
		cell = "String-literal-grammar"
	}
	ctx.Eval(c.X.String()+"|"+c.T, st != c.T || st == "String", "cell:"+cell+"→"+c.T)
	kind := c.X.K
	if strings.HasPrefix(kind, "msg.") {
		kind = "complex"
	}
	where := fmt.Sprintf("%s→%s", kind, c.T)
	whereShape := where
	if c13SysType(c.X) == "String" {
		// table failures carry the lexical shape of the string: digits → 9, letters → a
		whereShape = fmt.Sprintf("%s%s→%s", kind, c13Shape(c.X.S), c.T)
	}
	desc := fmt.Sprintf("x=%v: %s() → %s ; %s() → %s", c.X, to, outTo, conv, outConv)
	if outTo.Panic != "" || outConv.Panic != "" {
		ctx.Fail("conv "+where+": panic@"+outTo.Panic+outConv.Panic, desc)
		return
	}
	if outTo.CompileErr != nil || outConv.CompileErr != nil {
		ctx.Fail("conv: "+to+"/"+conv+" does not compile", desc)
		return
	}
	// toT on an unconvertible item is empty, not an error
	if outTo.Err != nil {
		model := ""
		if c.T == "Integer" && c13SysType(c.X) == "String" {
			// defect model of the pinned behaviour: strconv's error for a string that is not an int32 literal
			if x := c.X.S; c.X.K == "fhir.base64Binary" || !reInt.MatchString(x) || !fitsInt32(ratOf(strings.TrimPrefix(x, "+"))) {
				model = " (string is not an int32 literal; strconv error passed through)"
			}
		}
		ctx.Fail("conv "+where+": "+to+"() returns an error instead of empty"+model, desc)
		return
	}
	if outConv.Err != nil {
		ctx.Fail("conv "+where+": "+conv+"() returns an error", desc)
		return
	}
	if len(outTo.Coll) > 1 {
		ctx.Fail("conv "+where+": multi-item result", desc)
		return
	}
	converted := len(outTo.Coll) == 1
	// its result is always of type T
	if converted && c13GoType(outTo.Coll[0]) != c.T {
		model := ""
		if c.T == "String" && renderColl(outTo.Coll) == "[Boolean:false]" {
			model = " (=Boolean false for an item without a System value)"
		}
		ctx.Fail(fmt.Sprintf("conv %s: %s() yields a %s%s", where, to, c13GoType(outTo.Coll[0]), model), desc)
		return
	}
	// convertsToT ⇔ toT non-empty
	cv := renderColl(outConv.Coll)
	if cv != "[Boolean:true]" && cv != "[Boolean:false]" {
		ctx.Fail("conv "+where+": "+conv+"() is not a Boolean", desc)
		return
	}
	if (cv == "[Boolean:true]") != converted {
		ctx.Fail(fmt.Sprintf("conv %s: %s() = %v but %s() %s", where, conv, cv == "[Boolean:true]", to, map[bool]string{true: "yields a value", false: "is empty"}[converted]), desc)
		return
	}
	// the conversion table
	want := c13Table(c.X, c.T)
	if c.X.K == "String" {
		for _, s := range c13MustConvert[c.T] {
			if s == c.X.S {
				want = "yes"
			}
		}
		for _, s := range c13MustNotConvert[c.T] {
			if s == c.X.S {
				want = "no"
			}
		}
	}
	if want == "yes" && !converted {
		ctx.Fail("conv table "+whereShape+": must convert but is empty", desc)
		return
	}
	if want == "no" && converted {
		ctx.Fail("conv table "+whereShape+": must not convert but yields a value", desc)
		return
	}
	if !converted {
		return
	}
	// converting twice equals converting once
	out2 := evalWith("%x."+to+"()."+to+"()", nil, vars)
	if out2.failed() || renderColl(out2.Coll) != renderColl(outTo.Coll) {
		ctx.Fail("conv "+where+": converting twice differs from converting once", desc+fmt.Sprintf(" ; twice → %s", out2))
		return
	}
	// type test through `is`
	outIs := evalWith("%x."+to+"() is System."+c.T, nil, vars)
	if renderColl(outIs.Coll) != "[Boolean:true]" {
		ctx.Fail("conv "+where+": result `is System."+c.T+"` is not true", desc+fmt.Sprintf(" ; is → %s", outIs))
		return
	}
	// the result y = x.toT() is itself a value of type T: y.toString().toT() = y
	if st != c.T && c.T != "String" && c.T != "Quantity" {
		y := "%x." + to + "()"
		rt := evalWith(y+".toString()."+to+"() = "+y, nil, vars)
		if renderColl(rt.Coll) != "[Boolean:true]" {
			s := evalWith(y+".toString()", nil, vars)
			ctx.Fail("conv round trip of a conversion result "+where+": y.toString()."+to+"() = y is not true for y = x."+to+"()", desc+fmt.Sprintf(" ; toString → %s ; round trip → %s", s, rt))
			return
		}
	}
	// for x already of type T: x.toString().toT() = x
	if st == c.T && c.T != "String" && c.X.isSystem() && !(c.T == "Quantity" && c.X.U == "") {
		rt := evalWith("%x.toString()."+to+"() = %x", nil, vars)
		if renderColl(rt.Coll) != "[Boolean:true]" {
			s := evalWith("%x.toString()", nil, vars)
			model := ""
			if c.T == "Quantity" && !regexp.MustCompile(`^[a-zA-Z]+$`).MatchString(c.X.U) && len(rt.Coll) == 0 && !rt.failed() {
				model = " (unit is not purely alphabetic and toString() prints it unquoted, so it does not re-parse)"
			}
			ctx.Fail("conv round trip "+c.T+": x.toString()."+to+"() = x is not true"+model, desc+fmt.Sprintf(" ; toString → %s ; round trip → %s", s, rt))
		}
	}
}

// --- toQuantity(unit) / convertsToQuantity(unit) ----------------------------------------

type c13UnitCase struct {
	X    Val    `json:"x"`
	Unit string `json:"unit"` // the unit argument (a FHIRPath string literal is built from it)
}

var c13Units = []string{"mg", "kg", "days", "day", "year", "years", "1", "kg/m2", "10*3/uL", "mm[Hg]", "%", "'mg'", "'kg/m2'", "m g", "", " ", "µg", "Mg"}

func c13GenUnit(s Src) c13UnitCase {
	var x Val
	switch s.Intn(6) {
	case 0:
		x = iv(int64(pickOne(s, []int32{0, 1, 5, -3, 2147483647, s.Int32()})))
	case 1:
		x = dv(strconv.Itoa(s.Range(-99, 99)) + "." + s.Str(digits, 1, 6))
	case 2:
		x = pickOne(s, []Val{bv(true), bv(false), qv("5", "mg"), qv("1", "days"), qv("2.5", "kg/m2"), dateV("2020-01-01"), timeV("10:00")})
	case 3:
		x = sv(pickOne(s, []string{"5", "5 mg", "5 'mg'", "5 days", "1.5", "abc", "", "5 'kg/m2'", "-3 'mg'"}))
	default:
		x = pickOne(s, poolAll)
	}
	return c13UnitCase{X: x, Unit: pickOne(s, c13Units)}
}

func c13RunUnit(ctx *Ctx, c c13UnitCase) {
	if _, err := c.X.build(); err != nil {
		return
	}
	vars := map[string]any{"x": c.X.mustBuild()}
	u := quoteFP(c.Unit)
	outTo := evalWith("%x.toQuantity("+u+")", nil, vars)
	outConv := evalWith("%x.convertsToQuantity("+u+")", nil, vars)
	// the same unit supplied as a System String variable and as FHIR string / code elements
	// must give the same answers as the literal
	for i, uv := range []any{system.String(c.Unit), &dtpb.String{Value: c.Unit}, &dtpb.Code{Value: c.Unit}} {
		vars["u"] = uv
		vt, vc := evalWith("%x.toQuantity(%u)", nil, vars), evalWith("%x.convertsToQuantity(%u)", nil, vars)
		if vt.String() != outTo.String() || vc.String() != outConv.String() {
			ctx.Fail("conv Quantity(unit): the unit argument behaves differently when it is not a literal ("+[]string{"System String variable", "FHIR string element", "FHIR code element"}[i]+")", fmt.Sprintf("x=%v unit=%q: literal → %s / %s ; variable → %s / %s", c.X, c.Unit, outTo, outConv, vt, vc))
			return
		}
	}
	delete(vars, "u")
	kind := c.X.K
	if strings.HasPrefix(kind, "msg.") {
		kind = "complex"
	}
	ctx.Eval(c.X.String()+"|"+c.Unit, true, "cell:unit-argument", "unit:"+c13Shape(c.Unit))
	desc := fmt.Sprintf("x=%v unit=%q: toQuantity → %s ; convertsToQuantity → %s", c.X, c.Unit, outTo, outConv)
	if outTo.Panic != "" || outConv.Panic != "" {
		ctx.Fail("conv "+kind+"→Quantity(unit): panic@"+outTo.Panic+outConv.Panic, desc)
		return
	}
	if outTo.CompileErr != nil || outConv.CompileErr != nil {
		ctx.Fail("conv: toQuantity(unit) does not compile", desc)
		return
	}
	if outTo.Err != nil || outConv.Err != nil {
		// an invalid unit argument may be refused outright; then both must refuse or convertsTo answers false
		if outConv.Err == nil && renderColl(outConv.Coll) == "[Boolean:true]" {
			ctx.Fail("conv "+kind+"→Quantity(unit): convertsToQuantity(unit) = true but toQuantity(unit) fails", desc)
		}
		ctx.Count("unit_argument_refused")
		return
	}
	conv := renderColl(outConv.Coll)
	switch {
	case len(outTo.Coll) == 0 && conv == "[Boolean:true]":
		ctx.Fail("conv "+kind+"→Quantity(unit): convertsToQuantity(unit) = true but toQuantity(unit) is empty", desc)
	case len(outTo.Coll) == 1 && conv != "[Boolean:true]":
		ctx.Fail("conv "+kind+"→Quantity(unit): toQuantity(unit) yields a value but convertsToQuantity(unit) is not true", desc)
	case len(outTo.Coll) == 1:
		if _, ok := outTo.Coll[0].(system.Quantity); !ok {
			ctx.Fail("conv "+kind+"→Quantity(unit): toQuantity(unit) yields a "+c13GoType(outTo.Coll[0]), desc)
		}
	case len(outTo.Coll) > 1:
		ctx.Fail("conv "+kind+"→Quantity(unit): toQuantity(unit) yields several items", desc)
	}
}

func TestC13(t *testing.T) {
	r := newRec("C13",
		"exhaustive: every item of the value pool (every System type, precision and boundary; FHIR primitive and complex elements) and a list of valid/near-valid string renderings × the eight targets {Boolean, Integer, Decimal, String, Date, DateTime, Time, Quantity}, each through %x.toT(), %x.convertsToT(), %x.toT().toT(), %x.toT() is System.T and (x of type T) %x.toString().toT() = %x; plus toQuantity(u) / convertsToQuantity(u) with a unit argument (UCUM codes with and without non-letters, calendar words, quoted, empty, blank) on generated numbers, Booleans, quantities and strings: convertsToQuantity(u) is true exactly when toQuantity(u) yields one Quantity; plus rapid-mutated strings (0..2 edits of a valid rendering, or random strings over the lexical alphabet); non-trivial = the item is not already of type T, or is a string; distinct = FNV-64 of (item, target)",
		"the conversion table (N1 §5.5) is asserted only where unambiguous: identity, type-level rows, canonical string renderings, lexically foreign strings; String→Integer and String→Decimal follow the N1 regular expressions exactly (so '1e3', '.5', '1.' are not convertible); near-valid DateTime/Time/Quantity strings ('T10:00', '5 mg') are checked by the relational laws only")
	runProperty(t, r,
		Stage[c13Case]{Name: "pool", Enum: c13Enum, Run: c13Run},
		Stage[c13Case]{Name: "strings", Gen: c13Gen, Run: c13Run, N: pick(15000, 150000)},
		Stage[c13UnitCase]{Name: "unit-argument", Gen: c13GenUnit, Run: c13RunUnit, N: pick(5000, 100000)},
	)
}

// --- native go-fuzz target (thorough tier): the coverage-guided mutator chooses the operands,
// the stage's own Run function (reference model inside the target) judges them ---------------

func FuzzC13(f *testing.F) {
	for i, s := range c13Strings {
		f.Add(s, uint8(i))
	}
	f.Fuzz(func(t *testing.T, s string, sel uint8) {
		if len(s) > 40 || !utf8.ValidString(s) {
			return
		}
		fuzzCase(t, "C13", "strings", c13Case{X: sv(s), T: c13Targets[int(sel)%len(c13Targets)]}, c13Run)
	})
}
