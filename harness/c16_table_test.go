package zzverif

// C16 — every built-in function is callable under its specification name and arity.
// Exhaustive over (N1 names ∪ table names) × argument counts 0..4 × option sets.

import (
	"strconv"
	"errors"
	"fmt"
	"sort"
	"strings"
	"testing"

	"github.com/verily-src/fhirpath-go/fhirpath"
	"github.com/verily-src/fhirpath-go/fhirpath/compopts"
	"github.com/verily-src/fhirpath-go/fhirpath/internal/funcs"
	"github.com/verily-src/fhirpath-go/fhirpath/internal/funcs/impl"
)

type c16Case struct {
	Name string `json:"name"`
	N    int    `json:"n"`
	Exp  bool   `json:"experimental"` // compile WithExperimentalFuncs
	Kind string `json:"kind"`         // arity | example
	// Odd: the literal arguments are replaced by well-typed but unusable values (a string that
	// is no regular expression, an integer at a boundary): acceptance depends on name and count only
	Odd int `json:"odd,omitempty"`
}

func c16Names() []string {
	seen := map[string]bool{}
	for _, f := range fnSpecs {
		seen[f.Name] = true
	}
	for _, f := range tableFuncs() {
		seen[f.Name] = true
	}
	for _, n := range []string{"zzNoSuchFunction", "Where", "WHERE", "convertToDateTime", "aggregate", "hasValue", "is", "as"} {
		seen[n] = true
	}
	var out []string
	for n := range seen {
		out = append(out, n)
	}
	sort.Strings(out)
	return out
}

func c16Enum(yield func(c16Case)) {
	for _, n := range c16Names() {
		for k := 0; k <= 4; k++ {
			yield(c16Case{Name: n, N: k, Exp: false, Kind: "arity"})
			yield(c16Case{Name: n, N: k, Exp: true, Kind: "arity"})
			if k >= 1 {
				for odd := 1; odd <= 3; odd++ {
					yield(c16Case{Name: n, N: k, Exp: odd == 2, Kind: "arity", Odd: odd})
				}
			}
		}
		if sp, ok := fnSpecByName[n]; ok && sp.Example != "" {
			yield(c16Case{Name: n, Exp: sp.Spec == "STU", Kind: "example"})
			yield(c16Case{Name: n, Exp: true, Kind: "discriminates"})
		}
	}
}

func c16Table(exp bool) funcs.FunctionTable {
	t := funcs.Clone()
	if exp {
		t = funcs.AddExperimentalFuncs(t)
	}
	return t
}

func c16Source(name string, n int, odd int) string {
	sp, ok := fnSpecByName[name]
	recv := "%ints"
	var args []string
	if ok {
		if sp.Recv != "" {
			recv = sp.Recv
		}
		args = append(args, sp.Args...)
	}
	for len(args) < n {
		args = append(args, "1")
	}
	args = args[:n]
	if odd > 0 {
		for i := range args {
			if strings.HasPrefix(args[i], "'") {
				args[i] = c07OddStr[odd]
			} else if _, err := strconv.Atoi(args[i]); err == nil {
				args[i] = c07OddInt[odd]
			}
		}
	}
	if ok && sp.Recv == "" {
		return name + "(" + strings.Join(args, ", ") + ")"
	}
	return recv + "." + name + "(" + strings.Join(args, ", ") + ")"
}

func c16Run(ctx *Ctx, c c16Case) {
	var copts []fhirpath.CompileOption
	if c.Exp {
		copts = append(copts, compopts.WithExperimentalFuncs())
	}
	table := c16Table(c.Exp)
	entry, inTable := table[c.Name]
	placeholder := placeholderFuncs()[c.Name]
	sp, inSpec := fnSpecByName[c.Name]
	vars := fnVars()
	input := fixtureInput(fixturePatient())

	if c.Kind == "discriminates" {
		// harness self-check, never a violation: the characteristic example of f,
		// re-spelled with every other implemented function g, must give another outcome -
		// otherwise binding the name f to g's implementation would go unnoticed
		ctx.Eval("discriminates|"+c.Name, true, "kind:discriminates")
		if !inTable || placeholder {
			return
		}
		for _, g := range tableFuncs() {
			if g.Name == c.Name || placeholderFuncs()[g.Name] {
				continue
			}
			o := evalWith(strings.ReplaceAll(sp.Example, c.Name+"(", g.Name+"("), input, vars, copts...)
			if !o.failed() && renderColl(o.Coll) == sp.Want {
				ctx.Count("example_does_not_discriminate:" + c.Name + "/" + g.Name)
			} else {
				ctx.Count("example_pairs_discriminated")
			}
		}
		return
	}
	if c.Kind == "example" {
		ctx.Eval("example|"+c.Name, true, "kind:example")
		if !inTable || placeholder {
			ctx.Count("examples_skipped_unimplemented")
			return
		}
		out := evalWith(sp.Example, input, vars, copts...)
		if out.failed() {
			ctx.Fail(fmt.Sprintf("table binding: %s characteristic example fails: %s", c.Name, out.kind()), fmt.Sprintf("%s → %s", sp.Example, out))
			return
		}
		if got := renderColl(out.Coll); got != sp.Want {
			ctx.Fail(fmt.Sprintf("table binding: %s is not bound to its implementation (characteristic example gives another result)", c.Name), fmt.Sprintf("%s → %s, want %s", sp.Example, got, sp.Want))
		}
		return
	}

	src := c16Source(c.Name, c.N, c.Odd)
	inSpecRange := inSpec && c.N >= sp.Min && c.N <= sp.Max
	ctx.Eval(fmt.Sprintf("%s|%d|%v|%d", c.Name, c.N, c.Exp, c.Odd), inSpecRange || inTable, "kind:arity", fmt.Sprintf("odd-arguments:%v", c.Odd > 0))
	e, cerr, pan, _ := compileGuarded(src, copts...)
	if pan != "" {
		ctx.Fail("Compile panics for "+c.Name, src+": "+pan)
		return
	}
	accepted := cerr == nil && e != nil
	wantAccept := inTable && c.N >= entry.MinArity && c.N <= entry.MaxArity
	if accepted != wantAccept {
		ctx.Fail(fmt.Sprintf("compile acceptance disagrees with the table: %s/%d accepted=%v inTable=%v bounds=[%d,%d]", c.Name, c.N, accepted, inTable, entry.MinArity, entry.MaxArity),
			fmt.Sprintf("%s: compile error = %v", src, cerr))
		return
	}
	// (iii) every implemented specification function compiles at every specified arity
	if inSpecRange && inTable && !placeholder && !accepted {
		ctx.Fail(fmt.Sprintf("specification arity rejected: %s with %d argument(s) (table bounds [%d,%d], specification [%d,%d])", c.Name, c.N, entry.MinArity, entry.MaxArity, sp.Min, sp.Max),
			fmt.Sprintf("%s: %v", src, cerr))
		return
	}
	if inSpecRange && !inTable && sp.Spec == "N1" {
		ctx.Count("spec_names_absent_from_table")
	}
	if !accepted {
		return
	}
	out := evalWith(src, input, vars, copts...)
	if out.Panic != "" {
		ctx.Fail("accepted call panics: "+c.Name, src+": "+out.Panic)
		return
	}
	// (v) unimplemented names fail explicitly
	if placeholder {
		if out.Err == nil {
			ctx.Fail("unimplemented function returns a value: "+c.Name, fmt.Sprintf("%s → %s", src, out))
			return
		}
		// … on every input: an empty or a multi-item input must not be answered either
		if i := strings.Index(src, "."+c.Name+"("); i > 0 {
			for _, recv := range []string{"{}", "Patient.photo", "%none", "%ints", "%names", "'x'"} {
				alt := recv + src[i:]
				if o := evalWith(alt, input, vars, copts...); o.CompileErr == nil && o.Panic == "" && o.Err == nil {
					ctx.Fail("unimplemented function returns a value: "+c.Name+" (other input)", fmt.Sprintf("%s → %s", alt, o))
					return
				}
			}
		}
		return
	}
	// (ii) no arity complaint after acceptance, whatever the operands are
	if out.Err != nil && errors.Is(out.Err, impl.ErrWrongArity) {
		ctx.Fail(fmt.Sprintf("arity error at evaluation after Compile accepted %s/%d", c.Name, c.N), fmt.Sprintf("%s → %v", src, out.Err))
		return
	}
	if out.Err != nil {
		ctx.Count("accepted_but_eval_error(non-arity)")
	}
	// … and whatever the receiver is: the same accepted call on receivers of every kind
	if i := strings.Index(src, "."+c.Name+"("); i > 0 {
		for _, recv := range []string{"{}", "true", "false", "0", "1", "1.5", "'x'", "'5 mg'", "'true'", "'2020-01-01'", "@2020", "@2020-01-01", "@2020-01-01T10:00:00Z", "@T10:00", "(5 'mg')", "(1 year)", "Patient", "Patient.active", "Patient.birthDate", "Patient.gender", "Patient.name[0]", "Patient.photo", "%none"} { // single items and empties only: the library reports a multi-item input with the same sentinel ("input has length 4, expected 1"), which is not a complaint about the argument count
			alt := recv + src[i:]
			o := evalWith(alt, input, vars, copts...)
			ctx.Count("accepted_call_on_other_receiver")
			if o.CompileErr == nil && o.Panic == "" && o.Err != nil && errors.Is(o.Err, impl.ErrWrongArity) {
				ctx.Fail(fmt.Sprintf("arity error at evaluation after Compile accepted %s/%d (other receiver)", c.Name, c.N), fmt.Sprintf("%s → %v", alt, o.Err))
				return
			}
		}
	}
}

func TestC16(t *testing.T) {
	r := newRec("C16",
		"exhaustive: every name of the N1 function list (hand-copied, incl. not(), R4 extension(), STU join()) ∪ every name in funcs.Clone() ∪ the experimental table ∪ a few absent/mis-cased names × argument counts 0..4 × {default, WithExperimentalFuncs}, plus one characteristic example per specified function (a concatenation of probes chosen so that no other table function gives the same result: counter example_pairs_discriminated, and example_does_not_discriminate:f/g for any pair left); non-trivial = the name is in the table or the count is within the specification's range (the cells where acceptance matters); all tuples are distinct",
		"the N1 function list, argument counts and examples in harness/common_fn_test.go are copied from the specification by hand", "placeholder entries are recognised as the one function value bound to ≥ 3 names; they must fail explicitly on the well-typed receiver and on empty, absent, multi-item and other-typed inputs")
	runProperty(t, r, Stage[c16Case]{Name: "table", Enum: c16Enum, Run: c16Run})
}
