package zzverif

// C11 — parsing respects precedence, associativity and token boundaries.
// Differential between renderings of one generated tree, plus an independent shape
// comparison between the generated tree and the real parse tree.

import (
	"encoding/json"
	"fmt"
	"os"
	"path/filepath"
	"strings"
	"testing"
	"unicode/utf8"

	"pgregory.net/rapid"

	"github.com/antlr4-go/antlr/v4"
	"github.com/verily-src/fhirpath-go/fhirpath/internal/compile"
)

type c11Case struct {
	Tree *PNode `json:"tree"`
	Min  string `json:"min"`
	Full string `json:"full"`
	Deco string `json:"deco"`
	Tail string `json:"tail"` // trailing token appended to Min
}

var c11Unsupported = []string{"|", "in", "contains", "~", "!~"}
var c11Tails = []string{"true", ")", "]", ",", "}", "{}", "%x", "$this", "@2020", "false", "(", "[0",
	// characters that look like white space but are not FHIRPath white space: never skipped, never trimmed
	"\u00a0", "\f", "\v", "\u2028", "\u3000", "\u0085", "\u200b", "\ufeff"}

func c11Gen(s Src) c11Case {
	t := genProgramOf(s, pickOne(s, []string{"B", "B", "B", "B", "I", "D", "S", "C", "Da", "Q"}), s.Range(2, 6), pickOne(s, []int{0, 0, 5, 20}))
	if s.Prob(8) {
		// swap one binary operator for an unsupported alternative of the grammar
		var bins []*PNode
		t.walk(func(n *PNode) {
			if n.K == "bin" {
				bins = append(bins, n)
			}
		})
		if len(bins) > 0 {
			pickOne(s, bins).Op = pickOne(s, c11Unsupported)
		}
	}
	c := c11Case{Tree: t, Min: t.min(), Full: t.full(), Tail: pickOne(s, c11Tails)}
	c.Deco = decorateTokens(s, t.tokens(s.Bool()))
	return c
}

// shapeOfTree renders the generated tree canonically (parentheses erased).
func shapeOfTree(n *PNode) string {
	switch n.K {
	case "lit":
		return strings.ReplaceAll(n.Op, "\x00", " ")
	case "var":
		return n.Op
	case "this":
		return "$this"
	case "par":
		return shapeOfTree(n.Recv)
	case "name":
		if n.Recv == nil {
			return n.Op
		}
		return "(. " + shapeOfTree(n.Recv) + " " + n.Op + ")"
	case "fn":
		var sb strings.Builder
		sb.WriteString("(call " + n.Op)
		for _, a := range n.Args {
			sb.WriteString(" " + shapeOfTree(a))
		}
		sb.WriteString(")")
		if n.Recv == nil {
			return sb.String()
		}
		return "(. " + shapeOfTree(n.Recv) + " " + sb.String() + ")"
	case "idx":
		return "([] " + shapeOfTree(n.Recv) + " " + shapeOfTree(n.Args[0]) + ")"
	case "pol":
		return "(u" + n.Op + " " + shapeOfTree(n.Recv) + ")"
	case "typ":
		return "(" + n.Op + " " + shapeOfTree(n.Recv) + " " + n.T + ")"
	case "bin":
		return "(" + n.Op + " " + shapeOfTree(n.Args[0]) + " " + shapeOfTree(n.Args[1]) + ")"
	}
	return "?"
}

// shapeOfParse renders the real parse tree in the same canonical form.
func shapeOfParse(t antlr.Tree) string {
	if tn, ok := t.(antlr.TerminalNode); ok {
		return tn.GetText()
	}
	kids := t.GetChildren()
	name := fmt.Sprintf("%T", t)
	name = strings.TrimSuffix(name[strings.LastIndex(name, ".")+1:], "Context")
	switch name {
	case "Prog":
		return shapeOfParse(kids[0])
	case "ParenthesizedTerm":
		return shapeOfParse(kids[1])
	case "InvocationExpression":
		return "(. " + shapeOfParse(kids[0]) + " " + shapeOfParse(kids[2]) + ")"
	case "IndexerExpression":
		return "([] " + shapeOfParse(kids[0]) + " " + shapeOfParse(kids[2]) + ")"
	case "PolarityExpression":
		return "(u" + shapeOfParse(kids[0]) + " " + shapeOfParse(kids[1]) + ")"
	case "TypeExpression":
		return "(" + shapeOfParse(kids[1]) + " " + shapeOfParse(kids[0]) + " " + textOf(kids[2]) + ")"
	case "MultiplicativeExpression", "AdditiveExpression", "UnionExpression", "InequalityExpression", "EqualityExpression", "MembershipExpression", "AndExpression", "OrExpression", "ImpliesExpression":
		return "(" + shapeOfParse(kids[1]) + " " + shapeOfParse(kids[0]) + " " + shapeOfParse(kids[2]) + ")"
	case "Function":
		var sb strings.Builder
		sb.WriteString("(call " + textOf(kids[0]))
		for _, k := range kids {
			if strings.HasSuffix(fmt.Sprintf("%T", k), "ParamListContext") {
				for _, a := range k.GetChildren() {
					if _, ok := a.(antlr.TerminalNode); ok {
						continue // ','
					}
					sb.WriteString(" " + shapeOfParse(a))
				}
			}
		}
		sb.WriteString(")")
		return sb.String()
	case "ExternalConstant", "Identifier", "TypeSpecifier", "QualifiedIdentifier":
		return textOf(t)
	}
	parts := make([]string, 0, len(kids))
	for _, k := range kids {
		parts = append(parts, shapeOfParse(k))
	}
	return strings.Join(parts, " ")
}

func textOf(t antlr.Tree) string {
	if tn, ok := t.(antlr.TerminalNode); ok {
		return tn.GetText()
	}
	var sb strings.Builder
	for _, k := range t.GetChildren() {
		sb.WriteString(textOf(k))
	}
	return sb.String()
}

func c11Parse(src string) (shape string, err error, pan string) {
	g := guard(func() {
		var t antlr.Tree
		t, err = compile.Tree(src)
		if err == nil {
			shape = shapeOfParse(t)
		}
	})
	return shape, err, g.Panic
}

func c11Outcome(o evalOut) string {
	switch {
	case o.Panic != "":
		return "panic"
	case o.CompileErr != nil:
		return "compile-error"
	case o.Err != nil:
		return "error: " + o.Err.Error()
	}
	return renderColl(o.Coll)
}

func stripWS(s string) string {
	return strings.Join(strings.Fields(s), "")
}

func c11Run(ctx *Ctx, c c11Case) {
	t := c.Tree
	levels := map[int]bool{}
	interaction := false
	unsupported := false
	t.walk(func(n *PNode) {
		switch n.K {
		case "bin":
			levels[binLevel[n.Op]] = true
			for _, u := range c11Unsupported {
				if n.Op == u {
					unsupported = true
				}
			}
		case "typ":
			levels[lvType] = true
		case "pol":
			if n.Recv.K != "lit" && n.Recv.K != "var" {
				interaction = true
			}
		case "name", "fn", "idx":
			if n.Recv != nil && n.Recv.level() < lvIdx {
				interaction = true
			}
		}
	})
	vars := progVarsFor(fixturePatient())
	input := fixtureInput(fixturePatient())
	outMin := evalWith(c.Min, input, vars)
	compiled := outMin.CompileErr == nil && outMin.Panic == ""
	nontrivial := compiled && stripWS(c.Min) != stripWS(c.Full) && (len(levels) >= 2 || interaction)
	var classes []string
	for lv := range levels {
		classes = append(classes, "level:"+levelNames[lv])
	}
	if unsupported {
		classes = append(classes, "unsupported-operator")
	}
	if compiled {
		classes = append(classes, "compiled")
	}
	ctx.Eval(c.Min+"|"+c.Deco, nontrivial, classes...)

	// 1. the parser reproduces the generated tree from every rendering
	want := shapeOfTree(t)
	termPar := t.withLeafParens().min()
	for _, r := range []struct{ name, src string }{{"min", c.Min}, {"full", c.Full}, {"decorated", c.Deco}, {"term-parenthesised", termPar}} {
		shape, err, pan := c11Parse(r.src)
		if pan != "" {
			ctx.Fail("parse panics ("+r.name+" rendering)", r.src+": "+pan)
			return
		}
		if err != nil {
			ctx.Fail("generated program rejected by the parser ("+r.name+" rendering)", fmt.Sprintf("%q: %v", r.src, err))
			return
		}
		if shape != want {
			ctx.Fail("parse tree differs from the generated tree ("+r.name+" rendering)", fmt.Sprintf("source %q\nparsed  %s\nwant    %s", r.src, shape, want))
			return
		}
	}
	// 2. all renderings compile alike and evaluate alike
	oMin := c11Outcome(outMin)
	for _, r := range []struct{ name, src string }{{"full", c.Full}, {"decorated", c.Deco}, {"term-parenthesised", termPar}} {
		o := evalWith(r.src, input, vars)
		got := c11Outcome(o)
		if (got == "compile-error") != (oMin == "compile-error") {
			ctx.Fail("renderings disagree on compilability (min vs "+r.name+")", fmt.Sprintf("min %q → %s\n%s %q → %s", c.Min, oMin, r.name, r.src, got))
			return
		}
		if got != oMin {
			ctx.Fail("renderings evaluate differently (min vs "+r.name+")", fmt.Sprintf("min %q → %s\n%s %q → %s", c.Min, clip(oMin, 300), r.name, r.src, clip(got, 300)))
			return
		}
	}
	if unsupported && compiled {
		ctx.Fail("unsupported grammar alternative compiled", c.Min)
	}
	// 3. String() returns the source text; trailing text is rejected
	if compiled {
		for _, src := range []string{c.Min, c.Deco} {
			e, err, _, _ := compileGuarded(src)
			if err == nil && e != nil && e.String() != src {
				ctx.Fail("Expression.String() is not the source text", fmt.Sprintf("%q vs %q", e.String(), src))
				return
			}
		}
		tail := c.Min + " " + c.Tail
		e, err, pan, _ := compileGuarded(tail)
		if pan != "" {
			ctx.Fail("Compile panics on trailing text", tail+": "+pan)
		} else if err == nil && e != nil {
			ctx.Fail("source with unparsed trailing text accepted", fmt.Sprintf("%q compiled (trailing %q)", tail, c.Tail))
		}
		if r, _ := utf8.DecodeRuneInString(c.Tail); r > 0x7e || c.Tail == "\f" || c.Tail == "\v" {
			// the same character in front of, or directly behind, the expression
			for _, src := range []string{c.Tail + c.Min, c.Min + c.Tail, c.Tail + " " + c.Min + "\n"} {
				if e, err, _, _ := compileGuarded(src); err == nil && e != nil {
					ctx.Fail("source with text that is not FHIRPath white space around the expression accepted", fmt.Sprintf("%q compiled", src))
					break
				}
			}
		}
	}
}

// --- keyword-named steps and long chains --------------------------------------------------

// c11Keywords: every word the grammar reserves as a literal token, and a few ordinary names as
// controls.  Whether a word may be a member name is the grammar's business; what the property
// demands is that every spelling of the same path - tight, spaced, commented, parenthesised -
// is accepted or rejected alike and evaluates alike.
var c11Keywords = []string{"and", "or", "xor", "implies", "div", "mod", "is", "as", "in", "contains", "true", "false",
	"year", "years", "month", "months", "week", "weeks", "day", "days", "hour", "hours", "minute", "minutes", "second", "seconds", "millisecond", "milliseconds",
	"name", "given", "active", "nosuchelement", "Patient", "this", "index", "total"}

type c11WordCase struct {
	Root string `json:"root"`
	Word string `json:"word"`
	Tail string `json:"tail"`
}

func c11EnumWords(yield func(c11WordCase)) {
	for _, root := range []string{"Patient", "Patient.name", "name", "$this", "%context"} {
		for _, w := range c11Keywords {
			for _, tail := range []string{"", ".exists()", ".given", "[0]"} {
				yield(c11WordCase{Root: root, Word: w, Tail: tail})
			}
		}
	}
	for _, w := range c11Keywords {
		yield(c11WordCase{Root: "", Word: w})
	}
}

func c11RunWords(ctx *Ctx, c c11WordCase) {
	var forms []string
	if c.Root == "" {
		forms = []string{c.Word, " " + c.Word + " ", "(" + c.Word + ")", c.Word + "/* c */", "// c\n" + c.Word, "((" + c.Word + "))"}
	} else {
		forms = []string{
			c.Root + "." + c.Word + c.Tail,
			c.Root + " . " + c.Word + " " + c.Tail,
			"(" + c.Root + ")." + c.Word + c.Tail,
			"((" + c.Root + ")." + c.Word + ")" + c.Tail,
			c.Root + "/* c */." + c.Word + c.Tail,
			c.Root + "./**/" + c.Word + c.Tail,
			c.Root + "\n.\n" + c.Word + c.Tail + " // c",
			c.Root + "." + c.Word + c.Tail + "\t",
		}
	}
	vars := progVarsFor(fixturePatient())
	input := fixtureInput(fixturePatient())
	first := c11Outcome(evalWith(forms[0], input, vars))
	ctx.Eval(strings.Join(forms, "|"), true, "stage:keyword-steps", "compiles:"+fmt.Sprint(first != "compile-error"))
	if first == "panic" {
		ctx.Fail("Compile or Evaluate panics on a keyword-named step", forms[0])
		return
	}
	for _, f := range forms[1:] {
		got := c11Outcome(evalWith(f, input, vars))
		if (got == "compile-error") != (first == "compile-error") {
			ctx.Fail("spellings of one path disagree on compilability", fmt.Sprintf("%q → %s\n%q → %s", forms[0], clip(first, 200), f, clip(got, 200)))
			return
		}
		if got != first {
			ctx.Fail("spellings of one path evaluate differently", fmt.Sprintf("%q → %s\n%q → %s", forms[0], clip(first, 200), f, clip(got, 200)))
			return
		}
	}
}

// A long chain: n operands joined by operators of one or two precedence levels (all left
// associative), or one operand under d pairs of parentheses / d invocations.  Far beyond the
// depth of the generated trees; the minimal and the fully parenthesised rendering must still
// compile alike and evaluate alike, and for integer sums the value is known.
type c11ChainCase struct {
	Kind string `json:"kind"` // sum bool concat cmp-and parens calls
	N    int    `json:"n"`
	Ops  []int  `json:"ops"`
}

func c11GenChain(s Src) c11ChainCase {
	c := c11ChainCase{Kind: pickOne(s, []string{"sum", "sum", "bool", "and", "implies", "cmp", "concat", "mixed", "parens", "calls"}), N: pickOne(s, []int{s.Range(2, 40), s.Range(40, 130), s.Range(130, 260)})}
	for i := 0; i < c.N; i++ {
		c.Ops = append(c.Ops, s.Intn(4))
	}
	return c
}

func c11RunChain(ctx *Ctx, c c11ChainCase) {
	var min, full string
	wantInt, haveWant := int64(0), false
	switch c.Kind {
	case "parens":
		min, full = "1", strings.Repeat("(", c.N)+"1"+strings.Repeat(")", c.N)
	case "calls":
		min = "Patient.name" + strings.Repeat(".first()", c.N)
		full = strings.Repeat("(", c.N) + "Patient.name" + strings.Repeat(".first())", c.N)
	default:
		var opsets = map[string][]string{"sum": {"+", "-", "+", "-"}, "bool": {"or", "xor", "or", "xor"}, "and": {"and", "and", "and", "and"}, "implies": {"implies", "implies", "implies", "implies"}, "cmp": {"=", "!=", "=", "!="}, "concat": {"&", "&", "&", "&"}, "mixed": {"+", "*", "-", "*"}}
		operand := func(i int) string {
			switch c.Kind {
			case "bool", "and", "implies", "cmp":
				return []string{"true", "false"}[c.Ops[i]%2]
			case "concat":
				return []string{"'a'", "'b'", "{}", "'é'"}[c.Ops[i]%4]
			}
			return fmt.Sprint(c.Ops[i] + 1)
		}
		min, full = operand(0), operand(0)
		wantInt, haveWant = int64(c.Ops[0]+1), c.Kind == "sum"
		for i := 1; i < c.N; i++ {
			op := opsets[c.Kind][c.Ops[i-1]%4]
			min += " " + op + " " + operand(i)
			if c.Kind == "mixed" && op == "*" {
				// `*` binds tighter: the fully parenthesised form groups it with the operand before it
				full = c11GroupLast(full, operand(i))
			} else {
				full = "(" + full + " " + op + " " + operand(i) + ")"
			}
			if op == "+" {
				wantInt += int64(c.Ops[i] + 1)
			} else {
				wantInt -= int64(c.Ops[i] + 1)
			}
		}
	}
	input := fixtureInput(fixturePatient())
	oMin, oFull := c11Outcome(evalWith(min, input, nil)), c11Outcome(evalWith(full, input, nil))
	ctx.Eval(c.Kind+fmt.Sprint(c.N, c.Ops), c.N > 6 && oMin != "compile-error", "stage:long-chains", "kind:"+c.Kind, fmt.Sprintf("length:%d", c.N/50*50))
	if oMin == "panic" || oFull == "panic" {
		ctx.Fail("Compile or Evaluate panics on a long chain", clip(min, 200))
		return
	}
	if (oMin == "compile-error") != (oFull == "compile-error") {
		ctx.Fail("renderings of a long chain disagree on compilability", fmt.Sprintf("%d operands (%s): min → %s, full → %s\nmin: %s", c.N, c.Kind, clip(oMin, 100), clip(oFull, 100), clip(min, 300)))
		return
	}
	if oMin != oFull {
		ctx.Fail("renderings of a long chain evaluate differently", fmt.Sprintf("%d operands (%s): min → %s, full → %s\nmin: %s", c.N, c.Kind, clip(oMin, 100), clip(oFull, 100), clip(min, 300)))
		return
	}
	if haveWant && oMin != fmt.Sprintf("[Integer:%d]", wantInt) {
		ctx.Fail("a long sum does not evaluate to its value", fmt.Sprintf("%s → %s, want %d", clip(min, 300), clip(oMin, 100), wantInt))
	}
}

// c11GroupLast rewrites "(… op x)" + "* y" into "(… op (x * y))" (and "x" into "(x * y)").
func c11GroupLast(full, y string) string {
	if !strings.HasSuffix(full, ")") {
		return "(" + full + " * " + y + ")"
	}
	// the last operand starts after the last top-level operator of the outermost group
	depth := 0
	for i := len(full) - 2; i > 0; i-- {
		switch full[i] {
		case ')':
			depth++
		case '(':
			depth--
		case ' ':
			if depth == 0 && i+1 < len(full) && full[i+1] != '+' && full[i+1] != '-' && full[i+1] != '*' {
				return full[:i+1] + "(" + full[i+1:len(full)-1] + " * " + y + "))"
			}
		}
	}
	return "(" + full + " * " + y + ")"
}

func TestC11(t *testing.T) {
	r := newRec("C11",
		"a case is one generated expression tree (typed-ish generator over all 13 precedence levels, every table function, parenthesised sub-terms, root type names in every position; 8% get an unsupported operator | in contains ~ !~) rendered minimally parenthesised per the N1 precedence table, fully parenthesised and decorated with gaps from {' ','\\n','\\t','\\r','\\r\\n','/* c */','/**/','// c' ended by \\n, \\r or \\r\\n} and, one gap in five, a generated block or line comment whose body is drawn from fragments including quotes, operators, non-ASCII text and bytes that are not UTF-8; oracles: the real parse tree of every rendering equals the generated tree, all renderings compile alike and evaluate to the same outcome on the fixture Patient + variables, String() is the source, a trailing token makes Compile fail; non-trivial = compiled, minimal ≠ full rendering, and the tree mixes ≥ 2 binary/type levels or has a polarity/invocation/indexer applied to a compound operand; distinct = FNV-64 of (min, decorated).  (keyword-steps) every reserved word of the grammar and a few ordinary names as a member step after five roots, in eight spellings (tight, spaced, parenthesised, commented): all spellings are accepted or rejected alike and evaluate alike.  (long-chains) 2..260 operands joined by left-associative operators of one or two levels, or one operand under up to 260 parentheses / invocations: minimal and fully parenthesised rendering compile and evaluate alike, integer sums to their value",
		"the N1 precedence table = alternative order of `expression` in fhirpath.g4; all binary operators left-associative")
	runProperty(t, r,
		Stage[c11Case]{Name: "trees", Gen: c11Gen, Run: c11Run, N: pick(6000, 150000)},
		Stage[c11WordCase]{Name: "keyword-steps", Enum: c11EnumWords, Run: c11RunWords},
		Stage[c11ChainCase]{Name: "long-chains", Gen: c11GenChain, Run: c11RunChain, N: pick(300, 6000)})
}

// FuzzC11: the tree generator driven by go-fuzz bytes (rapid.MakeFuzz); thorough tier only.
func FuzzC11(f *testing.F) {
	f.Add([]byte{})
	f.Add([]byte("seed-1"))
	f.Fuzz(rapid.MakeFuzz(func(rt *rapid.T) {
		c := c11Gen(rapidSrc{rt})
		r := newRec("C11", "native fuzz")
		ctx := &Ctx{r: r, stage: "trees", c: c}
		c11Run(ctx, c)
		if ctx.failed {
			for sig, v := range r.violations {
				body := map[string]any{"property": "C11", "stage": "trees", "sig": sig, "detail": v.Detail, "case": jsonable(c)}
				b, _ := json.MarshalIndent(body, "", " ")
				if dir := os.Getenv("VERIF_FUZZ_OUT"); dir != "" {
					os.WriteFile(filepath.Join(dir, fmt.Sprintf("fuzzfail-%x.json", hash64(string(b)))), b, 0o644)
				}
				rt.Fatalf("violation: %s", sig)
			}
		}
	}))
}
