package zzverif

// C08 — Integer/Decimal arithmetic is exact; overflow and division by zero give empty.
// Oracle: math/big.  Operands reach the library as environment variables (every
// kind) and as literals (where a literal exists).

import (
	"fmt"
	"math"
	"math/big"
	"strconv"
	"strings"
	"testing"
)

type c08Case struct {
	Op  string `json:"op"` // + - * / div mod neg abs round roundp floor ceiling truncate ident
	A   Val    `json:"a"`
	B   Val    `json:"b"`
	Lit bool   `json:"lit"` // deliver operands as literals (only when both have one)
}

var c08BinOps = []string{"+", "-", "*", "/", "div", "mod"}
var c08UnOps = []string{"neg", "abs", "round", "floor", "ceiling", "truncate"}

var c08IntBoundary = []int64{0, 1, -1, 2, -2, 46340, -46340, 46341, -46341, 65536, -65536, 2147483646, 2147483647, -2147483647, -2147483648}

var c08DecBoundary = []string{
	// non-zero values below the smallest float64 (a zero test through float64 sees 0)
	"0." + strings.Repeat("0", 329) + "1", "-0." + strings.Repeat("0", 400) + "5", "0." + strings.Repeat("0", 30) + "1",
	"0.0", "1.0", "1.00", "-1.0", "0.5", "1.5", "2.5", "-0.5", "-1.5", "-2.5", "0.1", "0.2", "0.3", "3.0",
	"0.99999999999999999", "1.00000000000000001", "-0.99999999999999999",
	"123456789012345678901234567890.123456789", "0.000000000000000000000000000001",
	"2147483647.0", "2147483647.5", "2147483648.0", "-2147483648.0", "-2147483648.5", "-2147483649.0",
	"9999999999.9", "0.49999999999999999", "1.45", "1.55", "-1.45", "100.0", "0.001",
	// unscaled coefficients exactly on a machine-word boundary (±2^31, ±2^32, ±2^63, 2^63-1, 2^64)
	// at several scales, and the coefficients ±1 (where a fixed-width fast path for the
	// coefficients overflows or loses the sign)
	"-9.223372036854775808", "9.223372036854775807", "9.223372036854775808", "-0.9223372036854775808", "-922337203685477580.8",
	"18.446744073709551616", "-18.446744073709551615", "-2.147483648", "4.294967296", "-0.1", "-0.01", "0.01",
	// a very long fraction next to operands of ordinary scale (the exponents differ by more than
	// 1024: scale is not magnitude, no operand may be dropped as negligible)
	"2." + strings.Repeat("0", 1100) + "1", "-123456.5" + strings.Repeat("0", 1100) + "25", "0." + strings.Repeat("0", 1030) + "7", "7." + strings.Repeat("3", 1025),
}

func c08IsIntKind(k string) bool {
	switch k {
	case "Integer", "fhir.integer", "fhir.positiveInt", "fhir.unsignedInt":
		return true
	}
	return false
}

func c08GenInt(s Src) Val {
	var n int64
	switch s.Intn(4) {
	case 0:
		n = pickOne(s, c08IntBoundary)
	case 1:
		n = int64(s.Range(-100, 100))
	default:
		n = int64(s.Int32())
	}
	switch s.Intn(8) {
	case 0:
		return fv("integer", strconv.FormatInt(n, 10))
	case 1:
		u := uint32(n)
		if s.Bool() {
			u &= 0x7fffffff
		}
		if s.Bool() {
			return fv("unsignedInt", strconv.FormatUint(uint64(u), 10))
		}
		if u == 0 {
			u = 1
		}
		return fv("positiveInt", strconv.FormatUint(uint64(u), 10))
	}
	return iv(n)
}

func c08GenDec(s Src) Val {
	var txt string
	if s.Intn(3) == 0 {
		txt = pickOne(s, c08DecBoundary)
	} else if s.Intn(6) == 0 {
		// around a machine-word boundary: m·2^k + d (k = 31, 32, 63, 64, 65, 128) or 10^k + d, with a
		// fraction - where a conversion through a fixed-width integer wraps or truncates
		n := new(big.Int)
		if s.Bool() {
			n.Lsh(big.NewInt(int64(s.Range(1, 3))), uint(pickOne(s, []int{31, 32, 63, 64, 64, 65, 128})))
		} else {
			n.Exp(big.NewInt(10), big.NewInt(int64(pickOne(s, []int{9, 10, 18, 19, 20, 38, 64}))), nil)
		}
		n.Add(n, big.NewInt(int64(s.Range(-6, 6))))
		txt = n.String() + pickOne(s, []string{".0", ".5", ".25", ".999", ".000000001"})
		if s.Bool() {
			txt = "-" + txt
		}
	} else {
		ip := s.Str(digits, 1, pickOne(s, []int{1, 3, 10, 20}))
		ip = strings.TrimLeft(ip, "0")
		if ip == "" {
			ip = "0"
		}
		fp := s.Str(digits, 1, pickOne(s, []int{1, 2, 5, 17, 30}))
		if s.Intn(6) == 0 {
			fp = "5"
		}
		txt = ip + "." + fp
		if s.Bool() {
			txt = "-" + txt
		}
	}
	if s.Intn(8) == 0 {
		return fv("decimal", txt)
	}
	return dv(txt)
}

func c08GenNum(s Src) Val {
	if s.Intn(5) < 3 {
		return c08GenInt(s)
	}
	return c08GenDec(s)
}

func c08Gen(s Src) c08Case {
	c := c08Case{Lit: s.Intn(4) == 0}
	switch s.Intn(10) {
	case 0, 1, 2, 3, 4, 5:
		c.Op = pickOne(s, c08BinOps)
		c.A, c.B = c08GenNum(s), c08GenNum(s)
		if s.Intn(12) == 0 { // zero divisors of every kind
			c.B = pickOne(s, []Val{iv(0), dv("0.0"), dv("0.000"), fv("integer", "0"), fv("unsignedInt", "0"), fv("decimal", "0.00")})
		}
	case 6:
		c.Op = "ident"
		c.A, c.B = c08GenNum(s), c08GenNum(s)
	case 7:
		c.Op = "roundp"
		c.A = c08GenNum(s)
		c.B = iv(int64(pickOne(s, []int{s.Range(0, 8), s.Range(0, 8), s.Range(9, 30)})))
	default:
		c.Op = pickOne(s, c08UnOps)
		c.A = c08GenNum(s)
	}
	return c
}

func c08Enum(yield func(c08Case)) {
	var pool []Val
	for _, n := range c08IntBoundary {
		pool = append(pool, iv(n))
	}
	for _, d := range c08DecBoundary {
		pool = append(pool, dv(d))
	}
	pool = append(pool, fv("unsignedInt", "2147483648"), fv("unsignedInt", "4294967295"), fv("positiveInt", "3000000000"),
		fv("integer", "-2147483648"), fv("decimal", "1.50"), fv("positiveInt", "7"))
	for _, a := range pool {
		for _, op := range c08UnOps {
			yield(c08Case{Op: op, A: a})
		}
		for p := 0; p <= 3; p++ {
			yield(c08Case{Op: "roundp", A: a, B: iv(int64(p))})
		}
		for _, b := range pool {
			for _, op := range c08BinOps {
				yield(c08Case{Op: op, A: a, B: b})
				if _, ok := a.lit(); ok {
					if _, ok := b.lit(); ok {
						yield(c08Case{Op: op, A: a, B: b, Lit: true})
					}
				}
			}
			yield(c08Case{Op: "ident", A: a, B: b})
		}
	}
}

// numeric literal rendering that also covers negatives
func c08Lit(v Val) (string, bool) {
	if !v.isSystem() {
		return "", false
	}
	if strings.HasPrefix(v.S, "-") {
		if v.K == "Integer" && v.S == "-2147483648" {
			return "", false
		}
		pos := v
		pos.S = v.S[1:]
		l, ok := pos.lit()
		if !ok {
			return "", false
		}
		return "(-" + l + ")", true
	}
	return v.lit()
}

func c08Source(c c08Case) (src string, vars map[string]any) {
	vars = map[string]any{}
	a, b := "%a", "%b"
	useLit := false
	if c.Lit {
		la, oka := c08Lit(c.A)
		lb, okb := "", true
		if c.B.K != "" {
			lb, okb = c08Lit(c.B)
		}
		if oka && okb {
			a, b, useLit = la, lb, true
		}
	}
	if !useLit {
		vars["a"] = c.A.mustBuild()
		if c.B.K != "" {
			vars["b"] = c.B.mustBuild()
		}
	}
	switch c.Op {
	case "+", "-", "*", "/", "div", "mod":
		src = fmt.Sprintf("%s %s %s", a, c.Op, b)
	case "neg":
		src = "-" + a
	case "abs", "round", "floor", "ceiling", "truncate":
		src = fmt.Sprintf("%s.%s()", a, c.Op)
	case "roundp":
		src = fmt.Sprintf("%s.round(%s)", a, b)
	case "ident":
		src = fmt.Sprintf("(%s div %s) * %s + (%s mod %s) = %s", a, b, b, a, b, a)
	}
	return
}

type c08Expect struct {
	empty   bool
	val     *big.Rat
	alt     *big.Rat // second accepted value (negative rounding ties)
	tol     *big.Rat
	errOK   bool // an error is also acceptable
	emptyOK bool // empty is also acceptable
	wantInt bool // result must be an Integer
	cond    string
}

var tol16 = ratOf("0.0000000000000001")

func ratTrunc(r *big.Rat) *big.Rat {
	q := new(big.Int).Quo(r.Num(), r.Denom()) // truncated toward zero
	return new(big.Rat).SetInt(q)
}

func ratFloor(r *big.Rat) *big.Rat {
	q := new(big.Int).Div(r.Num(), r.Denom()) // Euclidean; denominator positive => floor
	return new(big.Rat).SetInt(q)
}

func ratCeil(r *big.Rat) *big.Rat {
	f := ratFloor(r)
	if f.Cmp(r) == 0 {
		return f
	}
	return f.Add(f, big.NewRat(1, 1))
}

// roundHalfAway rounds r to p decimal places, ties away from zero; alt is the
// half-up alternative when it differs (negative ties).
func ratRound(r *big.Rat, p int) (away, alt *big.Rat) {
	scale := new(big.Rat).SetInt(new(big.Int).Exp(big.NewInt(10), big.NewInt(int64(p)), nil))
	x := new(big.Rat).Mul(r, scale)
	half := big.NewRat(1, 2)
	var a *big.Rat
	if x.Sign() >= 0 {
		a = ratFloor(new(big.Rat).Add(x, half))
	} else {
		a = ratCeil(new(big.Rat).Sub(x, half))
	}
	up := ratFloor(new(big.Rat).Add(x, half)) // half up
	away = new(big.Rat).Quo(a, scale)
	if up.Cmp(a) != 0 {
		alt = new(big.Rat).Quo(up, scale)
	}
	return
}

func c08Model(c c08Case) c08Expect {
	a := ratOf(c.A.S)
	aInt := c08IsIntKind(c.A.K)
	var b *big.Rat
	bInt := false
	if c.B.K != "" {
		b = ratOf(c.B.S)
		bInt = c08IsIntKind(c.B.K)
	}
	// an Integer-kind element whose value is not an int32 has no System value
	unrep := (aInt && !fitsInt32(a)) || (b != nil && bInt && !fitsInt32(b))
	both := aInt && (b == nil || bInt)
	e := c08Expect{cond: "in-range"}
	finish := func(v *big.Rat, intResult bool) c08Expect {
		e.val = v
		if intResult && !fitsInt32(v) {
			e.empty, e.val, e.cond = true, nil, "overflow"
		}
		return e
	}
	var out c08Expect
	switch c.Op {
	case "+":
		out = finish(new(big.Rat).Add(a, b), both)
	case "-":
		out = finish(new(big.Rat).Sub(a, b), both)
	case "*":
		out = finish(new(big.Rat).Mul(a, b), both)
	case "/":
		if b.Sign() == 0 {
			e.empty, e.cond = true, "zero-divisor"
			out = e
		} else {
			e.tol = tol16
			out = finish(new(big.Rat).Quo(a, b), false)
		}
	case "div":
		if b.Sign() == 0 {
			e.empty, e.cond = true, "zero-divisor"
			out = e
		} else {
			e.wantInt = true
			out = finish(ratTrunc(new(big.Rat).Quo(a, b)), true)
		}
	case "mod":
		if b.Sign() == 0 {
			e.empty, e.cond = true, "zero-divisor"
			out = e
		} else {
			q := ratTrunc(new(big.Rat).Quo(a, b))
			out = finish(new(big.Rat).Sub(a, new(big.Rat).Mul(q, b)), both)
		}
	case "neg":
		out = finish(new(big.Rat).Neg(a), aInt)
		if out.empty {
			out.cond = "minint"
		}
	case "abs":
		out = finish(new(big.Rat).Abs(a), aInt)
		if out.empty {
			out.cond = "minint"
		}
	case "floor":
		e.wantInt = true
		out = finish(ratFloor(a), true)
		out.errOK = out.empty
	case "ceiling":
		e.wantInt = true
		out = finish(ratCeil(a), true)
		out.errOK = out.empty
	case "truncate":
		e.wantInt = true
		out = finish(ratTrunc(a), true)
		out.errOK = out.empty
	case "round", "roundp":
		p := 0
		if c.Op == "roundp" {
			p = int(b.Num().Int64())
		}
		away, alt := ratRound(a, p)
		e.alt = alt
		out = finish(away, false)
	case "ident":
		if b.Sign() == 0 {
			e.empty, e.cond = true, "zero-divisor"
			out = e
		} else if q := ratTrunc(new(big.Rat).Quo(a, b)); !fitsInt32(q) {
			e.empty, e.cond = true, "overflow"
			out = e
		} else if bInt && !fitsInt32(new(big.Rat).Mul(q, b)) {
			// (a div b) is an Integer; multiplied by an Integer b it overflows to empty
			e.empty, e.cond = true, "overflow"
			out = e
		} else {
			out = e // expects Boolean true; handled by the caller
		}
	}
	if unrep {
		// the operand itself cannot be a System Integer: the only wrong outcome is a number
		// different from the exact result
		out.cond = "unrepresentable-operand"
		out.errOK, out.emptyOK = true, true
		if out.empty {
			out.empty = false
			out.val = nil
		}
	}
	return out
}

// float64 defect model for abs/floor/ceiling/truncate (used to label findings)
func c08FloatModel(op string, a *big.Rat) (string, bool) {
	f, _ := a.Float64()
	switch op {
	case "floor":
		return strconv.FormatInt(int64(int32(math.Floor(f))), 10), true
	case "ceiling":
		return strconv.FormatInt(int64(int32(math.Ceil(f))), 10), true
	case "truncate":
		return strconv.FormatInt(int64(int32(math.Trunc(f))), 10), true
	}
	return "", false
}

func c08Run(ctx *Ctx, c c08Case) {
	src, vars := c08Source(c)
	out := evalWith(src, nil, vars)
	exp := c08Model(c)
	a := ratOf(c.A.S)
	boundary := false
	for _, v := range []Val{c.A, c.B} {
		if v.K == "" {
			continue
		}
		r := ratOf(v.S)
		digitsN := len(strings.Trim(strings.ReplaceAll(strings.TrimPrefix(v.S, "-"), ".", ""), "0"))
		if digitsN > 15 {
			boundary = true
		}
		if r.IsInt() {
			for _, n := range c08IntBoundary {
				if r.Num().IsInt64() && r.Num().Int64() == n && n != 0 {
					boundary = true
				}
			}
		}
	}
	nontrivial := boundary || exp.cond != "in-range"
	opClass := c.Op
	// operand class for signatures: System values vs FHIR elements (the kinds are in the detail)
	kinds := "sys"
	if !c.A.isSystem() || (c.B.K != "" && !c.B.isSystem()) {
		kinds = "elem"
	}
	kindsDetail := c.A.K
	if c.B.K != "" {
		kindsDetail += "×" + c.B.K
	}
	ctx.Eval(src+"|"+c.A.String()+"|"+c.B.String(), nontrivial, "op:"+opClass, "cond:"+exp.cond)
	delivery := "var"
	if len(vars) == 0 {
		delivery = "lit"
	}
	fail := func(got string) {
		want := "value"
		if exp.empty {
			want = "empty"
		}
		ctx.Fail(fmt.Sprintf("arith %s %s [%s] want %s got %s", c.Op, kinds, exp.cond, want, got),
			fmt.Sprintf("%s (%s) with a=%v b=%v [%s]: expected %s, got %s", src, delivery, c.A, c.B, kindsDetail, c08ExpStr(exp), out))
	}
	switch out.kind() {
	case "panic":
		fail("panic@" + out.Panic)
		return
	case "cerror":
		if c.Op == "roundp" {
			ctx.Count("roundp_rejected_by_compile(C16)")
			return
		}
		fail("compile-error")
		return
	case "error":
		if exp.errOK {
			return
		}
		fail("error:" + c08ErrClass(out.Err))
		return
	case "multi":
		fail("multi-item")
		return
	case "empty":
		if exp.empty || exp.emptyOK {
			return
		}
		fail("empty")
		return
	}
	// a single value
	if c.Op == "ident" {
		if exp.empty {
			fail("value-instead-of-empty")
			return
		}
		if exp.cond == "unrepresentable-operand" {
			return
		}
		if renderItem(out.Coll[0]) != "Boolean:true" {
			fail("identity-false")
		}
		return
	}
	got, typ, ok := numOf(out.Coll[0])
	if !ok {
		fail("non-number:" + typeName(out.Coll[0]))
		return
	}
	if exp.empty {
		tag := "value-instead-of-empty"
		if got.IsInt() && got.Num().Cmp(minI32) == 0 {
			tag += "(=MinInt32)"
		} else if m, ok := c08FloatModel(c.Op, a); ok && m == ratStr(got) {
			tag += "(=float64-model)"
		}
		fail(tag)
		return
	}
	if exp.val == nil { // unrepresentable operand with no defined result
		fail("number-from-unrepresentable-operand")
		return
	}
	match := func(want *big.Rat) bool {
		if want == nil {
			return false
		}
		d := new(big.Rat).Sub(got, want)
		d.Abs(d)
		if exp.tol != nil {
			return d.Cmp(exp.tol) <= 0
		}
		return d.Sign() == 0
	}
	if !match(exp.val) && !match(exp.alt) {
		tag := "wrong-value"
		f, _ := a.Float64()
		if m, ok := c08FloatModel(c.Op, a); ok && m == ratStr(got) {
			tag += "(=float64-model)"
		} else if c.Op == "abs" {
			if fa := strconv.FormatFloat(math.Abs(f), 'f', -1, 64); ratOf(fa).Cmp(got) == 0 {
				tag += "(=float64-model)"
			}
		} else if exp.cond == "unrepresentable-operand" {
			tag += "(wrapped-operand)"
		}
		fail(tag)
		return
	}
	if exp.wantInt && typ != "Integer" {
		fail("wrong-type:" + typ)
	}
}

func c08ExpStr(e c08Expect) string {
	if e.empty {
		return "empty (" + e.cond + ")"
	}
	if e.val == nil {
		return "empty or error (" + e.cond + ")"
	}
	s := ratStr(e.val)
	if e.alt != nil {
		s += " or " + ratStr(e.alt)
	}
	return s + " (" + e.cond + ")"
}

func c08ErrClass(err error) string {
	msg := err.Error()
	switch {
	case strings.Contains(msg, "not a number"):
		return "not-a-number"
	case strings.Contains(msg, "not convertible"):
		return "not-convertible"
	case strings.Contains(msg, "mismatch"):
		return "type-mismatch"
	}
	return "other"
}

func TestC08(t *testing.T) {
	r := newRec("C08",
		"cases are (operator|function, operand a, operand b, delivery) over Integer/Decimal System values and FHIR integer/positiveInt/unsignedInt/decimal elements; boundary matrix enumerated completely, the rest drawn by rapid; non-trivial = an operand is a listed Integer boundary value or has more than 15 significant digits, or the exact result is outside int32, or the divisor is zero, or an element operand is not an int32; distinct = FNV-64 of (source, operands)",
		"math/big is exact", "operands are delivered through evalopts.EnvVariable and as literals; the FHIRPath parser and variable lookup are trusted to deliver them unchanged (checked by C15/C17)")
	runProperty(t, r,
		Stage[c08Case]{Name: "matrix", Enum: c08Enum, Run: c08Run},
		Stage[c08Case]{Name: "random", Gen: c08Gen, Run: c08Run, N: pick(30000, 200000)},
	)
}
