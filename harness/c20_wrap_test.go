package zzverif

// C20 — resource, bundle and extension wrappers are inverses for every R4 type;
// extension mutators change only the extensions with the given URL; extraction
// finds every element of a type exactly once with a path that locates it.

import (
	"errors"
	"fmt"
	"google.golang.org/protobuf/types/known/anypb"
	"reflect"
	"sort"
	"strings"
	"testing"

	dtpb "github.com/google/fhir/go/proto/google/fhir/proto/r4/core/datatypes_go_proto"
	bcrpb "github.com/google/fhir/go/proto/google/fhir/proto/r4/core/resources/bundle_and_contained_resource_go_proto"
	"github.com/verily-src/fhirpath-go/internal/bundle"
	"github.com/verily-src/fhirpath-go/internal/containedresource"
	"github.com/verily-src/fhirpath-go/internal/element"
	"github.com/verily-src/fhirpath-go/internal/element/extension"
	"github.com/verily-src/fhirpath-go/internal/fhir"
	"github.com/verily-src/fhirpath-go/internal/protofields"
	"github.com/verily-src/fhirpath-go/internal/resource"
	"google.golang.org/protobuf/proto"
	"google.golang.org/protobuf/reflect/protoreflect"
)

// --- exhaustive: resource types ---------------------------------------------------

type c20TypeCase struct {
	Name string `json:"name"`
}

func c20EnumTypes(yield func(c20TypeCase)) {
	seen := map[string]bool{}
	for _, r := range allResTypes {
		seen[r.Name] = true
		yield(c20TypeCase{r.Name})
	}
	// names known to the repository's registry but not to the schema would be a defect too
	var extra []string
	for n := range protofields.Resources {
		if !seen[n] {
			extra = append(extra, n)
		}
	}
	sort.Strings(extra)
	for _, n := range extra {
		yield(c20TypeCase{n})
	}
}

func c20RunType(ctx *Ctx, c c20TypeCase) {
	ctx.Eval(c.Name, true, "stage:resource-types")
	fail := func(what, detail string) { ctx.Fail("wrappers "+what, c.Name+": "+detail) }
	rt, inSchema := resTypeByName[c.Name]
	if !inSchema {
		fail("registry has a resource name that is not in the ContainedResource oneof", "")
		return
	}
	g := guard(func() {
		if _, ok := protofields.Resources[c.Name]; !ok {
			fail("registry lacks a resource type of the schema", "")
			return
		}
		if !resource.IsType(c.Name) {
			fail("resource.IsType is false for a schema type", "")
			return
		}
		r, err := resource.NewFromString(c.Name)
		if err != nil || r == nil {
			fail("NewFromString fails", fmt.Sprint(err))
			return
		}
		if string(r.ProtoReflect().Descriptor().Name()) != c.Name || string(resource.TypeOf(r)) != c.Name {
			fail("new instance reports another type", fmt.Sprintf("%s / %s", r.ProtoReflect().Descriptor().Name(), resource.TypeOf(r)))
			return
		}
		if r2 := resource.Type(c.Name).New(); r2 == nil || r2.ProtoReflect().Descriptor() != r.ProtoReflect().Descriptor() {
			fail("Type.New differs from NewFromString", "")
			return
		}
		cr := containedresource.Wrap(r)
		if cr == nil {
			fail("Wrap returns nil", "")
			return
		}
		od := cr.ProtoReflect().Descriptor().Oneofs().Get(0)
		fd := cr.ProtoReflect().WhichOneof(od)
		if fd == nil || fd.Number() != rt.Field.Number() {
			fail("Wrap sets the wrong oneof member", fmt.Sprint(fd))
			return
		}
		if back := containedresource.Unwrap(cr); any(back) != any(r) {
			fail("Unwrap(Wrap(r)) is not r itself", fmt.Sprintf("%T %p vs %p", back, back, r))
			return
		}
		if containedresource.TypeOf(cr) != resource.Type(c.Name) {
			fail("containedresource.TypeOf differs", string(containedresource.TypeOf(cr)))
			return
		}
		e := bundle.NewCollectionEntry(r)
		if back := bundle.UnwrapEntry(e); any(back) != any(r) {
			fail("UnwrapEntry(NewCollectionEntry(r)) is not r itself", "")
			return
		}
		for _, mk := range []func(fhir.Resource, ...bundle.EntryOption) *bcrpb.Bundle_Entry{bundle.NewPostEntry, bundle.NewPutEntry} {
			if back := bundle.UnwrapEntry(mk(r)); any(back) != any(r) {
				fail("UnwrapEntry(New{Post,Put}Entry(r)) is not r itself", "")
				return
			}
		}
	})
	if g.Panic != "" {
		fail("panic@"+g.Panic, clip(g.Stack, 1200))
	}
}

// --- exhaustive: extension value types ----------------------------------------------

type c20ValueCase struct {
	Field string `json:"field"` // member of Extension.ValueX, or "!<message>" for a type outside the oneof
}

func c20EnumValues(yield func(c20ValueCase)) {
	od := (&dtpb.Extension_ValueX{}).ProtoReflect().Descriptor().Oneofs().Get(0)
	for i := 0; i < od.Fields().Len(); i++ {
		yield(c20ValueCase{string(od.Fields().Get(i).Name())})
	}
	for _, n := range []string{"!Narrative", "!Extension", "!Xhtml", "!Element", "!BackboneElement", "!Population", "!MarketingStatus", "!Patient", "!ElementDefinition", "!ReferenceId"} {
		yield(c20ValueCase{n})
	}
}

func c20RunValue(ctx *Ctx, c c20ValueCase) {
	ctx.Eval(c.Field, true, "stage:extension-values")
	url := []string{"http://example.org/ext/", "http://Example.ORG/ext/", "HTTPS://example.org/Ext/", "urn:oid:1.2.", "ext-"}[len(c.Field)%5] + strings.TrimPrefix(c.Field, "!")
	g := guard(func() {
		if strings.HasPrefix(c.Field, "!") {
			var e proto.Message
			switch c.Field {
			case "!Narrative":
				e = &dtpb.Narrative{}
			case "!Extension":
				e = &dtpb.Extension{}
			case "!Xhtml":
				e = &dtpb.Xhtml{}
			case "!Element":
				e = &dtpb.Element{}
			case "!BackboneElement":
				e = &dtpb.BackboneElement{}
			case "!Population":
				e = &dtpb.Population{}
			case "!MarketingStatus":
				e = &dtpb.MarketingStatus{}
			case "!ElementDefinition":
				e = &dtpb.ElementDefinition{}
			case "!ReferenceId":
				e = &dtpb.ReferenceId{}
			case "!Patient":
				e = newResource("Patient")
			}
			el, ok := e.(fhir.Element)
			if !ok {
				return
			}
			ext, err := extension.FromElement(url, el)
			if err == nil || ext != nil || !errors.Is(err, extension.ErrInvalidValueX) {
				ctx.Fail("wrappers extension: a type outside Extension.value[x] is not rejected with ErrInvalidValueX", fmt.Sprintf("%s: ext=%v err=%v", c.Field, ext, err))
			}
			return
		}
		od := (&dtpb.Extension_ValueX{}).ProtoReflect().Descriptor().Oneofs().Get(0)
		fd := od.Fields().ByName(protoreflect.Name(c.Field))
		holder := &dtpb.Extension_ValueX{}
		e := holder.ProtoReflect().NewField(fd).Message().Interface()
		el, ok := e.(fhir.Element)
		if !ok {
			ctx.Fail("harness: value type is not a fhir.Element", c.Field)
			return
		}
		ext, err := extension.FromElement(url, el)
		if err != nil || ext == nil {
			ctx.Fail("wrappers extension: a datatype allowed as extension value is rejected", fmt.Sprintf("%s (%T): %v", c.Field, e, err))
			return
		}
		if ext.GetUrl().GetValue() != url {
			ctx.Fail("wrappers extension: url not kept", c.Field)
			return
		}
		if set := ext.GetValue().ProtoReflect().WhichOneof(od); set == nil || set.Number() != fd.Number() {
			ctx.Fail("wrappers extension: FromElement sets the wrong value[x] member", fmt.Sprintf("%s → %v", c.Field, set))
			return
		}
		if back := extension.Unwrap(ext); any(back) != any(e) {
			ctx.Fail("wrappers extension: Unwrap(FromElement(e)) is not e itself", c.Field)
		}
	})
	if g.Panic != "" {
		ctx.Fail("wrappers extension: panic@"+g.Panic, c.Field)
	}
}

// --- generated: bundles ----------------------------------------------------------------

type c20BundleCase struct {
	Res   []string `json:"res"`
	Kinds []string `json:"kinds,omitempty"` // per entry: collection post put delete empty ("" = collection)
	Type  string   `json:"type,omitempty"`  // collection transaction batch
	// per entry, the other members of Bundle.entry that are filled in (bit set):
	// 1 fullUrl, 2 response (status, location, etag), 4 response.outcome (an OperationOutcome or a
	// copy of a generated resource), 8 search, 16 link
	Decor []int `json:"decor,omitempty"`
}

func c20GenBundle(s Src) c20BundleCase {
	c := c20BundleCase{Type: pickOne(s, []string{"collection", "transaction", "batch"})}
	for i := 0; i < s.Range(0, 6); i++ {
		c.Res = append(c.Res, resToText(genAnyResource(s, smallGen)))
		// entries without a resource (a DELETE request, an empty entry) keep their position
		c.Kinds = append(c.Kinds, pickOne(s, []string{"collection", "collection", "post", "put", "delete", "empty"}))
		d := 0
		if s.Prob(50) {
			d = s.Intn(32)
		}
		c.Decor = append(c.Decor, d)
	}
	return c
}

func c20AnyDecor(d []int) bool {
	for _, x := range d {
		if x != 0 {
			return true
		}
	}
	return false
}

// c20DecorateEntry fills in members of the entry other than `resource`; none of them is the
// entry's resource, so unwrapping must not be affected.
func c20DecorateEntry(e *bcrpb.Bundle_Entry, d int, r fhir.Resource, i int) {
	if d&1 != 0 {
		e.FullUrl = &dtpb.Uri{Value: fmt.Sprintf("urn:uuid:00000000-0000-0000-0000-%012d", i)}
	}
	if d&6 != 0 {
		if e.Response == nil {
			e.Response = &bcrpb.Bundle_Entry_Response{}
		}
		e.Response.Status = &dtpb.String{Value: "200 OK"}
		e.Response.Location = &dtpb.Uri{Value: fmt.Sprintf("Patient/p%d/_history/1", i)}
		e.Response.Etag = &dtpb.String{Value: "W/\"1\""}
	}
	if d&4 != 0 {
		var oc fhir.Resource = newResource("OperationOutcome").(fhir.Resource)
		if i%2 == 1 {
			oc = proto.Clone(r).(fhir.Resource)
		}
		e.Response.Outcome = containedresource.Wrap(oc)
	}
	if d&8 != 0 {
		e.Search = &bcrpb.Bundle_Entry_Search{Score: &dtpb.Decimal{Value: "0.5"}}
	}
	if d&16 != 0 {
		e.Link = append(e.Link, &bcrpb.Bundle_Link{Relation: &dtpb.String{Value: "self"}, Url: &dtpb.Uri{Value: "http://example.org/fhir"}})
	}
}

func c20RunBundle(ctx *Ctx, c c20BundleCase) {
	var rs []fhir.Resource
	for _, t := range c.Res {
		r, err := resFromText(t)
		if err != nil {
			ctx.Fail("harness: cannot decode case", err.Error())
			return
		}
		rs = append(rs, r.(fhir.Resource))
	}
	without := 0
	for _, k := range c.Kinds {
		if k == "delete" || k == "empty" {
			without++
		}
	}
	ctx.Eval(fmt.Sprint(c.Type, c.Kinds, c.Decor, c.Res), len(c.Res) >= 2, "stage:bundles", fmt.Sprintf("entries-without-resource:%v", without > 0), fmt.Sprintf("entries-with-other-members:%v", c20AnyDecor(c.Decor)))
	isNil := func(r fhir.Resource) bool {
		return r == nil || reflect.ValueOf(r).IsNil()
	}
	g := guard(func() {
		var entries []*bcrpb.Bundle_Entry
		want := make([]fhir.Resource, len(rs))
		for i, r := range rs {
			k := "collection"
			if i < len(c.Kinds) && c.Kinds[i] != "" {
				k = c.Kinds[i]
			}
			switch k {
			case "post":
				entries, want[i] = append(entries, bundle.NewPostEntry(r)), r
			case "put":
				entries, want[i] = append(entries, bundle.NewPutEntry(r)), r
			case "delete":
				entries = append(entries, bundle.NewDeleteEntry(resource.Type("Patient"), fmt.Sprintf("p%d", i)))
			case "empty":
				entries = append(entries, &bcrpb.Bundle_Entry{})
			default:
				entries, want[i] = append(entries, bundle.NewCollectionEntry(r)), r
			}
			if i < len(c.Decor) {
				c20DecorateEntry(entries[len(entries)-1], c.Decor[i], r, i)
			}
		}
		var b *bcrpb.Bundle
		switch c.Type {
		case "transaction":
			b = bundle.NewTransaction(bundle.WithEntries(entries...))
		case "batch":
			b = bundle.NewBatch(bundle.WithEntries(entries...))
		default:
			b = bundle.NewCollection(bundle.WithEntries(entries...))
		}
		got := bundle.Unwrap(b)
		if len(got) != len(rs) {
			ctx.Fail("wrappers bundle: Unwrap returns another number of resources than the bundle has entries", fmt.Sprintf("%d vs %d (kinds %v)", len(got), len(rs), c.Kinds))
			return
		}
		for i := range rs {
			if want[i] == nil {
				if !isNil(got[i]) {
					ctx.Fail("wrappers bundle: Unwrap invents a resource for an entry without one", fmt.Sprintf("position %d (kinds %v)", i, c.Kinds))
					return
				}
				continue
			}
			if any(got[i]) != any(want[i]) {
				ctx.Fail("wrappers bundle: Unwrap does not return the entries' resources in order", fmt.Sprintf("position %d (kinds %v)", i, c.Kinds))
				return
			}
		}
	})
	if g.Panic != "" {
		ctx.Fail("wrappers bundle: panic@"+g.Panic, clip(g.Stack, 1000))
	}
}

// --- generated: extension mutators -----------------------------------------------------

type c20MutCase struct {
	URLs  []int  `json:"urls"` // existing extensions (index into the url set)
	Op    string `json:"op"`   // upsert setbyurl append overwrite clear
	URL   int    `json:"url"`
	N     int    `json:"n"`     // number of new values/extensions
	Carry string `json:"carry"` // extendable kind
	// Set: the three URLs of this case (default c20URLs): spellings that differ in case, scheme,
	// trailing slash, fragment, or are no absolute URLs at all - a URL is an opaque string
	Set []string `json:"set,omitempty"`
}

var c20URLs = []string{"http://example.org/a", "http://example.org/b", "http://example.org/c"}

var c20URLPool = []string{"http://example.org/a", "http://Example.org/a", "HTTP://example.org/a", "http://EXAMPLE.ORG/A", "https://example.org/a", "http://example.org/a/", "http://example.org/a#x", "http://example.org/A",
	"http://example.org:80/a", "http://example.org/a?v=1", "urn:oid:1.2.3", "URN:OID:1.2.3", "urn:uuid:0e0b0cbe-0b1a-4b8e-9f7e-0f0e0d0c0b0a", "ext-a", "Ext-A", "a", "http://hl7.org/fhir/StructureDefinition/patient-birthPlace", "http://HL7.org/fhir/StructureDefinition/patient-birthPlace", " http://example.org/a", "http://example.org/a%20b", "http://example.org/é"}

func (c c20MutCase) urls() []string {
	if len(c.Set) == 3 {
		return c.Set
	}
	return c20URLs
}

func c20GenMut(s Src) c20MutCase {
	c := c20MutCase{Op: pickOne(s, []string{"upsert", "setbyurl", "append", "overwrite", "clear", "upsert", "setbyurl"}), URL: s.Intn(3), N: s.Range(0, 3), Carry: pickOne(s, []string{"Patient", "HumanName", "String", "Observation"})}
	for i := 0; i < s.Range(0, 6); i++ {
		c.URLs = append(c.URLs, s.Intn(3))
	}
	if s.Prob(60) {
		// three different spellings, often near twins of one another
		i := s.Intn(len(c20URLPool))
		for _, d := range []int{0, pickOne(s, []int{1, 1, 2, 5}), pickOne(s, []int{3, 7, 11})} {
			c.Set = append(c.Set, c20URLPool[(i+d)%len(c20URLPool)])
		}
		if c.Set[0] == c.Set[1] || c.Set[1] == c.Set[2] || c.Set[0] == c.Set[2] {
			c.Set = nil
		}
	}
	return c
}

func c20RunMut(ctx *Ctx, c c20MutCase) {
	var carrier fhir.Extendable
	switch c.Carry {
	case "Patient":
		carrier = newResource("Patient").(fhir.Extendable)
	case "Observation":
		carrier = newResource("Observation").(fhir.Extendable)
	case "HumanName":
		carrier = &dtpb.HumanName{}
	default:
		carrier = &dtpb.String{Value: "x"}
	}
	var before []*dtpb.Extension
	for i, u := range c.URLs {
		before = append(before, &dtpb.Extension{Url: &dtpb.Uri{Value: c.urls()[u]}, Value: &dtpb.Extension_ValueX{Choice: &dtpb.Extension_ValueX_Integer{Integer: &dtpb.Integer{Value: int32(i)}}}})
	}
	target := c.urls()[c.URL]
	nTarget, nOther := 0, 0
	for _, u := range c.URLs {
		if u == c.URL {
			nTarget++
		} else {
			nOther++
		}
	}
	ctx.Eval(fmt.Sprint(c), nTarget >= 2 && nOther >= 1, "stage:extension-mutators", "op:"+c.Op)
	fail := func(what string, after []*dtpb.Extension) {
		show := func(xs []*dtpb.Extension) string {
			var p []string
			for _, x := range xs {
				p = append(p, fmt.Sprintf("%s=%v", strings.TrimPrefix(x.GetUrl().GetValue(), "http://example.org/"), x.GetValue().GetInteger().GetValue()))
			}
			return "[" + strings.Join(p, " ") + "]"
		}
		ctx.Fail("wrappers extension mutator "+c.Op+": "+what, fmt.Sprintf("before %s, %s(url=%s, n=%d) → after %s", show(before), c.Op, strings.TrimPrefix(target, "http://example.org/"), c.N, show(after)))
	}
	g := guard(func() {
		extension.Overwrite(carrier, before...)
		if got := carrier.GetExtension(); len(got) != len(before) {
			fail("Overwrite does not install the given list", got)
			return
		}
		var fresh []*dtpb.Extension
		for i := 0; i < c.N; i++ {
			fresh = append(fresh, &dtpb.Extension{Url: &dtpb.Uri{Value: target}, Value: &dtpb.Extension_ValueX{Choice: &dtpb.Extension_ValueX_Integer{Integer: &dtpb.Integer{Value: int32(100 + i)}}}})
		}
		switch c.Op {
		case "upsert":
			if len(fresh) == 0 {
				fresh = append(fresh, &dtpb.Extension{Url: &dtpb.Uri{Value: target}, Value: &dtpb.Extension_ValueX{Choice: &dtpb.Extension_ValueX_Integer{Integer: &dtpb.Integer{Value: 100}}}})
			}
			extension.Upsert(carrier, fresh[0])
		case "setbyurl":
			vals := make([]*dtpb.Integer, c.N)
			for i := range vals {
				vals[i] = &dtpb.Integer{Value: int32(100 + i)}
			}
			extension.SetByURL(carrier, target, vals...)
		case "append":
			extension.AppendInto(carrier, fresh...)
		case "overwrite":
			extension.Overwrite(carrier, fresh...)
		case "clear":
			extension.Clear(carrier)
		}
		after := carrier.GetExtension()
		// the extensions with other URLs keep identity and relative order
		var othersBefore, othersAfter []*dtpb.Extension
		for _, x := range before {
			if x.GetUrl().GetValue() != target {
				othersBefore = append(othersBefore, x)
			}
		}
		for _, x := range after {
			if x.GetUrl().GetValue() != target {
				othersAfter = append(othersAfter, x)
			}
		}
		switch c.Op {
		case "overwrite":
			if len(after) != len(fresh) {
				fail("does not replace the whole list", after)
			}
			return
		case "clear":
			if len(after) != 0 {
				fail("does not remove every extension", after)
			}
			return
		}
		if len(othersAfter) != len(othersBefore) {
			fail("changes the extensions with another url (count)", after)
			return
		}
		for i := range othersBefore {
			if othersAfter[i] != othersBefore[i] {
				fail("changes the extensions with another url (identity/order)", after)
				return
			}
		}
		var targetAfter []*dtpb.Extension
		for _, x := range after {
			if x.GetUrl().GetValue() == target {
				targetAfter = append(targetAfter, x)
			}
		}
		switch c.Op {
		case "append":
			if len(after) != len(before)+len(fresh) {
				fail("does not append", after)
				return
			}
			for i := range before {
				if after[i] != before[i] {
					fail("disturbs the existing extensions", after)
					return
				}
			}
		case "setbyurl":
			if len(targetAfter) != c.N {
				fail("does not leave exactly the given values under the url", after)
				return
			}
			for i, x := range targetAfter {
				if x.GetValue().GetInteger().GetValue() != int32(100+i) {
					fail("values under the url are not the given ones in order", after)
					return
				}
			}
		case "upsert":
			want := nTarget
			if want == 0 {
				want = 1
			}
			if len(targetAfter) != want {
				fail("changes the number of extensions with the url (other than adding the first)", after)
				return
			}
			found := 0
			for _, x := range targetAfter {
				if x.GetValue().GetInteger().GetValue() == 100 {
					found++
				}
			}
			if found != 1 {
				fail("does not carry the new value in exactly one extension with the url", after)
			}
		}
	})
	if g.Panic != "" {
		fail("panic@"+g.Panic, nil)
	}
}

// --- generated: extraction ----------------------------------------------------------------

type c20ExtractCase struct {
	Res string `json:"res"`
	T   string `json:"t"` // Reference Identifier Coding Extension String DateTime
}

func c20GenExtract(s Src) c20ExtractCase {
	o := defaultGen
	o.Contained = s.Prob(25)
	if s.Prob(40) {
		o.Budget, o.P0 = 200, 35
	}
	return c20ExtractCase{Res: resToText(genAnyResource(s, o)), T: pickOne(s, c20ExtractNames)}
}

// collectOfType: an independent walk (descriptor Range; Any-packed contained resources are entered).
// c20InAny: elements of the wanted type found inside Any-packed resources by the last walk
var c20InAny int

func collectOfType(m protoreflect.Message, name string, out *[]proto.Message, depth int, viaAny *bool) {
	if depth > 60 {
		return
	}
	if string(m.Descriptor().Name()) == name && m.Descriptor().ParentFile().Package() == "google.fhir.r4.core" {
		*out = append(*out, m.Interface())
	}
	if m.Descriptor().FullName() == "google.protobuf.Any" {
		*viaAny = true
		// the contents of an Any have no identity inside the resource, but they are counted
		if a, ok := m.Interface().(*anypb.Any); ok {
			if inner, err := a.UnmarshalNew(); err == nil {
				var in []proto.Message
				collectOfType(inner.ProtoReflect(), name, &in, depth+1, new(bool))
				c20InAny += len(in)
			}
		}
		return
	}
	m.Range(func(f protoreflect.FieldDescriptor, v protoreflect.Value) bool {
		if f.Message() == nil {
			return true
		}
		if f.IsList() {
			for i := 0; i < v.List().Len(); i++ {
				collectOfType(v.List().Get(i).Message(), name, out, depth+1, viaAny)
			}
			return true
		}
		collectOfType(v.Message(), name, out, depth+1, viaAny)
		return true
	})
}

type withPath struct {
	el   proto.Message
	path string
}

func c20ExtractT[T proto.Message](res fhir.Resource) (plain []proto.Message, labelled []withPath, err1, err2 error) {
	a, e1 := element.ExtractAll[T](res)
	b, e2 := element.ExtractAllWithPath[T](res)
	for _, x := range a {
		plain = append(plain, x)
	}
	for _, x := range b {
		labelled = append(labelled, withPath{x.Element, x.FHIRPath})
	}
	return plain, labelled, e1, e2
}

// c20Extractors: the element types extraction is asked for — the six of the statement's
// quantifier first, then primitives whose zero value is a legitimate element (false, 0, "")
// and further complex types
var c20Extractors = map[string]func(fhir.Resource) ([]proto.Message, []withPath, error, error){
	"Reference":       c20ExtractT[*dtpb.Reference],
	"Identifier":      c20ExtractT[*dtpb.Identifier],
	"Coding":          c20ExtractT[*dtpb.Coding],
	"Extension":       c20ExtractT[*dtpb.Extension],
	"String":          c20ExtractT[*dtpb.String],
	"DateTime":        c20ExtractT[*dtpb.DateTime],
	"Boolean":         c20ExtractT[*dtpb.Boolean],
	"Integer":         c20ExtractT[*dtpb.Integer],
	"UnsignedInt":     c20ExtractT[*dtpb.UnsignedInt],
	"PositiveInt":     c20ExtractT[*dtpb.PositiveInt],
	"Decimal":         c20ExtractT[*dtpb.Decimal],
	"Uri":             c20ExtractT[*dtpb.Uri],
	"Code":            c20ExtractT[*dtpb.Code],
	"Date":            c20ExtractT[*dtpb.Date],
	"Instant":         c20ExtractT[*dtpb.Instant],
	"Period":          c20ExtractT[*dtpb.Period],
	"CodeableConcept": c20ExtractT[*dtpb.CodeableConcept],
	"Quantity":        c20ExtractT[*dtpb.Quantity],
	"HumanName":       c20ExtractT[*dtpb.HumanName],
	"Meta":            c20ExtractT[*dtpb.Meta],
	"Id":              c20ExtractT[*dtpb.Id],
}

var c20ExtractNames = func() []string {
	var out []string
	for n := range c20Extractors {
		out = append(out, n)
	}
	sort.Strings(out)
	// the statement's six types get half of the draws
	for i := 0; i < 3; i++ {
		out = append(out, "Reference", "Identifier", "Coding", "Extension", "String", "DateTime")
	}
	return out
}()

func c20Extract(res fhir.Resource, t string) (plain []proto.Message, labelled []withPath, err1, err2 error) {
	return c20Extractors[t](res)
}

// jsonPathOf renders the location of a tree node the way the JSON tree spells it
// (choice members by their JSON key, `_x` companions folded into `x`).
func jsonPathOf(root *Node, n *Node) (string, bool) {
	var chain []*Node
	for x := n; x.Parent != nil; x = x.Parent {
		chain = append([]*Node{x}, chain...)
	}
	parts := []string{root.Name}
	choice := false
	for _, x := range chain {
		p := x.JSONKey
		if x.Choice {
			choice = true
		}
		if x.IsList {
			p += fmt.Sprintf("[%d]", x.Index)
		}
		parts = append(parts, p)
	}
	return strings.Join(parts, "."), choice
}

func c20RunExtract(ctx *Ctx, c c20ExtractCase) {
	m, err := resFromText(c.Res)
	if err != nil {
		ctx.Fail("harness: cannot decode case", err.Error())
		return
	}
	res := m.(fhir.Resource)
	var want []proto.Message
	viaAny := false
	c20InAny = 0
	collectOfType(res.ProtoReflect(), c.T, &want, 0, &viaAny)
	wantInAny := c20InAny
	hasCR := false
	{
		var crs []proto.Message
		collectOfType(res.ProtoReflect(), "ContainedResource", &crs, 0, new(bool))
		hasCR = len(crs) > 0
	}
	var plain []proto.Message
	var labelled []withPath
	var e1, e2 error
	g := guard(func() { plain, labelled, e1, e2 = c20Extract(res, c.T) })
	deep := 0
	ctx.Eval(c.Res+"|"+c.T, len(want) >= 2, "stage:extraction", "type:"+c.T)
	_ = deep
	fail := func(what, detail string) {
		ctx.Fail("extraction "+c.T+": "+what, fmt.Sprintf("%s\nresource %s", detail, clip(c.Res, 600)))
	}
	if g.Panic != "" {
		fail("panic@"+g.Panic, clip(g.Stack, 1200))
		return
	}
	if e1 != nil {
		fail("ExtractAll fails", e1.Error())
		return
	}
	if !viaAny {
		// every element exactly once (pointer identity)
		count := map[any]int{}
		for _, p := range plain {
			count[any(p)]++
		}
		for _, w := range want {
			if count[any(w)] != 1 {
				fail(fmt.Sprintf("ExtractAll returns an element %d times", count[any(w)]), fmt.Sprintf("%v", w))
				return
			}
		}
		if len(plain) != len(want) {
			fail("ExtractAll returns elements that are not of the type / not in the resource", fmt.Sprintf("%d returned, %d present", len(plain), len(want)))
			return
		}
	} else if len(plain) != len(want)+wantInAny {
		fail("ExtractAll does not return every element once (elements inside contained resources included)", fmt.Sprintf("%d returned, %d present outside + %d inside Any-packed contained resources", len(plain), len(want), wantInAny))
		return
	}
	// labelled extraction
	if hasCR || viaAny {
		if e2 == nil {
			ctx.Count("labelled_extraction_over_contained_resources_succeeded")
		} else if !errors.Is(e2, element.ErrFhirPathNotImplemented) {
			fail("ExtractAllWithPath over embedded ContainedResources fails with an undocumented error", e2.Error())
		}
		return
	}
	if e2 != nil {
		fail("ExtractAllWithPath fails", e2.Error())
		return
	}
	if len(labelled) != len(want) {
		fail("ExtractAllWithPath returns another number of elements", fmt.Sprintf("%d vs %d", len(labelled), len(want)))
		return
	}
	root, _, err := buildTree(res)
	if err != nil {
		ctx.Count("marshal_errors")
		return
	}
	byMsg := map[any]*Node{}
	root.walk(func(n *Node) {
		if n.Msg != nil {
			byMsg[any(n.Msg)] = n
		}
	})
	byMsg[any(res)] = root
	for _, lp := range labelled {
		n, ok := byMsg[any(lp.el)]
		if !ok {
			// strings inside a Reference (uri / fragment / display …) and ReferenceId parts are not separate JSON nodes
			ctx.Count("labelled_element_without_own_json_node")
			continue
		}
		wantPath, choice := jsonPathOf(root, n)
		if lp.path != wantPath {
			fail("label does not locate the element in the JSON tree", fmt.Sprintf("label %q, JSON path %q", lp.path, wantPath))
			return
		}
		if choice || strings.Contains(lp.path, ".div") {
			continue
		}
		out := evalWith(lp.path, []fhir.Resource{res}, nil)
		if out.failed() || len(out.Coll) != 1 || any(out.Coll[0]) != any(lp.el) {
			fail("label does not evaluate (as FHIRPath) to exactly the element", fmt.Sprintf("label %q → %s", lp.path, out))
			return
		}
	}
}

func TestC20(t *testing.T) {
	r := newRec("C20",
		"exhaustive stages: every resource type of the ContainedResource oneof (146, cross-checked against the repository's registry in both directions): NewFromString / TypeOf / Type.New / Wrap→Unwrap identity and oneof member / New{Collection,Post,Put}Entry→UnwrapEntry identity; every member of Extension.value[x] (from the descriptor): FromElement→Unwrap identity, url kept, right member; ten types outside the oneof must be rejected with ErrInvalidValueX.  generated stages: bundles of 0..5 mixed resources, entries with and without a resource and with the other members of Bundle.entry (fullUrl, response incl. outcome, search, link) filled in (Unwrap order and identity); extension lists of 0..6 over three URLs on Patient/Observation/HumanName/String × {Upsert, SetByURL, AppendInto, Overwrite, Clear} against a list model (others keep identity and relative order); ExtractAll / ExtractAllWithPath for T ∈ {Reference, Identifier, Coding, Extension, String, DateTime} (half of the cases) and 15 further primitive and complex types whose zero value is a legitimate element (Boolean false, Integer 0 …) on generated resources against an independent descriptor walk (every element exactly once), the label against the element's path in the google/fhir JSON tree and, without choice steps, against FHIRPath evaluation.  non-trivial = every type is distinct (exhaustive), ≥ 2 extensions with the target URL and ≥ 1 other (mutators), ≥ 2 elements of the type (extraction), ≥ 2 entries (bundles); distinct = FNV-64 of the case",
		"resources that embed ContainedResource (Bundle, Parameters, contained) are used for ExtractAll only; ExtractAllWithPath must refuse them with ErrFhirPathNotImplemented")
	runProperty(t, r,
		Stage[c20TypeCase]{Name: "resource-types", Enum: c20EnumTypes, Run: c20RunType},
		Stage[c20ValueCase]{Name: "extension-values", Enum: c20EnumValues, Run: c20RunValue},
		Stage[c20BundleCase]{Name: "bundles", Gen: c20GenBundle, Run: c20RunBundle, N: pick(3000, 20000)},
		Stage[c20MutCase]{Name: "extension-mutators", Gen: c20GenMut, Run: c20RunMut, N: pick(15000, 120000)},
		Stage[c20ExtractCase]{Name: "extraction", Gen: c20GenExtract, Run: c20RunExtract, N: pick(4500, 40000)},
	)
}
