package zzverif

// C15 — literals and value representations round-trip losslessly.
// Five round-trip families (see DESIGN.md §3 C15).

import (
	"fmt"
	"math/big"
	"strconv"
	"strings"
	"testing"
	"time"
	"unicode/utf16"
	"unicode/utf8"

	dtpb "github.com/google/fhir/go/proto/google/fhir/proto/r4/core/datatypes_go_proto"
	opb "github.com/google/fhir/go/proto/google/fhir/proto/r4/core/resources/observation_go_proto"
	ppb "github.com/google/fhir/go/proto/google/fhir/proto/r4/core/resources/patient_go_proto"
	"github.com/verily-src/fhirpath-go/fhirpath/system"
	"github.com/verily-src/fhirpath-go/internal/fhir"
	"github.com/verily-src/fhirpath-go/internal/fhirconv"
	"github.com/verily-src/fhirpath-go/internal/narrow"
	"golang.org/x/exp/constraints"
	"google.golang.org/protobuf/proto"
)

// ---------------------------------------------------------------------------
// 1. string literal escapes

type c15StrCase struct {
	S   string `json:"s"`   // the denoted string
	Lit string `json:"lit"` // the literal text (with quotes)
	// a near twin compiled right afterwards: the same literal with one raw white-space run
	// lengthened or replaced by another white-space character
	TwinS   string `json:"twin_s,omitempty"`
	TwinLit string `json:"twin_lit,omitempty"`
}

var c15StrAlphabet = []string{"a", "Z", "0", " ", "'", "\"", "`", "\\", "/", "\f", "\n", "\r", "\t", "é", "€", "日", "😀", "u", "n", "u00e9", "́", " ", "%", "@"}

func c15GenStr(s Src) c15StrCase {
	if s.Prob(12) {
		words := []string{"a", "Jane", "Z0", "é", "日", "x%"}
		w1, w2 := pickOne(s, words), pickOne(s, words)
		ws := pickOne(s, []string{" ", "  ", "\t", "\n", "\u00a0", " \t"})
		ws2 := pickOne(s, []string{ws + ws, ws + " ", " " + ws, "\t", "\n", " ", "\u00a0"})
		if ws2 == ws {
			ws2 = ws + ws
		}
		return c15StrCase{S: w1 + ws + w2, Lit: "'" + w1 + ws + w2 + "'", TwinS: w1 + ws2 + w2, TwinLit: "'" + w1 + ws2 + w2 + "'"}
	}
	n := s.Range(0, 10)
	var raw, lit strings.Builder
	lit.WriteByte('\'')
	for i := 0; i < n; i++ {
		ch := pickOne(s, c15StrAlphabet)
		raw.WriteString(ch)
		for _, r := range ch {
			switch {
			case r == '\'':
				lit.WriteString(`\'`)
			case r == '\\':
				lit.WriteString(`\\`)
			case r == '"':
				lit.WriteString(pickOne(s, []string{`"`, `\"`}))
			case r == '`':
				lit.WriteString(pickOne(s, []string{"`", "\\`"}))
			case r == '/':
				lit.WriteString(pickOne(s, []string{"/", `\/`}))
			case r == '\f':
				lit.WriteString(pickOne(s, []string{`\f`, `\u000c`, "\f"}))
			case r == '\n':
				lit.WriteString(pickOne(s, []string{`\n`, `\u000a`, "\n"}))
			case r == '\r':
				lit.WriteString(pickOne(s, []string{`\r`, `\u000D`}))
			case r == '\t':
				lit.WriteString(pickOne(s, []string{`\t`, `\u0009`, "\t"}))
			default:
				if s.Prob(30) {
					if r > 0xffff {
						hi, lo := utf16.EncodeRune(r)
						fmt.Fprintf(&lit, `\u%04X\u%04x`, hi, lo)
					} else {
						fmt.Fprintf(&lit, pickOne(s, []string{`\u%04x`, `\u%04X`}), r)
					}
				} else {
					lit.WriteRune(r)
				}
			}
		}
	}
	lit.WriteByte('\'')
	return c15StrCase{S: raw.String(), Lit: lit.String()}
}

func c15RunStr(ctx *Ctx, c c15StrCase) {
	out := evalWith(c.Lit, nil, nil)
	esc := strings.Contains(c.Lit, `\`)
	ctx.Eval(c.Lit, esc, "family:string-escapes")
	if out.Panic != "" {
		ctx.Fail("escapes: panic@"+out.Panic, c.Lit)
		return
	}
	if out.failed() || len(out.Coll) != 1 {
		ctx.Fail("escapes: valid string literal rejected: "+out.kind(), fmt.Sprintf("%s → %s", c.Lit, out))
		return
	}
	got, ok := out.Coll[0].(system.String)
	if !ok || string(got) != c.S {
		which := "other"
		switch {
		case strings.Contains(c.Lit, `\u`) || strings.Contains(c.Lit, `\U`):
			which = `\uXXXX`
		case strings.Contains(c.Lit, `\"`):
			which = `\"`
		case strings.Contains(c.Lit, `\/`):
			which = `\/`
		case strings.Contains(c.Lit, "\\`"):
			which = "\\`"
		}
		ctx.Fail("escapes: literal does not evaluate to the string it denotes (escape "+which+")", fmt.Sprintf("%s → %q, want %q", c.Lit, got, c.S))
		return
	}
	if c.TwinLit != "" {
		// white space inside a literal is significant: a near twin compiled next evaluates to itself
		t := evalWith(c.TwinLit, nil, nil)
		if t.failed() || len(t.Coll) != 1 || renderItem(t.Coll[0]) != renderItem(system.String(c.TwinS)) {
			ctx.Fail("escapes: a literal that differs from an earlier one only in white space inside the quotes does not evaluate to its own string", fmt.Sprintf("after %q: %q → %s, want %q", c.Lit, c.TwinLit, t, c.TwinS))
		}
	}
}

// ---------------------------------------------------------------------------
// 2. temporal / numeric / quantity literals

type c15LitCase struct {
	Kind string `json:"kind"` // Date DateTime Time Integer Decimal Quantity Boolean
	Text string `json:"text"` // literal text without @ / @T
	Unit string `json:"unit,omitempty"`
}

func c15EnumLits(yield func(c15LitCase)) {
	for _, d := range []string{"2020", "2020-02", "2020-02-29", "0001-01-01", "9999-12-31", "1999-12"} {
		yield(c15LitCase{Kind: "Date", Text: d})
	}
	for _, d := range []string{"2020", "2020-02", "2020-02-29", "0001-01-01", "9999-12-31"} {
		yield(c15LitCase{Kind: "DateTime", Text: d + "T"})
		if len(d) < 10 {
			continue
		}
		for _, t := range []string{"10", "10:30", "10:30:00", "23:59:59", "10:30:00.5", "10:30:00.50", "10:30:00.500", "10:30:00.5000", "10:30:00.12345", "10:30:00.123456", "00:00:00.001", "10:30:00.0"} {
			for _, o := range []string{"", "Z", "+05:30", "-11:00", "+14:00", "+00:00", "-00:30", "-03:30", "-09:45"} {
				yield(c15LitCase{Kind: "DateTime", Text: d + "T" + t + o})
			}
		}
	}
	for _, t := range []string{"10", "10:30", "10:30:00", "23:59:59", "00:00:00", "10:30:00.5", "10:30:00.50", "10:30:00.500", "10:30:00.5000", "10:30:00.12345", "10:30:00.123456", "00:00:00.001", "10:30:00.0", "23:59:59.999"} {
		yield(c15LitCase{Kind: "Time", Text: t})
	}
	for _, n := range []string{"0", "1", "42", "007", "2147483647", "00000000000000000000012"} {
		yield(c15LitCase{Kind: "Integer", Text: n})
	}
	for _, n := range []string{"0.0", "1.0", "1.50", "001.500", "0.000000000000000000000000000001", "123456789012345678901234567890.123456789", "3.14159", "10.0", "0.10"} {
		yield(c15LitCase{Kind: "Decimal", Text: n})
	}
	for _, u := range []string{"year", "years", "month", "months", "week", "weeks", "day", "days", "hour", "hours", "minute", "minutes", "second", "seconds", "millisecond", "milliseconds", "'mg'", "'kg/m2'", "'1'", "'mm[Hg]'"} {
		for _, n := range []string{"1", "1.5", "0", "100.00"} {
			yield(c15LitCase{Kind: "Quantity", Text: n, Unit: u})
		}
	}
	yield(c15LitCase{Kind: "Boolean", Text: "true"})
	yield(c15LitCase{Kind: "Boolean", Text: "false"})
}

func c15GenLit(s Src) c15LitCase {
	d2 := func(lo, hi int) string { return fmt.Sprintf("%02d", s.Range(lo, hi)) }
	date := func(prec int) string {
		y := fmt.Sprintf("%04d", pickOne(s, []int{1, 999, 1970, 2000, 2020, 2024, 9999, s.Range(1, 9999)}))
		switch prec {
		case 0:
			return y
		case 1:
			return y + "-" + d2(1, 12)
		}
		return y + "-" + d2(1, 12) + "-" + d2(1, 28)
	}
	tm := func(prec int) string {
		t := d2(0, 23)
		if prec >= 1 {
			t += ":" + d2(0, 59)
		}
		if prec >= 2 {
			t += ":" + d2(0, 59)
		}
		if prec >= 3 {
			t += "." + s.Str(digits, 1, 6)
		}
		return t
	}
	switch s.Intn(6) {
	case 0:
		return c15LitCase{Kind: "Date", Text: date(s.Intn(3))}
	case 1:
		p := s.Intn(7)
		if p < 3 {
			return c15LitCase{Kind: "DateTime", Text: date(p) + "T"}
		}
		off := pickOne(s, []string{"", "Z", "+05:30", "-11:00", "+14:00", "-03:00", "+00:00", genOffset(s), genOffset(s)})
		return c15LitCase{Kind: "DateTime", Text: date(2) + "T" + tm(p-3) + off}
	case 2:
		return c15LitCase{Kind: "Time", Text: tm(s.Intn(4))}
	case 3:
		n := strings.TrimLeft(s.Str(digits, 1, 9), "0")
		if n == "" {
			n = "0"
		}
		if s.Prob(20) {
			n = "00" + n
		}
		return c15LitCase{Kind: "Integer", Text: n}
	case 4:
		return c15LitCase{Kind: "Decimal", Text: s.Str(digits, 1, 20) + "." + s.Str(digits, 1, 30)}
	}
	return c15LitCase{Kind: "Quantity", Text: s.Str(digits, 1, 6) + pickOne(s, []string{"", ".5", ".250"}), Unit: pickOne(s, []string{"days", "'mg'", "year", "'ug/mL'", "seconds", "millisecond"})}
}

func c15RunLit(ctx *Ctx, c c15LitCase) {
	var src string
	switch c.Kind {
	case "Date", "DateTime":
		src = "@" + c.Text
	case "Time":
		src = "@T" + c.Text
	case "Quantity":
		src = c.Text + " " + c.Unit
	default:
		src = c.Text
	}
	out := evalWith(src, nil, nil)
	special := strings.ContainsAny(c.Text, ".+-Z:") || len(c.Text) > 15 || c.Kind == "Quantity"
	ctx.Eval(src, special, "family:literals", "literal:"+c.Kind)
	fail := func(what, detail string) {
		ctx.Fail("literal "+c.Kind+": "+what, fmt.Sprintf("%s → %s; %s", src, out, detail))
	}
	if out.Panic != "" {
		fail("panic@"+out.Panic, "")
		return
	}
	if out.failed() || len(out.Coll) != 1 {
		fail("valid literal rejected: "+out.kind(), "")
		return
	}
	x := out.Coll[0]
	if c13GoType15(x) != c.Kind {
		fail("literal has type "+c13GoType15(x), "")
		return
	}
	str := fmt.Sprint(x)
	switch v := x.(type) {
	case system.Integer:
		want, _ := new(big.Int).SetString(c.Text, 10)
		if big.NewInt(int64(v)).Cmp(want) != 0 {
			fail("wrong value", "want "+want.String())
		}
		return
	case system.Decimal:
		if ratOf(v.String()).Cmp(ratOf(c.Text)) != 0 {
			fail("wrong value", "want "+c.Text)
			return
		}
		rp, err := system.ParseDecimal(v.String())
		if err != nil || !rp.Equal(v) {
			fail("canonical string does not re-parse to an equal value", v.String())
		}
		return
	case system.Boolean:
		if fmt.Sprint(bool(v)) != c.Text {
			fail("wrong value", "")
		}
		return
	case system.Quantity:
		unit := strings.Trim(c.Unit, "'")
		want := c.Text + " " + unit
		wq, err := system.ParseQuantity(c.Text, unit)
		if err != nil || !v.Equal(wq) {
			fail("wrong value", "want "+want)
		}
		return
	case system.Date:
		str = v.String()
	case system.DateTime:
		str = v.String()
	case system.Time:
		str = v.String()
	}
	// temporal: the literal denotes (instant, precision, offset); fractions beyond ms are outside the type
	isTime := c.Kind == "Time"
	want, err := parseAnyTemporal(c.Text, isTime)
	if err != nil {
		ctx.Fail("harness: cannot parse own literal", c.Text)
		return
	}
	got, err := parseAnyTemporal(str, isTime)
	if err != nil {
		fail("canonical string is not a temporal text", str)
		return
	}
	wantPrec, gotPrec := want.prec, got.prec
	if wantPrec > 6 {
		wantPrec = 6
	}
	if gotPrec > 6 {
		gotPrec = 6
	}
	// seconds and fractions are one precision (a fraction may be printed or not)
	if wantPrec >= 5 && gotPrec >= 5 {
		wantPrec, gotPrec = 5, 5
	}
	if wantPrec != gotPrec {
		fail(fmt.Sprintf("precision changed (%s → %s)", precName(want), precName(got)), str)
		return
	}
	if want.hasOff != got.hasOff || (want.hasOff && want.off != got.off) {
		fail("offset changed", str)
		return
	}
	if want.goTime().UnixMilli() != got.goTime().UnixMilli() {
		fail("canonical string denotes another instant (to the millisecond)", fmt.Sprintf("%s vs literal %s", str, c.Text))
		return
	}
	// what the string drops must not stay hidden: x = Parse(x.String()) by the library's own `=`
	var rp any
	switch c.Kind {
	case "Date":
		rp, err = system.ParseDate(str)
	case "DateTime":
		rp, err = system.ParseDateTime(str)
	case "Time":
		rp, err = system.ParseTime(str)
	}
	if err != nil {
		fail("canonical string does not re-parse", str+": "+err.Error())
		return
	}
	eq := evalWith("%a = %b", nil, map[string]any{"a": x, "b": rp})
	if renderColl(eq.Coll) != "[Boolean:true]" {
		fail("value differs from its re-parsed canonical string (hidden state)", fmt.Sprintf("%s: x = parse(x.String()) → %s", str, eq))
	}
}

// ---------------------------------------------------------------------------
// 3. System ↔ FHIR primitive

type c15ProtoCase struct {
	V Val `json:"v"` // a System value
}

func c15EnumProto(yield func(c15ProtoCase)) {
	for _, g := range [][]Val{poolInts, poolDecs, poolDates, poolDateTimes, poolTimes, poolQtys} {
		for _, v := range g {
			yield(c15ProtoCase{V: v})
		}
	}
	for _, v := range []Val{dtV("2020-02-29T10:30:00.123+05:30"), dtV("2020-02-29T23:59:59-11:00"), timeV("23:59:59.999"), dv("0.1"), dv("1234567890.123456789"), dv("0.30000000000000004"), dv("100"), dv("1e2")} {
		if _, err := v.build(); err == nil {
			yield(c15ProtoCase{V: v})
		}
	}
}

func c15RunProto(ctx *Ctx, c c15ProtoCase) {
	x := c.V.mustBuild()
	ctx.Eval(c.V.String(), true, "family:system-proto", "proto:"+c.V.K)
	fail := func(what, detail string) {
		ctx.Fail("system↔proto "+c.V.K+": "+what, fmt.Sprintf("%v: %s", c.V, detail))
	}
	var back system.Any
	var err error
	var protoText string
	g := guard(func() {
		switch v := x.(type) {
		case system.Integer:
			p := v.ToProtoInteger()
			protoText = fmt.Sprint(p)
			back, err = system.From(p)
		case system.Decimal:
			p := v.ToProtoDecimal()
			protoText = fmt.Sprint(p)
			back, err = system.From(p)
		case system.Date:
			p := v.ToProtoDate()
			protoText = fmt.Sprint(p)
			back, err = system.DateFromProto(p)
		case system.DateTime:
			p := v.ToProtoDateTime()
			protoText = fmt.Sprint(p)
			back, err = system.DateTimeFromProto(p)
		case system.Time:
			p := v.ToProtoTime()
			protoText = fmt.Sprint(p)
			back = system.TimeFromProto(p)
		case system.Quantity:
			p := v.ToProtoQuantity()
			protoText = fmt.Sprint(p)
			back, err = system.From(p)
		}
	})
	if g.Panic != "" {
		fail("panic@"+g.Panic, g.Stack)
		return
	}
	if err != nil {
		// precisions the proto lacks must fail loudly: acceptable
		ctx.Count("proto_round_trip_refused")
		return
	}
	// the proto cannot represent minute/hour precision or offset-less values: accept a refusal, never a silent change
	switch c.V.K {
	case "Integer":
		if renderItem(back) != renderItem(x) {
			fail("value changed", renderItem(back))
		}
	case "Decimal":
		b, ok := back.(system.Decimal)
		if !ok || ratOf(b.String()).Cmp(ratOf(c.V.S)) != 0 {
			tag := ""
			if ok {
				if f, _ := ratOf(c.V.S).Float64(); ratOf(b.String()).Cmp(ratOf(strconv.FormatFloat(f, 'f', -1, 64))) == 0 {
					tag = " (=float64 round trip)"
				}
			}
			fail("value changed"+tag, fmt.Sprintf("proto %s → %s", protoText, renderItem(back)))
		}
	case "Quantity":
		b, ok := back.(system.Quantity)
		xq := x.(system.Quantity)
		if !ok {
			fail("not a Quantity", renderItem(back))
			return
		}
		if !b.Equal(xq) {
			bs, xs := strings.SplitN(b.String(), " ", 2), strings.SplitN(xq.String(), " ", 2)
			tag := " (value)"
			if ratOf(bs[0]).Cmp(ratOf(xs[0])) == 0 {
				tag = " (unit lost: ToProtoQuantity sets `unit`, From reads `code`)"
			}
			fail("value changed"+tag, fmt.Sprintf("proto %s → %s", protoText, renderItem(back)))
		}
	default:
		isTime := c.V.K == "Time"
		want, _ := parseAnyTemporal(c.V.S, isTime)
		if want.prec == 3 || want.prec == 4 {
			// hour and minute precision do not exist in the FHIR primitives: the statement
			// claims preservation only "wherever the element can represent them"
			ctx.Count("hour_or_minute_precision_not_representable(not asserted)")
			return
		}
		got, perr := parseAnyTemporal(fmt.Sprint(back), isTime)
		if perr != nil {
			fail("unparsable result", fmt.Sprint(back))
			return
		}
		wp, gp := want.prec, got.prec
		if wp >= 5 && gp >= 5 {
			wp, gp = 5, 5
		}
		if wp != gp {
			fail(fmt.Sprintf("precision changed silently (%s → %s)", precName(want), precName(got)), fmt.Sprintf("proto %s → %s", protoText, back))
			return
		}
		if want.goTime().UnixMilli() != got.goTime().UnixMilli() {
			fail("instant changed", fmt.Sprintf("proto %s → %s", protoText, back))
			return
		}
		if want.hasOff && (!got.hasOff || got.off != want.off) {
			fail("offset changed", fmt.Sprintf("proto %s → %s", protoText, back))
		}
	}
}

// ---------------------------------------------------------------------------
// 4. repository FHIR helpers: parse ∘ format = identity; agreement with google/fhir JSON

type c15HelperCase struct {
	Kind string `json:"kind"` // date dateTime instant time
	Text string `json:"text"` // FHIR text
}

func c15GenHelper(s Src) c15HelperCase {
	d2 := func(lo, hi int) string { return fmt.Sprintf("%02d", s.Range(lo, hi)) }
	y := fmt.Sprintf("%04d", pickOne(s, []int{1, 1970, 1999, 2000, 2020, 2024, 9999, s.Range(1, 9999)}))
	full := y + "-" + d2(1, 12) + "-" + d2(1, 28)
	hms := d2(0, 23) + ":" + d2(0, 59) + ":" + d2(0, 59)
	frac := pickOne(s, []string{"", "", "." + s.Str(digits, 3, 3), "." + s.Str(digits, 6, 6)})
	off := pickOne(s, []string{"Z", "+05:30", "-11:00", "+14:00", "-03:00", "+00:00", "+01:00", genOffset(s), genOffset(s), genOffset(s)})
	switch s.Intn(4) {
	case 0:
		return c15HelperCase{"date", pickOne(s, []string{y, y + "-" + d2(1, 12), full})}
	case 1:
		return c15HelperCase{"dateTime", pickOne(s, []string{y, y + "-" + d2(1, 12), full, full + "T" + hms + frac + off, full + "T" + hms + frac + off})}
	case 2:
		return c15HelperCase{"instant", full + "T" + hms + frac + off}
	}
	return c15HelperCase{"time", hms + frac}
}

func c15RunHelper(ctx *Ctx, c c15HelperCase) {
	ctx.Eval(c.Kind+"|"+c.Text, len(c.Text) > 10 || c.Kind == "time", "family:fhir-helpers", "helper:"+c.Kind)
	fail := func(what, detail string) {
		ctx.Fail("fhir helpers "+c.Kind+": "+what, fmt.Sprintf("%q: %s", c.Text, detail))
	}
	var formatted, formatted2 string
	var elem proto.Message
	var err error
	g := guard(func() {
		switch c.Kind {
		case "date":
			var e *dtpb.Date
			if e, err = fhir.ParseDate(c.Text); err == nil {
				elem, formatted = e, fhirconv.DateToString(e)
				if e2, err2 := fhir.ParseDate(formatted); err2 == nil {
					formatted2 = fhirconv.DateToString(e2)
					if !proto.Equal(e, e2) {
						formatted2 = "≠" + formatted2
					}
				} else {
					formatted2 = "error: " + err2.Error()
				}
			}
		case "dateTime":
			var e *dtpb.DateTime
			if e, err = fhir.ParseDateTime(c.Text); err == nil {
				elem, formatted = e, fhirconv.DateTimeToString(e)
				if e2, err2 := fhir.ParseDateTime(formatted); err2 == nil {
					formatted2 = fhirconv.DateTimeToString(e2)
					if !proto.Equal(e, e2) {
						formatted2 = "≠" + formatted2
					}
				} else {
					formatted2 = "error: " + err2.Error()
				}
			}
		case "instant":
			var e *dtpb.Instant
			if e, err = fhir.ParseInstant(c.Text); err == nil {
				elem, formatted = e, fhirconv.InstantToString(e)
				if e2, err2 := fhir.ParseInstant(formatted); err2 == nil {
					formatted2 = fhirconv.InstantToString(e2)
					if !proto.Equal(e, e2) {
						formatted2 = "≠" + formatted2
					}
				} else {
					formatted2 = "error: " + err2.Error()
				}
			}
		case "time":
			var e *dtpb.Time
			if e, err = fhir.ParseTime(c.Text); err == nil {
				elem, formatted = e, fhirconv.TimeToString(e)
				if e2, err2 := fhir.ParseTime(formatted); err2 == nil {
					formatted2 = fhirconv.TimeToString(e2)
					if !proto.Equal(e, e2) {
						formatted2 = "≠" + formatted2
					}
				} else {
					formatted2 = "error: " + err2.Error()
				}
			}
		}
	})
	if g.Panic != "" {
		fail("panic@"+g.Panic, g.Stack)
		return
	}
	if err != nil {
		fail("valid FHIR text rejected by Parse", err.Error())
		return
	}
	// format(parse(text)) denotes the same (instant, precision, offset) as text
	if ok, why := temporalEqual(c.Text, formatted, c.Kind == "time"); !ok {
		fail("format(parse(text)) differs from text: "+why, formatted)
		return
	}
	if pt, _ := parseAnyTemporal(c.Text, c.Kind == "time"); len(pt.frac) > 3 {
		// microseconds must survive in the helpers (the protos carry them)
		pf, _ := parseAnyTemporal(formatted, c.Kind == "time")
		if pf.nanos() != pt.nanos() {
			fail("microseconds lost", formatted)
			return
		}
	}
	// parse(format(e)) = e  (parse after format is the identity)
	if formatted2 != formatted {
		fail("parse after format is not the identity", fmt.Sprintf("format=%q, re-parsed and re-formatted=%q", formatted, formatted2))
		return
	}
	// agreement with the google/fhir JSON rendering of the same element in a carrier resource
	var res proto.Message
	var key string
	switch e := elem.(type) {
	case *dtpb.Date:
		res, key = &ppb.Patient{BirthDate: e}, "birthDate"
	case *dtpb.DateTime:
		res, key = &opb.Observation{Effective: &opb.Observation_EffectiveX{Choice: &opb.Observation_EffectiveX_DateTime{DateTime: e}}}, "effectiveDateTime"
	case *dtpb.Instant:
		res, key = &opb.Observation{Issued: e}, "issued"
	case *dtpb.Time:
		res, key = &opb.Observation{Value: &opb.Observation_ValueX{Choice: &opb.Observation_ValueX_Time{Time: e}}}, "valueTime"
	}
	j, _, jerr := resJSON(res)
	if jerr != nil {
		ctx.Count("json_marshal_errors")
		return
	}
	js, _ := j[key].(string)
	if ok, why := temporalEqual(js, formatted, c.Kind == "time"); !ok {
		fail("fhirconv rendering disagrees with the google/fhir JSON rendering: "+why, fmt.Sprintf("json=%q fhirconv=%q", js, formatted))
	}
}

// ---------------------------------------------------------------------------
// 5. integer narrowing

type c15NarrowCase struct {
	From string `json:"from"`
	To   string `json:"to"`
}

var intRanges = map[string][2]string{
	"int8": {"-128", "127"}, "int16": {"-32768", "32767"}, "int32": {"-2147483648", "2147483647"}, "int64": {"-9223372036854775808", "9223372036854775807"}, "int": {"-9223372036854775808", "9223372036854775807"},
	"uint8": {"0", "255"}, "uint16": {"0", "65535"}, "uint32": {"0", "4294967295"}, "uint64": {"0", "18446744073709551615"}, "uint": {"0", "18446744073709551615"}, "uintptr": {"0", "18446744073709551615"},
}

func bigS(s string) *big.Int { v, _ := new(big.Int).SetString(s, 10); return v }

func c15EnumNarrow(yield func(c15NarrowCase)) {
	for _, f := range narrowFns {
		yield(c15NarrowCase{From: f.From, To: f.To})
	}
}

func c15RunNarrow(ctx *Ctx, c c15NarrowCase) {
	var fn *narrowFn
	for i := range narrowFns {
		if narrowFns[i].From == c.From && narrowFns[i].To == c.To {
			fn = &narrowFns[i]
		}
	}
	if fn == nil {
		ctx.Fail("harness: unknown narrowing pair", c.From+"→"+c.To)
		return
	}
	fr, tr := intRanges[c.From], intRanges[c.To]
	flo, fhi, tlo, thi := bigS(fr[0]), bigS(fr[1]), bigS(tr[0]), bigS(tr[1])
	var vals []*big.Int
	if size := new(big.Int).Sub(fhi, flo); size.Cmp(big.NewInt(70000)) < 0 {
		for v := new(big.Int).Set(flo); v.Cmp(fhi) <= 0; v = new(big.Int).Add(v, big.NewInt(1)) {
			vals = append(vals, v)
		}
	} else {
		seen := map[string]bool{}
		add := func(v *big.Int) {
			if v.Cmp(flo) >= 0 && v.Cmp(fhi) <= 0 && !seen[v.String()] {
				seen[v.String()] = true
				vals = append(vals, v)
			}
		}
		for k := 0; k <= 64; k++ {
			p := new(big.Int).Lsh(big.NewInt(1), uint(k))
			for d := int64(-2); d <= 2; d++ {
				add(new(big.Int).Add(p, big.NewInt(d)))
				add(new(big.Int).Neg(new(big.Int).Add(p, big.NewInt(d))))
			}
		}
		for _, r := range intRanges {
			for d := int64(-2); d <= 2; d++ {
				add(new(big.Int).Add(bigS(r[0]), big.NewInt(d)))
				add(new(big.Int).Add(bigS(r[1]), big.NewInt(d)))
			}
		}
	}
	bad := 0
	for _, v := range vals {
		got, ok := fn.call(v)
		fits := v.Cmp(tlo) >= 0 && v.Cmp(thi) <= 0
		if ok != fits || (ok && got.Cmp(v) != 0) {
			bad++
			if bad == 1 {
				ctx.Fail(fmt.Sprintf("narrow %s→%s: success ⇔ representable broken", c.From, c.To), fmt.Sprintf("value %s: ok=%v result=%s, representable=%v", v, ok, got, fits))
			}
		}
	}
	ctx.Eval(c.From+"→"+c.To, c.From != c.To, "family:narrowing")
	ctx.r.count("narrowing_values_checked", int64(len(vals)))
}

// fhirconv.ToInteger over FHIR integer elements
type c15FhirIntCase struct {
	Kind string `json:"kind"` // integer positiveInt unsignedInt
	V    string `json:"v"`
}

func c15EnumFhirInt(yield func(c15FhirIntCase)) {
	for _, v := range []string{"-2147483648", "-32769", "-32768", "-129", "-128", "-1", "0", "1", "127", "128", "255", "256", "32767", "32768", "65535", "65536", "2147483647"} {
		yield(c15FhirIntCase{"integer", v})
	}
	for _, v := range []string{"0", "1", "127", "128", "255", "256", "32767", "32768", "65535", "65536", "2147483647", "2147483648", "4294967295"} {
		yield(c15FhirIntCase{"unsignedInt", v})
		yield(c15FhirIntCase{"positiveInt", v})
	}
}

func c15RunFhirInt(ctx *Ctx, c c15FhirIntCase) {
	v := bigS(c.V)
	ctx.Eval(c.Kind+"|"+c.V, true, "family:fhirconv-integer")
	type res struct {
		to  string
		got *big.Int
		err error
	}
	var rs []res
	g := guard(func() {
		switch c.Kind {
		case "integer":
			e := &dtpb.Integer{Value: int32(v.Int64())}
			a, e1 := fhirconv.ToInteger[int8](e)
			b, e2 := fhirconv.ToInteger[int16](e)
			cc, e3 := fhirconv.ToInteger[int32](e)
			d, e4 := fhirconv.ToInteger[int64](e)
			u8, e5 := fhirconv.ToInteger[uint8](e)
			u16, e6 := fhirconv.ToInteger[uint16](e)
			u32, e7 := fhirconv.ToInteger[uint32](e)
			u64, e8 := fhirconv.ToInteger[uint64](e)
			rs = []res{{"int8", big.NewInt(int64(a)), e1}, {"int16", big.NewInt(int64(b)), e2}, {"int32", big.NewInt(int64(cc)), e3}, {"int64", big.NewInt(d), e4},
				{"uint8", big.NewInt(int64(u8)), e5}, {"uint16", big.NewInt(int64(u16)), e6}, {"uint32", big.NewInt(int64(u32)), e7}, {"uint64", new(big.Int).SetUint64(u64), e8}}
		case "unsignedInt":
			e := &dtpb.UnsignedInt{Value: uint32(v.Uint64())}
			a, e1 := fhirconv.ToInteger[int8](e)
			b, e2 := fhirconv.ToInteger[int16](e)
			cc, e3 := fhirconv.ToInteger[int32](e)
			d, e4 := fhirconv.ToInteger[int64](e)
			u8, e5 := fhirconv.ToInteger[uint8](e)
			u16, e6 := fhirconv.ToInteger[uint16](e)
			u32, e7 := fhirconv.ToInteger[uint32](e)
			u64, e8 := fhirconv.ToInteger[uint64](e)
			rs = []res{{"int8", big.NewInt(int64(a)), e1}, {"int16", big.NewInt(int64(b)), e2}, {"int32", big.NewInt(int64(cc)), e3}, {"int64", big.NewInt(d), e4},
				{"uint8", big.NewInt(int64(u8)), e5}, {"uint16", big.NewInt(int64(u16)), e6}, {"uint32", big.NewInt(int64(u32)), e7}, {"uint64", new(big.Int).SetUint64(u64), e8}}
		case "positiveInt":
			e := &dtpb.PositiveInt{Value: uint32(v.Uint64())}
			a, e1 := fhirconv.ToInteger[int8](e)
			b, e2 := fhirconv.ToInteger[int16](e)
			cc, e3 := fhirconv.ToInteger[int32](e)
			d, e4 := fhirconv.ToInteger[int64](e)
			u8, e5 := fhirconv.ToInteger[uint8](e)
			u16, e6 := fhirconv.ToInteger[uint16](e)
			u32, e7 := fhirconv.ToInteger[uint32](e)
			u64, e8 := fhirconv.ToInteger[uint64](e)
			rs = []res{{"int8", big.NewInt(int64(a)), e1}, {"int16", big.NewInt(int64(b)), e2}, {"int32", big.NewInt(int64(cc)), e3}, {"int64", big.NewInt(d), e4},
				{"uint8", big.NewInt(int64(u8)), e5}, {"uint16", big.NewInt(int64(u16)), e6}, {"uint32", big.NewInt(int64(u32)), e7}, {"uint64", new(big.Int).SetUint64(u64), e8}}
		}
	})
	if g.Panic != "" {
		ctx.Fail("fhirconv.ToInteger panics", g.Panic)
		return
	}
	for _, r := range rs {
		tr := intRanges[r.to]
		fits := v.Cmp(bigS(tr[0])) >= 0 && v.Cmp(bigS(tr[1])) <= 0
		if (r.err == nil) != fits || (fits && r.got.Cmp(v) != 0) {
			ctx.Fail(fmt.Sprintf("fhirconv.ToInteger %s→%s: success ⇔ representable broken", c.Kind, r.to), fmt.Sprintf("value %s: err=%v result=%s representable=%v", c.V, r.err, r.got, fits))
			return
		}
	}
}

// --- FHIR numeric elements → System values ("wherever the element can represent them") ---

type c15ElemCase struct {
	Kind string `json:"kind"` // integer unsignedInt positiveInt decimal
	Text string `json:"text"`
}

func c15GenElem(s Src) c15ElemCase {
	switch s.Intn(4) {
	case 0:
		return c15ElemCase{"integer", strconv.FormatInt(int64(pickOne(s, []int32{0, 1, -1, 2147483647, -2147483648, 2147483646, s.Int32()})), 10)}
	case 1, 2:
		u := pickOne(s, []uint32{0, 1, 2147483646, 2147483647, 2147483648, 2147483649, 4294967295, uint32(s.Int32()), uint32(s.Int32()) >> 1})
		k := "unsignedInt"
		if s.Bool() && u > 0 {
			k = "positiveInt"
		}
		return c15ElemCase{k, strconv.FormatUint(uint64(u), 10)}
	}
	return c15ElemCase{"decimal", pickOne(s, []string{"0", "1", "-1.50", "0.10", "100", "1234567890.123456789", "-0.000001", strconv.Itoa(s.Range(-999, 999)) + "." + s.Str(digits, 1, 12)})}
}

func c15RunElem(ctx *Ctx, c c15ElemCase) {
	var el fhir.Base
	n, _ := new(big.Int).SetString(c.Text, 10)
	switch c.Kind {
	case "integer":
		el = &dtpb.Integer{Value: int32(n.Int64())}
	case "unsignedInt":
		el = &dtpb.UnsignedInt{Value: uint32(n.Uint64())}
	case "positiveInt":
		el = &dtpb.PositiveInt{Value: uint32(n.Uint64())}
	default:
		el = &dtpb.Decimal{Value: c.Text}
	}
	fits := c.Kind == "decimal" || (n.Cmp(big.NewInt(2147483647)) <= 0 && n.Cmp(big.NewInt(-2147483648)) >= 0)
	ctx.Eval(c.Kind+"|"+c.Text, true, "family:element-to-system", "elem:"+c.Kind, fmt.Sprintf("representable:%v", fits))
	var got system.Any
	var err error
	g := guard(func() { got, err = system.From(el) })
	desc := fmt.Sprintf("system.From(%s %s) → %v, %v", c.Kind, c.Text, got, err)
	if g.Panic != "" {
		ctx.Fail("element→system "+c.Kind+": panic "+g.Panic, desc)
		return
	}
	if !fits {
		if err == nil {
			ctx.Fail("element→system "+c.Kind+": a value outside the Integer range is converted instead of refused", desc)
		}
		return
	}
	if err != nil {
		ctx.Fail("element→system "+c.Kind+": a representable value is refused", desc)
		return
	}
	want := "Integer:" + c.Text
	if c.Kind == "decimal" {
		want = "Decimal:" + ratOf(c.Text).FloatString(30)
		if d, ok := got.(system.Decimal); ok {
			if ratOf(d.String()).Cmp(ratOf(c.Text)) != 0 {
				ctx.Fail("element→system decimal: value changed", desc)
			}
			return
		}
		ctx.Fail("element→system decimal: not a Decimal", desc)
		return
	}
	if renderItem(got) != want {
		ctx.Fail("element→system "+c.Kind+": value changed", desc+" want "+want)
	}
}


// --- temporal elements → System values ----------------------------------------------------

// A FHIR date / dateTime / instant / time element is (microseconds, time zone, precision).
// Cases draw the three independently: instants from a boundary set (the epoch itself, ±1 µs,
// ±1 s, day boundaries, years 1 and 9999) and at random over the whole range, every precision
// of the kind, any offset.  For date elements the instant is midnight of the day in the
// element's zone or - as the repository's own fhir.Date(t) helper stores it - any instant of
// that day.  Oracle: system.From gives a value of the kind whose components (read from its
// String()) are the calendar fields of the instant in the element's zone down to the
// precision, with the element's offset where a time is present; it equals (library `=`) the
// literal spelling those components, and toString()/toDateTime()/toDate() succeed on it.

type c15TempCase struct {
	Kind string `json:"kind"` // date dateTime instant time
	Us   int64  `json:"us"`
	Prec int    `json:"prec"` // 0 year 1 month 2 day 5 second 6 millisecond 7 microsecond
	Off  string `json:"off"`  // "Z", "+05:30", "UTC" …
}

var c15BoundaryUs = []int64{0, 1, -1, 999, 1000, -1000, 999999, 1000000, -1000000, 86400000000, -86400000000, 86399999999, 951782400000000, 1582934400000000,
	-62135596800000000, 253402300799000000, 253402214400000000, 4102444800000000, -2208988800000000}

func c15GenTemp(s Src) c15TempCase {
	c := c15TempCase{Kind: pickOne(s, []string{"date", "dateTime", "dateTime", "instant", "instant", "time"})}
	if s.Prob(45) {
		c.Us = pickOne(s, c15BoundaryUs)
	} else {
		// 0001-01-02 … 9999-12-30, whole seconds plus a drawn fraction
		c.Us = (-62135510400+int64(s.Intn(1<<30))*293+int64(s.Intn(293)))*1000000 + int64(pickOne(s, []int{0, 0, 500000, 250000, 123000, 123600, 999999, 1}))
	}
	c.Off = pickOne(s, []string{"Z", "Z", "UTC", "+00:00", genOffset(s), genOffset(s), genOffset(s)})
	switch c.Kind {
	case "date":
		c.Prec = s.Intn(3)
	case "dateTime":
		c.Prec = pickOne(s, []int{0, 1, 2, 5, 5, 6, 6, 7})
	case "instant":
		c.Prec = pickOne(s, []int{5, 6, 7})
	case "time":
		c.Prec = pickOne(s, []int{5, 6, 7})
		c.Us = ((c.Us % 86400000000) + 86400000000) % 86400000000
		c.Off = ""
	}
	// nothing below the element's precision (as google/fhir's parsers build elements) - except
	// for day-precision dates, which the repository's own fhir.Date(t) stores at any instant
	// of the day
	floor := func(us, unit int64) int64 { return us - ((us%unit)+unit)%unit }
	loc, _, _ := c15TempLoc(c.Off)
	g := time.UnixMicro(c.Us).In(loc)
	switch {
	case c.Prec == 5:
		c.Us = floor(c.Us, 1000000)
	case c.Prec == 6:
		c.Us = floor(c.Us, 1000)
	case c.Prec == 0:
		c.Us = time.Date(g.Year(), 1, 1, 0, 0, 0, 0, loc).UnixMicro()
	case c.Prec == 1:
		c.Us = time.Date(g.Year(), g.Month(), 1, 0, 0, 0, 0, loc).UnixMicro()
	case c.Prec == 2 && (c.Kind == "dateTime" || s.Prob(65)):
		c.Us = time.Date(g.Year(), g.Month(), g.Day(), 0, 0, 0, 0, loc).UnixMicro()
	}
	return c
}

func c15TempLoc(off string) (*time.Location, int, bool) {
	switch off {
	case "Z", "UTC", "+00:00", "":
		return time.UTC, 0, true
	}
	var t temporal
	if err := parseTemporalOffset(&t, off); err != nil {
		return nil, 0, false
	}
	return time.FixedZone(off, t.off*60), t.off, true
}

func c15RunTemp(ctx *Ctx, c c15TempCase) {
	loc, offMin, ok := c15TempLoc(c.Off)
	if !ok {
		ctx.Fail("harness: bad offset", c.Off)
		return
	}
	g := time.UnixMicro(c.Us).In(loc)
	if c.Kind != "time" && (g.Year() < 1 || g.Year() > 9999) {
		ctx.Count("temporal_element_outside_years_1_9999")
		return
	}
	var el fhir.Base
	sysKind := "DateTime"
	switch c.Kind {
	case "date":
		el, sysKind = &dtpb.Date{ValueUs: c.Us, Timezone: c.Off, Precision: []dtpb.Date_Precision{dtpb.Date_YEAR, dtpb.Date_MONTH, dtpb.Date_DAY}[c.Prec]}, "Date"
	case "dateTime":
		p := map[int]dtpb.DateTime_Precision{0: dtpb.DateTime_YEAR, 1: dtpb.DateTime_MONTH, 2: dtpb.DateTime_DAY, 5: dtpb.DateTime_SECOND, 6: dtpb.DateTime_MILLISECOND, 7: dtpb.DateTime_MICROSECOND}[c.Prec]
		el = &dtpb.DateTime{ValueUs: c.Us, Timezone: c.Off, Precision: p}
	case "instant":
		p := map[int]dtpb.Instant_Precision{5: dtpb.Instant_SECOND, 6: dtpb.Instant_MILLISECOND, 7: dtpb.Instant_MICROSECOND}[c.Prec]
		el = &dtpb.Instant{ValueUs: c.Us, Timezone: c.Off, Precision: p}
	case "time":
		p := map[int]dtpb.Time_Precision{5: dtpb.Time_SECOND, 6: dtpb.Time_MILLISECOND, 7: dtpb.Time_MICROSECOND}[c.Prec]
		el, sysKind = &dtpb.Time{ValueUs: c.Us, Precision: p}, "Time"
	}
	boundary := false
	for _, b := range c15BoundaryUs {
		boundary = boundary || b == c.Us
	}
	ctx.Eval(fmt.Sprint(c), true, "family:temporal-element-to-system", "elem:"+c.Kind, fmt.Sprintf("prec:%d", c.Prec), fmt.Sprintf("boundary-instant:%v", boundary), fmt.Sprintf("epoch:%v", c.Us == 0))
	var got system.Any
	var err error
	gd := guard(func() { got, err = system.From(el) })
	desc := fmt.Sprintf("system.From(%s{value_us:%d timezone:%q precision:%d}) → %v, %v", c.Kind, c.Us, c.Off, c.Prec, got, err)
	sig := "temporal element→system " + c.Kind + ": "
	if gd.Panic != "" {
		ctx.Fail(sig+"panic "+gd.Panic, desc)
		return
	}
	if err != nil {
		ctx.Fail(sig+"a valid element is refused", desc)
		return
	}
	if c13GoType15(got) != sysKind {
		ctx.Fail(sig+"result is not a "+sysKind, desc)
		return
	}
	isTime := c.Kind == "time"
	t, perr := parseAnyTemporal(fmt.Sprint(got), isTime)
	if perr != nil {
		ctx.Fail(sig+"unparsable String()", desc)
		return
	}
	wantPrec := c.Prec
	if wantPrec > 6 {
		wantPrec = 6
	}
	gotPrec := t.prec
	ms := g.Nanosecond() / 1000000
	same := true
	if !isTime {
		same = t.Y == g.Year() && (wantPrec < 1 || t.M == int(g.Month())) && (wantPrec < 2 || t.D == g.Day())
	}
	if wantPrec >= 5 {
		same = same && t.h == g.Hour() && t.m == g.Minute() && t.s == g.Second()
		// a fraction may be printed or not at second precision; at (milli/micro)second precision
		// the milliseconds are part of the value
		if wantPrec == 6 && (ms != 0 || t.prec == 6) {
			same = same && t.nanos()/1000000 == ms
		}
		if !isTime {
			same = same && t.hasOff && t.off == offMin
		}
	}
	if gotPrec >= 5 && wantPrec >= 5 {
		gotPrec = wantPrec // seconds and milliseconds are one precision
	}
	if gotPrec != wantPrec {
		ctx.Fail(sig+"precision changed", desc+fmt.Sprintf(" (precision %d, want %d)", gotPrec, wantPrec))
		return
	}
	if !same {
		ctx.Fail(sig+"value or offset changed", desc+" (calendar fields of the instant in the element's zone: "+g.Format("2006-01-02T15:04:05.000Z07:00")+")")
		return
	}
	// the value equals the literal spelling it, and converts
	lit := ""
	switch {
	case isTime:
		lit = "@T" + g.Format("15:04:05")
		if wantPrec == 6 {
			lit += fmt.Sprintf(".%03d", ms)
		}
	case wantPrec == 0:
		lit = "@" + g.Format("2006")
	case wantPrec == 1:
		lit = "@" + g.Format("2006-01")
	case wantPrec == 2:
		lit = "@" + g.Format("2006-01-02")
	default:
		lit = "@" + g.Format("2006-01-02T15:04:05")
		if wantPrec == 6 {
			lit += fmt.Sprintf(".%03d", ms)
		}
		lit += g.Format("Z07:00")
	}
	if sysKind == "DateTime" && wantPrec <= 2 {
		lit += "T"
	}
	if c.Prec == 7 && g.Nanosecond()%1000000 != 0 {
		ctx.Count("temporal_element_with_digits_below_its_precision(equality not asserted)")
		return
	}
	vars := map[string]any{"x": el}
	for _, src := range []string{"%x = " + lit, lit + " = %x", "%x.toString().exists()", "(%x != " + lit + ").not()"} {
		out := evalWith(src, nil, vars)
		if out.failed() || renderColl(out.Coll) != "[Boolean:true]" {
			ctx.Fail(sig+"the element does not behave as the value it holds: "+strings.ReplaceAll(strings.ReplaceAll(src, lit, "<literal of the value>"), "  ", " "), fmt.Sprintf("%s with %%x = %s{value_us:%d timezone:%q precision:%d} → %s", src, c.Kind, c.Us, c.Off, c.Prec, out))
			return
		}
	}
	conv := map[string]string{"Date": "toDate()", "DateTime": "toDateTime()", "Time": "toTime()"}[sysKind]
	for _, src := range []string{"%x." + conv + " = " + lit, "%x.toString()." + conv + " = %x"} {
		out := evalWith(src, nil, vars)
		if out.failed() || renderColl(out.Coll) != "[Boolean:true]" {
			ctx.Fail(sig+"conversion of the element fails or changes the value: "+strings.ReplaceAll(src, lit, "<literal of the value>"), fmt.Sprintf("%s with %%x = %s{value_us:%d timezone:%q precision:%d} → %s", src, c.Kind, c.Us, c.Off, c.Prec, out))
			return
		}
	}
}

// --- narrowing from named integer types ----------------------------------------------------

// The constraint of narrow.ToInteger admits every type whose underlying type is an integer
// (time.Duration, system.Integer, proto enums …).  A named source type narrows like its
// underlying type.  (Named *target* types are refused for every value by the pinned tree - its
// range switch matches predeclared types only; they are outside the 12×12 pairs the property
// quantifies over and are not asserted.)
type c15Celsius int16
type c15UID uint32

type c15NamedCase struct {
	From string `json:"from"`
	V    string `json:"v"`
}

func c15EnumNamed(yield func(c15NamedCase)) {
	vals := map[string][]string{
		"time.Duration":  {"-9223372036854775808", "-2147483649", "-2147483648", "-32769", "-129", "-128", "-5", "-1", "0", "1", "127", "128", "255", "256", "65535", "65536", "2147483647", "2147483648", "4294967295", "4294967296", "9223372036854775807"},
		"system.Integer": {"-2147483648", "-32769", "-32768", "-129", "-128", "-1", "0", "1", "127", "128", "255", "256", "32767", "32768", "65535", "65536", "2147483647"},
		"celsius(int16)": {"-32768", "-129", "-128", "-40", "-1", "0", "127", "128", "255", "256", "32767"},
		"uid(uint32)":    {"0", "1", "127", "128", "255", "256", "65535", "65536", "2147483647", "2147483648", "4294967295"},
	}
	for _, f := range []string{"time.Duration", "system.Integer", "celsius(int16)", "uid(uint32)"} {
		for _, v := range vals[f] {
			yield(c15NamedCase{From: f, V: v})
		}
	}
}

type c15NarrowOut struct {
	to  string
	val *big.Int
	ok  bool
}

func c15NarrowFrom[F constraints.Integer](v F) []c15NarrowOut {
	var out []c15NarrowOut
	s := func(to string, x int64, ok bool) { out = append(out, c15NarrowOut{to, big.NewInt(x), ok}) }
	u := func(to string, x uint64, ok bool) { out = append(out, c15NarrowOut{to, new(big.Int).SetUint64(x), ok}) }
	{
		r, ok := narrow.ToInteger[int8](v)
		s("int8", int64(r), ok)
	}
	{
		r, ok := narrow.ToInteger[int16](v)
		s("int16", int64(r), ok)
	}
	{
		r, ok := narrow.ToInt32(v)
		s("int32", int64(r), ok)
	}
	{
		r, ok := narrow.ToInt64(v)
		s("int64", r, ok)
	}
	{
		r, ok := narrow.ToInt(v)
		s("int", int64(r), ok)
	}
	{
		r, ok := narrow.ToInteger[uint8](v)
		u("uint8", uint64(r), ok)
	}
	{
		r, ok := narrow.ToUint16(v)
		u("uint16", uint64(r), ok)
	}
	{
		r, ok := narrow.ToUint32(v)
		u("uint32", uint64(r), ok)
	}
	{
		r, ok := narrow.ToUint64(v)
		u("uint64", r, ok)
	}
	{
		r, ok := narrow.ToUint(v)
		u("uint", uint64(r), ok)
	}
	return out
}

func c15RunNamed(ctx *Ctx, c c15NamedCase) {
	v := bigS(c.V)
	var outs []c15NarrowOut
	g := guard(func() {
		switch c.From {
		case "time.Duration":
			outs = c15NarrowFrom(time.Duration(v.Int64()))
		case "system.Integer":
			outs = c15NarrowFrom(system.Integer(v.Int64()))
		case "celsius(int16)":
			outs = c15NarrowFrom(c15Celsius(v.Int64()))
		case "uid(uint32)":
			outs = c15NarrowFrom(c15UID(v.Uint64()))
		}
	})
	ctx.Eval(c.From+c.V, true, "family:narrowing-named-source", "from:"+c.From)
	if g.Panic != "" {
		ctx.Fail("narrowing from a named type: panic@"+g.Panic, fmt.Sprint(c))
		return
	}
	for _, o := range outs {
		tr := intRanges[o.to]
		fits := v.Cmp(bigS(tr[0])) >= 0 && v.Cmp(bigS(tr[1])) <= 0
		if o.ok != fits {
			ctx.Fail("narrowing from a named integer type: success differs from representability", fmt.Sprintf("%s(%s) → %s: ok=%v, representable=%v", c.From, c.V, o.to, o.ok, fits))
			return
		}
		if fits && o.val.Cmp(v) != 0 {
			ctx.Fail("narrowing from a named integer type: wrong value", fmt.Sprintf("%s(%s) → %s = %s", c.From, c.V, o.to, o.val))
			return
		}
	}
}

func TestC15(t *testing.T) {
	r := newRec("C15",
		"five round-trip families: (string-escapes) rapid strings of 0..10 items over an alphabet with every escape target, quotes, backslash, non-ASCII/BMP/astral characters, rendered with a harness-side escaper that randomly picks the raw, simple-escape or \\uXXXX spelling; (literals) enumerated and rapid Date/DateTime/Time texts over precision × fraction digits 0..6 × offset forms, Integer/Decimal texts with leading/trailing zeros up to 30 digits, quantities with every calendar keyword and UCUM units: the literal evaluates to the denoted value, its String() re-parses to an equal value of the same precision/offset and `x = parse(x.String())` is true; (system-proto) every temporal/numeric/quantity pool value through ToProto*/…FromProto/From; (element-to-system) generated integer/unsignedInt/positiveInt/decimal elements around the int32 and uint32 limits through system.From: representable values convert to the same number, others are refused; (fhir-helpers) rapid FHIR date/dateTime/instant/time texts through fhir.Parse* and fhirconv.*ToString both ways and against the google/fhir JSON rendering in a carrier resource; (narrowing) all 11×11 instantiations of narrow.ToInteger with every 8/16-bit source value and ±2 around every power of two and type limit for wider sources, and fhirconv.ToInteger for boundary FHIR integers.  non-trivial = the representation is not the naive one (an escape, a fraction, an offset, sub-day precision, > 15 digits, a quantity) or From ≠ To; distinct = FNV-64 of the case",
		"fractions beyond milliseconds are outside System DateTime/Time (millisecond step size)", "Z ≡ +00:00")
	runProperty(t, r,
		Stage[c15StrCase]{Name: "string-escapes", Gen: c15GenStr, Run: c15RunStr, N: pick(24000, 200000)},
		Stage[c15LitCase]{Name: "literals-enum", Enum: c15EnumLits, Run: c15RunLit},
		Stage[c15LitCase]{Name: "literals", Gen: c15GenLit, Run: c15RunLit, N: pick(18000, 150000)},
		Stage[c15ProtoCase]{Name: "system-proto", Enum: c15EnumProto, Run: c15RunProto},
		Stage[c15ElemCase]{Name: "element-to-system", Gen: c15GenElem, Run: c15RunElem, N: pick(4000, 100000)},
		Stage[c15TempCase]{Name: "temporal-element-to-system", Gen: c15GenTemp, Run: c15RunTemp, N: pick(12000, 200000)},
		Stage[c15HelperCase]{Name: "fhir-helpers", Gen: c15GenHelper, Run: c15RunHelper, N: pick(18000, 150000)},
		Stage[c15NarrowCase]{Name: "narrowing", Enum: c15EnumNarrow, Run: c15RunNarrow},
		Stage[c15NamedCase]{Name: "narrowing-named-sources", Enum: c15EnumNamed, Run: c15RunNamed},
		Stage[c15FhirIntCase]{Name: "fhirconv-integer", Enum: c15EnumFhirInt, Run: c15RunFhirInt},
	)
}

// --- native go-fuzz target (thorough tier): the coverage-guided mutator chooses the operands,
// the stage's own Run function (reference model inside the target) judges them ---------------

// c15Escape spells the string s as a FHIRPath string literal; the bytes of ch choose, rune by
// rune, between the raw character, the simple escape and the \uXXXX spelling (surrogate pairs
// above the BMP) wherever the grammar offers a choice.
func c15Escape(s string, ch []byte) string {
	var lit strings.Builder
	lit.WriteByte('\'')
	i := 0
	for _, r := range s {
		var k byte
		if i < len(ch) {
			k = ch[i]
		}
		i++
		u := func() {
			if r > 0xffff {
				hi, lo := utf16.EncodeRune(r)
				fmt.Fprintf(&lit, `\u%04X\u%04x`, hi, lo)
			} else if k&0x10 != 0 {
				fmt.Fprintf(&lit, `\u%04X`, r)
			} else {
				fmt.Fprintf(&lit, `\u%04x`, r)
			}
		}
		simple := map[rune]string{'\'': `\'`, '\\': `\\`, '"': `\"`, '`': "\\`", '/': `\/`, '\f': `\f`, '\n': `\n`, '\r': `\r`, '\t': `\t`}
		switch {
		case r == '\'' || r == '\\':
			if k%3 == 2 {
				u()
			} else {
				lit.WriteString(simple[r])
			}
		case r == '\r':
			if k%2 == 1 {
				u()
			} else {
				lit.WriteString(simple[r])
			}
		case simple[r] != "":
			switch k % 3 {
			case 0:
				lit.WriteString(simple[r])
			case 1:
				lit.WriteRune(r)
			default:
				u()
			}
		default:
			if k%3 == 2 {
				u()
			} else {
				lit.WriteRune(r)
			}
		}
	}
	lit.WriteByte('\'')
	return lit.String()
}

func FuzzC15(f *testing.F) {
	f.Add("it's \"a\" `b` \\ / \f\n\r\t é€日😀", []byte{0, 1, 2, 3, 4, 5, 6, 7, 8, 9, 10, 11, 12, 13, 14, 15, 16, 17, 18, 19, 20, 21, 22, 23, 24, 25})
	f.Add("u00e9\\u00e9", []byte{2, 2, 2, 0, 0, 0})
	f.Add("", []byte{})
	f.Add("a  b c", []byte{1, 1, 1})
	f.Fuzz(func(t *testing.T, s string, ch []byte) {
		if len(s) > 64 || !utf8.ValidString(s) {
			return
		}
		fuzzCase(t, "C15", "string-escapes", c15StrCase{S: s, Lit: c15Escape(s, ch)}, c15RunStr)
	})
}

