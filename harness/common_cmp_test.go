package zzverif

// M-CMP: the reference model of FHIRPath equality and ordering (shared by C05, C10).

import (
	"math/big"
	"strings"
	"time"

	"google.golang.org/protobuf/proto"
)

// ---------------------------------------------------------------------------
// M-CMP

type cmpVal struct {
	fam  string // num str bool temporal time qty other
	num  *big.Rat
	str  string
	b    bool
	comp []int64 // temporal components (UTC-normalised) up to its precision
	unit string
	msg  proto.Message
}

func c05Classify(v Val) cmpVal {
	switch v.K {
	case "Integer", "Decimal", "fhir.integer", "fhir.decimal":
		return cmpVal{fam: "num", num: ratOf(v.S)}
	case "fhir.positiveInt", "fhir.unsignedInt":
		r := ratOf(v.S)
		if !fitsInt32(r) {
			return cmpVal{fam: "other"} // not a System Integer
		}
		return cmpVal{fam: "num", num: r}
	case "String", "fhir.string", "fhir.code", "fhir.id", "fhir.markdown", "fhir.uri", "fhir.url", "fhir.canonical", "fhir.uuid", "fhir.oid":
		return cmpVal{fam: "str", str: v.S}
	case "Boolean", "fhir.boolean":
		return cmpVal{fam: "bool", b: v.S == "true"}
	case "Date", "DateTime", "fhir.date", "fhir.dateTime", "fhir.instant":
		t, err := parseAnyTemporal(v.S, false)
		if err != nil {
			return cmpVal{fam: "other"}
		}
		return cmpVal{fam: "temporal", comp: c05Components(t, false)}
	case "Time", "fhir.time":
		t, err := parseAnyTemporal(v.S, true)
		if err != nil {
			return cmpVal{fam: "other"}
		}
		return cmpVal{fam: "time", comp: c05Components(t, true)}
	case "Quantity", "fhir.Quantity":
		return cmpVal{fam: "qty", num: ratOf(v.S), unit: v.U}
	}
	return cmpVal{fam: "other"}
}

// c05Components: [Y M D h m s·10⁹+ns] truncated to the value's precision after
// normalising the offset to UTC (no offset = UTC).  Seconds and fractions are one
// precision.
func c05Components(t temporal, isTime bool) []int64 {
	g := t.goTime().In(time.UTC)
	if t.prec <= 2 {
		g = time.Date(t.Y, time.Month(t.M), t.D, 0, 0, 0, 0, time.UTC)
	}
	all := []int64{int64(g.Year()), int64(g.Month()), int64(g.Day()), int64(g.Hour()), int64(g.Minute()), int64(g.Second())*1e9 + int64(g.Nanosecond())}
	n := t.prec + 1
	if n > 6 {
		n = 6
	}
	if isTime {
		return all[3:n]
	}
	return all[:n]
}

// isSecondsComp: component i is the seconds·10⁹+ns component of both values
func isSecondsComp(a, b cmpVal, i int) bool {
	last := 5
	if a.fam == "time" {
		last = 2
	}
	return i == last
}

// c05Model returns eq and lt as "T" "F" "E", or "" when the statement does not
// cover the pair.
func c05Model(a, b cmpVal) (eq, lt string) {
	tf := func(x bool) string {
		if x {
			return "T"
		}
		return "F"
	}
	if a.fam != b.fam {
		return "", ""
	}
	switch a.fam {
	case "num":
		c := a.num.Cmp(b.num)
		return tf(c == 0), tf(c < 0)
	case "str":
		return tf(a.str == b.str), tf(strings.Compare(a.str, b.str) < 0) // UTF-8 byte order = code point order
	case "bool":
		return tf(a.b == b.b), ""
	case "temporal", "time":
		n := len(a.comp)
		if len(b.comp) < n {
			n = len(b.comp)
		}
		for i := 0; i < n; i++ {
			if a.comp[i] != b.comp[i] {
				// the finest component of a System value is the millisecond (N1 literals have three
				// fraction digits); FHIR elements may hold microseconds.  Two values that differ only
				// below the millisecond are outside the model (the library truncates instants and
				// dateTimes and keeps the microseconds of times): the relational laws still apply
				if isSecondsComp(a, b, i) && a.comp[i]/1e6 == b.comp[i]/1e6 {
					return "", ""
				}
				return "F", tf(a.comp[i] < b.comp[i])
			}
		}
		if len(a.comp) == len(b.comp) {
			return "T", "F"
		}
		return "E", "E"
	case "qty":
		if a.unit != b.unit {
			return "E", "E"
		}
		c := a.num.Cmp(b.num)
		return tf(c == 0), tf(c < 0)
	}
	return "", ""
}

func neg3(x string) string {
	switch x {
	case "T":
		return "F"
	case "F":
		return "T"
	}
	return x
}
