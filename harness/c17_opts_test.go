package zzverif

// C17 — environment variables and custom functions behave as declared.

import (
	"regexp"
	"errors"
	"fmt"
	"strconv"
	"strings"
	"testing"

	dtpb "github.com/google/fhir/go/proto/google/fhir/proto/r4/core/datatypes_go_proto"
	"github.com/verily-src/fhirpath-go/fhirpath"
	"github.com/verily-src/fhirpath-go/fhirpath/compopts"
	"github.com/verily-src/fhirpath-go/fhirpath/evalopts"
	"github.com/verily-src/fhirpath-go/fhirpath/internal/funcs"
	"github.com/verily-src/fhirpath-go/fhirpath/system"
	"github.com/verily-src/fhirpath-go/internal/fhir"
	"google.golang.org/protobuf/proto"
	"google.golang.org/protobuf/reflect/protoreflect"
)

// --- variables -----------------------------------------------------------------

type c17Var struct {
	Name string `json:"name"`
	Kind string `json:"kind"` // sys elem res coll coll-empty coll-nested dup predefined bad-int bad-string bad-struct bad-nil bad-in-coll bad-in-coll2
}

var c17VarKinds = []string{"shape", "shape", "shape", "shape", "sys", "sys", "elem", "res", "coll", "coll", "coll-empty", "coll-nested", "dup", "predefined", "bad-int", "bad-string", "bad-struct", "bad-nil", "bad-in-coll", "bad-in-coll2"}

// c17GenShape draws the contents of a collection value: i s e r are supported items
// (Integer, String, element, resource), B F G N unsupported ones (Go int, float64,
// string, nil) at any position, [..] a nested collection.
func c17GenShape(s Src, depth int) string {
	var b strings.Builder
	n := s.Range(1, 5)
	for i := 0; i < n; i++ {
		switch {
		case s.Prob(20):
			b.WriteString(pickOne(s, []string{"B", "F", "G", "N"}))
		case depth < 2 && s.Prob(25):
			b.WriteString("[" + c17GenShape(s, depth+1) + "]")
		default:
			b.WriteString(pickOne(s, []string{"i", "s", "e", "r"}))
		}
	}
	return b.String()
}

func c17ShapeValue(shape string, pat fhir.Resource, name *dtpb.HumanName) system.Collection {
	var parse func(i int) (system.Collection, int)
	parse = func(i int) (system.Collection, int) {
		out := system.Collection{}
		for i < len(shape) {
			switch shape[i] {
			case 'i':
				out = append(out, system.Integer(7))
			case 's':
				out = append(out, system.String("x"))
			case 'e':
				out = append(out, name)
			case 'r':
				out = append(out, pat)
			case 'B':
				out = append(out, 42)
			case 'F':
				out = append(out, 3.14)
			case 'G':
				out = append(out, "plain go string")
			case 'N':
				out = append(out, nil)
			case '[':
				sub, j := parse(i + 1)
				out = append(out, sub)
				i = j
			case ']':
				return out, i
			}
			i++
		}
		return out, i
	}
	c, _ := parse(0)
	return c
}

func c17IsShape(k string) bool { return strings.HasPrefix(k, "shape:") }
func c17IsNested(k string) bool {
	return k == "coll-nested" || (c17IsShape(k) && strings.Contains(k, "["))
}

// c17Datatypes: every message of the R4 datatypes file (primitives, complex types, Xhtml,
// Reference, Extension …): each is a FHIR element a caller may hand in as a variable
var c17Datatypes = func() []protoreflect.MessageDescriptor {
	var out []protoreflect.MessageDescriptor
	ms := (&dtpb.String{}).ProtoReflect().Descriptor().ParentFile().Messages()
	for i := 0; i < ms.Len(); i++ {
		if dynamicNew(ms.Get(i)) != nil {
			out = append(out, ms.Get(i))
		}
	}
	return out
}()

func c17VarValue(k string, pat fhir.Resource, name *dtpb.HumanName) any {
	if c17IsShape(k) {
		return c17ShapeValue(strings.TrimPrefix(k, "shape:"), pat, name)
	}
	if strings.HasPrefix(k, "elem:") {
		i, _ := strconv.Atoi(strings.TrimPrefix(k, "elem:"))
		return dynamicNew(c17Datatypes[i%len(c17Datatypes)]).Interface()
	}
	switch k {
	case "sys", "dup", "predefined":
		return system.Integer(42)
	case "elem":
		return name
	case "res":
		return pat
	case "coll":
		return system.Collection{system.Integer(1), name, system.String("x")}
	case "coll-empty":
		return system.Collection{}
	case "coll-nested":
		return system.Collection{system.Integer(1), system.Collection{system.Integer(2), name}}
	case "bad-int":
		return 42
	case "bad-string":
		return "plain go string"
	case "bad-struct":
		return struct{ X int }{1}
	case "bad-nil":
		return nil
	case "bad-in-coll":
		return system.Collection{system.Integer(1), 3.14}
	case "bad-in-coll2":
		return system.Collection{system.Integer(1), system.Collection{name, system.Collection{uint8(7)}}}
	}
	return nil
}

func c17VarInvalid(k string) (dupOrPredef, unsupported bool) {
	if c17IsShape(k) {
		return false, strings.ContainsAny(k, "BFGN")
	}
	switch k {
	case "dup", "predefined":
		return true, false
	case "bad-int", "bad-string", "bad-struct", "bad-nil", "bad-in-coll", "bad-in-coll2":
		return false, true
	}
	return false, false
}

type c17EvalCase struct {
	Vars []c17Var `json:"vars"`
	Prog string   `json:"prog"` // template; $V is replaced by a variable reference
	Ref  int      `json:"ref"`  // which variable the program refers to
	Time bool     `json:"time"` // add OverrideTime among the options
}

var c17Progs = []string{"$V", "$V.count()", "Patient.name.where($V.exists())", "Patient.name.select($V)", "probe($V)", "$V.probe0()", "Patient.name.select(probe0())", "%context", "%ucum", "%nope", "iif($V.exists(), $V, %ucum)", "$V.where(true)", "($V).select($this)", "%`context`", "%'ucum'"}

var c17PlainName = regexp.MustCompile(`^[a-z][a-z0-9]*$`)

// c17Ref: the reference to a variable - %name for a plain lower-case identifier that is no reserved
// word, the delimited spelling %`name` otherwise
func c17Ref(name string) string {
	switch name {
	case "div", "mod", "and", "or", "xor", "implies", "is", "as", "in", "contains", "true", "false":
		return "%`" + name + "`"
	}
	if c17PlainName.MatchString(name) {
		return "%" + name
	}
	return "%`" + name + "`"
}

func c17GenEval(s Src) c17EvalCase {
	n := s.Range(0, 4)
	c := c17EvalCase{Prog: pickOne(s, c17Progs), Time: s.Prob(30)}
	// names: plain identifiers, names only the delimited spelling can write (hyphens, blanks, digits
	// first, non-ASCII), names the FHIR specification defines variables under (sct, loinc, vs-…, ext-…,
	// resource, rootResource) and reserved words
	names := []string{
		pickOne(s, []string{"a", "a", "vs-status", "sct", "resource", "A", "a1", "with space", "x-y"}),
		pickOne(s, []string{"b", "b", "ext-birthPlace", "loinc", "rootResource", "B", "_b", "ext-", "9b"}),
		pickOne(s, []string{"c", "c", "vs-", "us-zip", "C", "ç", "vs"}),
		pickOne(s, []string{"d", "d", "div", "and", "is", "ext", "d.e"}),
	}
	for i := 0; i < n; i++ {
		v := c17Var{Name: names[i], Kind: pickOne(s, c17VarKinds)}
		switch v.Kind {
		case "shape":
			v.Kind = "shape:" + c17GenShape(s, 0)
		case "dup":
			if i == 0 {
				v.Kind = "sys"
			} else {
				v.Name = c.Vars[s.Intn(i)].Name
			}
		case "predefined":
			v.Name = pickOne(s, []string{"context", "ucum"})
		case "elem":
			if s.Prob(75) {
				v.Kind = fmt.Sprintf("elem:%d", s.Intn(len(c17Datatypes)))
			}
		}
		c.Vars = append(c.Vars, v)
	}
	if n > 0 {
		c.Ref = s.Intn(n)
	}
	return c
}

// all orders of every list of length ≤ 3 over the option kinds (thorough)
func c17EnumEval(yield func(c17EvalCase)) {
	kinds := []string{"sys", "elem", "coll", "coll-empty", "dup", "predefined", "bad-int", "bad-nil", "bad-in-coll", "bad-in-coll2", "res", "coll-nested"}
	names := []string{"a", "b", "c"}
	var rec func(prefix []c17Var)
	rec = func(prefix []c17Var) {
		for _, p := range []string{"$V", "probe($V)", "Patient.name.select($V)"} {
			for ref := 0; ref < len(prefix) || ref == 0; ref++ {
				yield(c17EvalCase{Vars: append([]c17Var{}, prefix...), Prog: p, Ref: ref})
				if len(prefix) == 0 {
					break
				}
			}
		}
		if len(prefix) == pick(2, 3) {
			return
		}
		for _, k := range kinds {
			v := c17Var{Name: names[len(prefix)], Kind: k}
			if k == "dup" {
				if len(prefix) == 0 {
					continue
				}
				v.Name = prefix[0].Name
			}
			if k == "predefined" {
				v.Name = "ucum"
			}
			rec(append(append([]c17Var{}, prefix...), v))
		}
	}
	rec(nil)
}

var errSentinel = errors.New("c17 sentinel error")

func c17RunEval(ctx *Ctx, c c17EvalCase) {
	pat := fixturePatient()
	input := []fhir.Resource{pat}
	calls := 0
	var gotInput system.Collection
	var gotArg any
	probe := func(in system.Collection, x system.Any) (system.Collection, error) {
		calls++
		gotInput, gotArg = in, x
		return system.Collection{system.String("probed")}, nil
	}
	probeAny := func(in system.Collection, x proto.Message) (system.Collection, error) {
		calls++
		gotInput, gotArg = in, x
		return system.Collection{system.String("probed")}, nil
	}
	_ = probeAny
	probe0 := func(in system.Collection) (system.Collection, error) {
		calls++
		gotInput = in
		return in, nil
	}
	src := c.Prog
	ref := "%ucum"
	var refVar *c17Var
	if len(c.Vars) > 0 {
		refVar = &c.Vars[c.Ref%len(c.Vars)]
		ref = c17Ref(refVar.Name)
	}
	src = strings.ReplaceAll(src, "$V", ref)
	e, cerr := fhirpath.Compile(src, compopts.AddFunction("probe", probe), compopts.AddFunction("probe0", probe0))
	if cerr != nil || e == nil {
		ctx.Fail("harness: program does not compile", fmt.Sprintf("%s: %v", src, cerr))
		return
	}
	var eopts []fhirpath.EvaluateOption
	wantExisting, wantUnsupported := false, false
	seen := map[string]bool{"context": true, "ucum": true}
	supplied := map[string]any{}
	for vi, v := range c.Vars {
		val := c17VarValue(v.Kind, pat, pat.Name[0])
		eopts = append(eopts, envVarV(vi+len(c.Vars)+len(src), v.Name, val))
		_, unsup := c17VarInvalid(v.Kind)
		if unsup {
			wantUnsupported = true
			continue // validateType fails before the name is recorded
		}
		if seen[v.Name] {
			wantExisting = true
			continue
		}
		seen[v.Name] = true
		supplied[v.Name] = val
	}
	if c.Time {
		eopts = append(eopts, evalopts.OverrideTime(fixedNow))
	}
	var coll system.Collection
	var err error
	g := guard(func() { coll, err = e.Evaluate(input, eopts...) })
	invalid := wantExisting || wantUnsupported
	nvalid := 0
	for _, v := range c.Vars {
		if d, u := c17VarInvalid(v.Kind); !d && !u {
			nvalid++
		}
	}
	ctx.Eval(fmt.Sprintf("%v|%s|%v", c.Vars, src, c.Time), (len(c.Vars) >= 2 && invalid && nvalid > 0) || strings.Contains(src, "select") || strings.Contains(src, "where") || strings.Contains(src, "probe"),
		fmt.Sprintf("options:%d", len(c.Vars)), fmt.Sprintf("invalid:%v", invalid))
	desc := fmt.Sprintf("options=%v program=%s → coll=%s err=%v calls=%d", c.Vars, src, clip(renderColl(coll), 300), err, calls)
	if g.Panic != "" {
		ctx.Fail("options: Evaluate panics: "+g.Panic, desc)
		return
	}
	if invalid {
		if err == nil {
			ctx.Fail("options: a failing option among the options does not fail Evaluate", desc)
			return
		}
		if wantExisting && !errors.Is(err, fhirpath.ErrExistingConstant) {
			ctx.Fail("options: duplicate/predefined variable name does not yield ErrExistingConstant", desc)
			return
		}
		if wantUnsupported && !errors.Is(err, evalopts.ErrUnsupportedType) {
			ctx.Fail("options: unsupported variable value does not yield ErrUnsupportedType", desc)
			return
		}
		if calls != 0 {
			ctx.Fail("options: the expression was evaluated although an option failed", desc)
			return
		}
		// the EvaluateAs* helpers take the same options and must fail the same way
		helpers := map[string]func() error{
			"EvaluateAsString":    func() error { _, err := e.EvaluateAsString(input, eopts...); return err },
			"EvaluateAsBool":      func() error { _, err := e.EvaluateAsBool(input, eopts...); return err },
			"EvaluateAsInt32":     func() error { _, err := e.EvaluateAsInt32(input, eopts...); return err },
			"EvaluateAsCanonical": func() error { _, err := e.EvaluateAsCanonical(input, eopts...); return err },
		}
		for _, name := range []string{"EvaluateAsBool", "EvaluateAsCanonical", "EvaluateAsInt32", "EvaluateAsString"} {
			var herr error
			if g := guard(func() { herr = helpers[name]() }); g.Panic != "" {
				ctx.Fail("options: "+name+" panics: "+g.Panic, desc)
				return
			}
			okErr := herr != nil && (!wantExisting || errors.Is(herr, fhirpath.ErrExistingConstant)) && (!wantUnsupported || errors.Is(herr, evalopts.ErrUnsupportedType))
			if !okErr || calls != 0 {
				ctx.Fail("options: "+name+" does not report the failing option (or evaluates anyway)", fmt.Sprintf("%s ; %s → err=%v calls=%d", desc, name, herr, calls))
				return
			}
		}
		return
	}
	// all options valid
	unknown := strings.Contains(src, "%nope")
	if unknown {
		if err == nil {
			ctx.Fail("options: an unknown variable is not an evaluation error", desc)
		}
		return
	}
	if err != nil {
		if refVar != nil && c17IsNested(refVar.Kind) {
			ctx.Count("nested_collection_value(totality only)")
			return
		}
		// probe($V) with a non-singleton or non-System argument is an error without invocation
		if strings.HasPrefix(c.Prog, "probe(") {
			if calls != 0 {
				ctx.Fail("options: custom function invoked although its argument was rejected", desc)
			}
			return
		}
		ctx.Fail("options: valid options and program fail", desc)
		return
	}
	want := func() []any {
		if refVar == nil {
			return []any{system.String("http://unitsofmeasure.org")}
		}
		v := supplied[refVar.Name]
		if col, ok := v.(system.Collection); ok {
			return append([]any{}, col...)
		}
		return []any{v}
	}
	same := func(got system.Collection, w []any) bool {
		if len(got) != len(w) {
			return false
		}
		for i := range w {
			if wm, ok := w[i].(proto.Message); ok {
				gm, ok2 := got[i].(proto.Message)
				if !ok2 || any(gm) != any(wm) {
					return false
				}
				continue
			}
			if renderItem(got[i]) != renderItem(w[i]) {
				return false
			}
		}
		return true
	}
	if refVar != nil && c17IsNested(refVar.Kind) {
		ctx.Count("nested_collection_value(totality only)")
		return
	}
	switch c.Prog {
	case "$V", "$V.where(true)", "($V).select($this)":
		if !same(coll, want()) {
			ctx.Fail("options: a variable does not evaluate to exactly the supplied value (collections spliced, elements by identity)", desc+" want "+renderItems(want()))
		}
	case "$V.count()":
		if renderColl(coll) != fmt.Sprintf("[Integer:%d]", len(want())) {
			ctx.Fail("options: a collection variable is not spliced (count differs)", desc)
		}
	case "Patient.name.select($V)":
		var w []any
		for range pat.Name {
			w = append(w, want()...)
		}
		if !same(coll, w) {
			ctx.Fail("options: a variable referenced inside select() does not evaluate to the supplied value", desc)
		}
	case "Patient.name.where($V.exists())":
		n := 0
		if len(want()) > 0 {
			n = len(pat.Name)
		}
		if len(coll) != n {
			ctx.Fail("options: a variable referenced inside where() does not evaluate to the supplied value", desc)
		}
	case "%context", "%`context`":
		if len(coll) != 1 || any(coll[0]) != any(pat) {
			ctx.Fail("options: %context is not the input collection", desc)
		}
	case "%ucum", "%'ucum'":
		if renderColl(coll) != `[String:"http://unitsofmeasure.org"]` {
			ctx.Fail("options: %ucum is not the UCUM url", desc)
		}
	case "probe($V)":
		w := want()
		if len(w) == 1 {
			if _, isSys := w[0].(system.Any); isSys {
				if calls != 1 || renderColl(coll) != `[String:"probed"]` || renderItem(gotArg) != renderItem(w[0]) || len(gotInput) != 1 || any(gotInput[0]) != any(pat) {
					ctx.Fail("options: custom function not invoked once with the input collection and its evaluated argument", desc)
				}
			}
		}
	case "$V.probe0()":
		if calls != 1 || !same(gotInput, want()) || !same(coll, want()) {
			ctx.Fail("options: zero-argument custom function does not receive the current input collection / pass its result through", desc)
		}
	case "Patient.name.select(probe0())":
		if calls != len(pat.Name) {
			ctx.Fail("options: custom function inside select() is not invoked once per item", desc)
		}
	}
}

// --- compile options / custom functions -----------------------------------------

type c17FnCase struct {
	Fns  []string `json:"fns"`  // kinds of the registered functions, in order
	Call string   `json:"call"` // call template
	Ret  string   `json:"ret"`  // what the well-typed function returns: coll | err | empty
}

var c17FnKinds = []string{"good0", "good1", "good2", "good-proto", "bad-first", "bad-results", "bad-noerr", "bad-concrete-error", "non-func", "nil", "variadic", "builtin-name", "dup-name", "no-params"}

// sources that do not parse: with a failing option among the options the option's error is
// what Compile reports; without one, a syntax error
var c17Malformed = []string{"Patient.name.where(", "Patient..name", "", "1 +", "%ints.g1(", "g1(1", "'abc", "Patient.name)"}

var c17Calls = []string{"Patient.name.where(", "Patient..name", "", "1 +", "%ints.g1(", "g1(1", "'abc", "Patient.name)", "%ints.g1(1)", "%ints.g0()", "g2(1, 'a')", "%names.gp(%name)", "%ints.g1('wrong type')", "%ints.g1(%ints)", "%ints.g1({})", "%ints.g1()", "%ints.g1(1, 2)", "%ints.g0(1)", "Patient.name.select(g1(2))", "%ints.where(g1(1).exists())", "1 + 1", "%ints.g1(1 + 1)", "%names.gp(1)"}

func c17GenFn(s Src) c17FnCase {
	n := s.Range(0, 4)
	c := c17FnCase{Call: pickOne(s, c17Calls), Ret: pickOne(s, []string{"coll", "coll", "err", "empty"})}
	for i := 0; i < n; i++ {
		c.Fns = append(c.Fns, pickOne(s, c17FnKinds))
	}
	return c
}

type c17Err struct{}

func (*c17Err) Error() string { return "c17" }

func c17RunFn(ctx *Ctx, c c17FnCase) {
	pat := fixturePatient()
	calls := 0
	var gotInput system.Collection
	var gotArgs []any
	ret := func(in system.Collection) (system.Collection, error) {
		switch c.Ret {
		case "err":
			return nil, fmt.Errorf("wrapped: %w", errSentinel)
		case "empty":
			return system.Collection{}, nil
		}
		return system.Collection{system.String("ret"), pat.Name[1]}, nil
	}
	g0 := func(in system.Collection) (system.Collection, error) {
		calls++
		gotInput, gotArgs = in, nil
		return ret(in)
	}
	g1 := func(in system.Collection, a system.Integer) (system.Collection, error) {
		calls++
		gotInput, gotArgs = in, []any{a}
		return ret(in)
	}
	g2 := func(in system.Collection, a system.Integer, b system.String) (system.Collection, error) {
		calls++
		gotInput, gotArgs = in, []any{a, b}
		return ret(in)
	}
	gp := func(in system.Collection, a *dtpb.HumanName) (system.Collection, error) {
		calls++
		gotInput, gotArgs = in, []any{a}
		return ret(in)
	}
	// both spellings of the option (compopts.AddFunction, fhirpath.WithFunction), alternating
	nAdd := len(c.Fns)
	add := func(name string, fn any) fhirpath.CompileOption {
		nAdd++
		return addFnV(nAdd, name, fn)
	}
	// the four well-typed functions are always registered; the generated kinds come on top
	opts := []fhirpath.CompileOption{add("g0", g0), add("g1", g1), add("g2", g2), add("gp", gp)}
	bad := false
	extra := 0
	for i, k := range c.Fns {
		name := fmt.Sprintf("x%d", i)
		switch k {
		case "good0":
			opts = append(opts, add(name, func(in system.Collection) (system.Collection, error) { return in, nil }))
		case "good1":
			opts = append(opts, add(name, func(in system.Collection, s system.String) (system.Collection, error) { return in, nil }))
		case "good2":
			opts = append(opts, add(name, func(in system.Collection, d system.Decimal, b system.Boolean) (system.Collection, error) {
				return in, nil
			}))
		case "good-proto":
			opts = append(opts, add(name, func(in system.Collection, d *dtpb.Coding) (system.Collection, error) { return in, nil }))
		case "bad-first":
			opts, bad = append(opts, add(name, func(x system.Integer) (system.Collection, error) { return nil, nil })), true
		case "bad-results":
			opts, bad = append(opts, add(name, func(in system.Collection) system.Collection { return in })), true
		case "bad-concrete-error":
			// the second result must be the interface type `error` itself: a concrete type that
			// implements it would turn a nil *c17Err into a non-nil error
			opts, bad = append(opts, add(name, func(in system.Collection) (system.Collection, *c17Err) { return in, nil })), true
		case "bad-noerr":
			opts, bad = append(opts, add(name, func(in system.Collection) (system.Collection, string) { return in, "" })), true
		case "non-func":
			opts, bad = append(opts, add(name, 42)), true
		case "no-params":
			opts, bad = append(opts, add(name, func() (system.Collection, error) { return nil, nil })), true
		case "nil":
			var f func(system.Collection) (system.Collection, error)
			_ = f
			opts, bad = append(opts, add(name, 3.5)), true
		case "variadic":
			opts = append(opts, add(name, func(in system.Collection, xs ...system.Any) (system.Collection, error) { return in, nil }))
			extra++ // not asserted: the statement covers fixed parameter lists
		case "builtin-name":
			opts, bad = append(opts, add(pickOneFixed(i, []string{"where", "count", "toString", "first"}), g0)), true
		case "dup-name":
			opts, bad = append(opts, add("g1", g1)), true
		}
	}
	// the order of the options must not matter for validity: rotate by the number of functions
	if n := len(c.Fns); n > 0 {
		r := n % len(opts)
		opts = append(opts[r:], opts[:r]...)
	}
	var e *fhirpath.Expression
	var cerr error
	g := guard(func() { e, cerr = fhirpath.Compile(c.Call, opts...) })
	ctx.Eval(fmt.Sprintf("%v|%s|%s", c.Fns, c.Call, c.Ret), len(c.Fns) > 0 || strings.Contains(c.Call, "g"), fmt.Sprintf("fns:%d", len(c.Fns)), fmt.Sprintf("bad-option:%v", bad))
	desc := fmt.Sprintf("functions=%v call=%s ret=%s → compile err=%v", c.Fns, c.Call, c.Ret, cerr)
	if g.Panic != "" {
		ctx.Fail("functions: Compile panics: "+g.Panic, desc)
		return
	}
	wrongCount := c.Call == "%ints.g1()" || c.Call == "%ints.g1(1, 2)" || c.Call == "%ints.g0(1)"
	malformed := false
	for _, m := range c17Malformed {
		malformed = malformed || m == c.Call
	}
	if bad || wrongCount || malformed {
		if cerr == nil {
			what := "a bad signature / non-function / existing or duplicate name"
			if !bad {
				what = "a wrong argument count at the call site"
			}
			if !bad && malformed {
				what = "a source that does not parse"
			}
			ctx.Fail("functions: Compile accepts "+what, desc)
			return
		}
		if bad {
			// "Compile returns that error": the error the same options give with a source that is
			// beyond reproach, whatever else is wrong with this source or its call sites
			var refErr error
			if g := guard(func() { _, refErr = fhirpath.Compile("1", opts...) }); g.Panic == "" && refErr != nil && refErr.Error() != cerr.Error() {
				what := "well-formed"
				if malformed {
					what = "malformed"
				} else if wrongCount {
					what = "wrong argument count"
				}
				ctx.Fail("functions: with a failing option Compile reports another error than the option's ("+what+" source)", desc+fmt.Sprintf(" ; the options alone give: %v", refErr))
			}
		}
		return
	}
	if cerr != nil || e == nil {
		ctx.Fail("functions: Compile rejects well-formed custom functions", desc)
		return
	}
	vars := progVarsFor(pat)
	var eopts []fhirpath.EvaluateOption
	for ki, k := range sortedKeys(vars) {
		eopts = append(eopts, envVarV(ki+len(c.Fns), k, vars[k]))
	}
	var coll system.Collection
	var err error
	g = guard(func() { coll, err = e.Evaluate([]fhir.Resource{pat}, eopts...) })
	desc += fmt.Sprintf(" ; evaluate → coll=%s err=%v calls=%d args=%v", clip(renderColl(coll), 200), err, calls, gotArgs)
	if g.Panic != "" {
		ctx.Fail("functions: Evaluate panics: "+g.Panic, desc)
		return
	}
	wantRet := func() bool {
		switch c.Ret {
		case "err":
			return err != nil && errors.Is(err, errSentinel)
		case "empty":
			return err == nil && len(coll) == 0
		}
		return err == nil && len(coll) == 2 && renderItem(coll[0]) == `String:"ret"` && any(coll[1]) == any(pat.Name[1])
	}
	ints := vars["ints"].(system.Collection)
	sameColl := func(a, b system.Collection) bool {
		if len(a) != len(b) {
			return false
		}
		for i := range a {
			if itemID(a[i]) != itemID(b[i]) {
				return false
			}
		}
		return true
	}
	switch c.Call {
	case "%ints.g1(1)", "%ints.g1(1 + 1)":
		want := "Integer:1"
		if c.Call == "%ints.g1(1 + 1)" {
			want = "Integer:2"
		}
		if calls != 1 || !sameColl(gotInput, ints) || len(gotArgs) != 1 || renderItem(gotArgs[0]) != want || !wantRet() {
			ctx.Fail("functions: custom function not invoked once with the input collection and its evaluated arguments, or its result not passed through", desc)
		}
	case "%ints.g0()":
		if calls != 1 || !sameColl(gotInput, ints) || !wantRet() {
			ctx.Fail("functions: zero-argument custom function not invoked with the input collection / result not passed through", desc)
		}
	case "g2(1, 'a')":
		if calls != 1 || len(gotArgs) != 2 || renderItem(gotArgs[0]) != "Integer:1" || renderItem(gotArgs[1]) != `String:"a"` || len(gotInput) != 1 || any(gotInput[0]) != any(pat) || !wantRet() {
			ctx.Fail("functions: two-argument custom function called at the root does not receive the input resource and both arguments", desc)
		}
	case "%names.gp(%name)":
		if calls != 1 || len(gotArgs) != 1 || any(gotArgs[0]) != any(pat.Name[0]) || !wantRet() {
			ctx.Fail("functions: element-typed argument is not passed by identity", desc)
		}
	case "%ints.g1('wrong type')", "%ints.g1(%ints)", "%ints.g1({})", "%names.gp(1)":
		if err == nil || calls != 0 {
			ctx.Fail("functions: a wrongly typed or non-singleton argument does not fail without invoking the function", desc)
		}
	case "Patient.name.select(g1(2))":
		if c.Ret != "err" && calls != len(pat.Name) {
			ctx.Fail("functions: custom function inside select() is not invoked once per item", desc)
		}
		if c.Ret == "err" && !errors.Is(err, errSentinel) {
			ctx.Fail("functions: the error returned by a custom function is not passed through", desc)
		}
	case "%ints.where(g1(1).exists())":
		if c.Ret == "err" {
			if !errors.Is(err, errSentinel) {
				ctx.Fail("functions: the error returned by a custom function is not passed through", desc)
			}
		} else if calls != len(ints) {
			ctx.Fail("functions: custom function inside where() is not invoked once per item", desc)
		}
	case "1 + 1":
		if calls != 0 || err != nil {
			ctx.Fail("functions: registered functions influence a program that does not call them", desc)
		}
	}
}

func pickOneFixed(i int, xs []string) string { return xs[i%len(xs)] }

// --- an unknown variable is an evaluation error wherever it is evaluated ----------------

type c17UnkCase struct {
	Tpl   []string `json:"tpl"`   // templates, innermost first; $X is the hole
	Known bool     `json:"known"` // control: the variable is supplied, so nothing may fail on its account
}

// c17UnkTemplates: contexts that must evaluate the hole ($X) whatever its value is:
// every operator on either side of a non-empty operand, the receiver and each argument of
// every implemented table function (well-typed per M-FN), criteria over a non-empty
// receiver, the taken branch of iif.
var c17UnkTemplates = func() []string {
	out := []string{"$X", "($X)", "-$X", "+$X", "$X[0]", "%ints[$X]", "$X is Integer", "$X as Integer", "$X.exists()",
		"iif($X, 1, 2)", "iif(true, $X, 2)", "iif(false, 1, $X)", "%ints.where($X = 1)", "%ints.select($X)", "%ints.all($X = 1)", "%ints.exists($X = 1)",
		"true and $X", "false or $X", "true implies $X", "true xor $X", "$X and true", "$X or false", "$X implies true", "$X xor true"}
	for _, op := range []string{"+", "-", "*", "/", "div", "mod", "&", "=", "!=", "<", "<=", ">", ">=", "|", "in", "contains"} {
		partner := "1"
		if op == "&" {
			partner = "'a'" // a partner the operator accepts: the only possible error is the variable's
		}
		out = append(out, "$X "+op+" "+partner, partner+" "+op+" $X")
	}
	ph := placeholderFuncs()
	for _, f := range fnSpecs {
		if ph[f.Name] || f.Name == "iif" {
			continue
		}
		if _, ok := funcs.AddExperimentalFuncs(funcs.Clone())[f.Name]; !ok {
			continue
		}
		args := f.Args
		if len(args) > f.Max {
			args = args[:f.Max]
		}
		if f.Recv != "" {
			out = append(out, "$X."+f.Name+"("+strings.Join(args, ", ")+")")
		}
		for i, k := range f.Kinds {
			if i >= len(args) || k == "type" {
				continue
			}
			a := append([]string{}, args...)
			a[i] = "$X"
			recv := f.Recv
			if recv == "" {
				recv = "%ints"
			}
			out = append(out, recv+"."+f.Name+"("+strings.Join(a, ", ")+")")
		}
	}
	return out
}()

func c17EnumUnk(yield func(c17UnkCase)) {
	for _, t := range c17UnkTemplates {
		yield(c17UnkCase{Tpl: []string{t}})
		yield(c17UnkCase{Tpl: []string{t}, Known: true})
	}
}

func c17GenUnk(s Src) c17UnkCase {
	c := c17UnkCase{Known: s.Prob(15)}
	for i, n := 0, s.Range(2, 3); i < n; i++ {
		c.Tpl = append(c.Tpl, pickOne(s, c17UnkTemplates))
	}
	return c
}

func c17RunUnk(ctx *Ctx, c c17UnkCase) {
	src := "%nope"
	for _, t := range c.Tpl {
		src = strings.ReplaceAll(t, "$X", "("+src+")")
	}
	vars := fnVars()
	if c.Known {
		vars["nope"] = system.Integer(1)
	}
	out := evalWith(src, fixtureInput(fixturePatient()), vars, compopts.WithExperimentalFuncs())
	ctx.Eval(fmt.Sprintf("%s|%v", src, c.Known), len(c.Tpl) > 1 || c.Tpl[0] != "$X", "stage:unknown-variable", fmt.Sprintf("depth:%d", len(c.Tpl)), fmt.Sprintf("known:%v", c.Known))
	if out.Panic != "" {
		ctx.Fail("unknown variable: panic "+out.Panic, src)
		return
	}
	if out.CompileErr != nil {
		ctx.Count("unknown_variable_template_does_not_compile")
		return
	}
	if c.Known {
		return // control runs only show the templates are otherwise evaluable (see class outcome)
	}
	// how many contexts would fail anyway with an EMPTY value in the hole (what a swallowed
	// error turns into)?  There the unknown variable's error is indistinguishable from the other.
	kv := fnVars()
	kv["nope"] = system.Collection{}
	if ctl := evalWith(src, fixtureInput(fixturePatient()), kv, compopts.WithExperimentalFuncs()); ctl.Err != nil {
		ctx.Count("unknown_variable_context_fails_anyway")
		if len(c.Tpl) == 1 {
			ctx.Count("masked:" + c.Tpl[0])
		}
	} else {
		ctx.Count("unknown_variable_context_discriminates")
	}
	if out.Err == nil {
		ctx.Fail("unknown variable: an expression that must evaluate an unknown variable yields a value instead of an error (innermost context: "+c17UnkShape(c.Tpl[0])+")", fmt.Sprintf("%s → %s", src, renderColl(out.Coll)))
	}
}

// c17UnkShape abstracts a template for the signature: function templates by name.
func c17UnkShape(t string) string {
	if i := strings.Index(t, "("); i > 0 && strings.Contains(t[:i], ".") {
		head := t[:i]
		fn := head[strings.LastIndex(head, ".")+1:]
		if strings.HasPrefix(t, "$X.") {
			return "receiver of " + fn + "()"
		}
		return "argument of " + fn + "()"
	}
	return t
}

// --- nested calls of custom functions ---------------------------------------------------

// A case is a generated call tree over three pure custom functions of 1, 2 and 3 Integer
// parameters; the expected value is computed by the harness from the same tree.  Every
// argument of every invocation must be the value of its own argument expression, whatever
// other invocations of the same function happen while the arguments are being evaluated.
type c17CompCase struct {
	Src  string `json:"src"`
	Want int32  `json:"want"`
}

func c17Neg1(a int32) int32       { return (1000 - a) % 1000 }
func c17Sub2(a, b int32) int32    { return ((a-b)%1000 + 1000) % 1000 }
func c17Mix3(a, b, c int32) int32 { return (a*7 + b*3 + c) % 1000 }

func c17GenCompTree(s Src, depth int) (string, int32) {
	if depth <= 0 || s.Prob(30) {
		v := int32(s.Range(0, 999))
		return strconv.Itoa(int(v)), v
	}
	switch s.Intn(3) {
	case 0:
		a, av := c17GenCompTree(s, depth-1)
		return "neg1(" + a + ")", c17Neg1(av)
	case 1:
		a, av := c17GenCompTree(s, depth-1)
		b, bv := c17GenCompTree(s, depth-1)
		return "sub2(" + a + ", " + b + ")", c17Sub2(av, bv)
	}
	a, av := c17GenCompTree(s, depth-1)
	b, bv := c17GenCompTree(s, depth-1)
	c, cv := c17GenCompTree(s, depth-1)
	return "mix3(" + a + ", " + b + ", " + c + ")", c17Mix3(av, bv, cv)
}

func c17GenComp(s Src) c17CompCase {
	src, want := c17GenCompTree(s, s.Range(1, 4))
	if s.Prob(25) { // once per item of a two-item receiver
		return c17CompCase{Src: "Patient.name.take(2).select(" + src + ").distinct()", Want: want}
	}
	return c17CompCase{Src: src, Want: want}
}

func c17RunComp(ctx *Ctx, c c17CompCase) {
	calls := 0
	neg1 := func(in system.Collection, a system.Integer) (system.Collection, error) {
		calls++
		return system.Collection{system.Integer(c17Neg1(int32(a)))}, nil
	}
	sub2 := func(in system.Collection, a, b system.Integer) (system.Collection, error) {
		calls++
		return system.Collection{system.Integer(c17Sub2(int32(a), int32(b)))}, nil
	}
	mix3 := func(in system.Collection, a, b, d system.Integer) (system.Collection, error) {
		calls++
		return system.Collection{system.Integer(c17Mix3(int32(a), int32(b), int32(d)))}, nil
	}
	nested := strings.Count(c.Src, "(") >= 2
	ctx.Eval(c.Src, nested, "stage:nested-custom-calls", fmt.Sprintf("nested:%v", nested))
	var e *fhirpath.Expression
	var cerr error
	g := guard(func() {
		e, cerr = fhirpath.Compile(c.Src, compopts.AddFunction("neg1", neg1), compopts.AddFunction("sub2", sub2), compopts.AddFunction("mix3", mix3))
	})
	if g.Panic != "" || cerr != nil || e == nil {
		ctx.Fail("functions: a call tree of well-typed custom functions does not compile", fmt.Sprintf("%s: %v %s", c.Src, cerr, g.Panic))
		return
	}
	for round := 1; round <= 2; round++ {
		var coll system.Collection
		var err error
		g = guard(func() { coll, err = e.Evaluate(fixtureInput(fixturePatient())) })
		got := renderColl(coll)
		if g.Panic != "" || err != nil || got != fmt.Sprintf("[Integer:%d]", c.Want) {
			ctx.Fail(fmt.Sprintf("functions: nested custom function calls do not receive their own argument values (evaluation %d)", round), fmt.Sprintf("%s → %s err=%v panic=%s, want [Integer:%d]", c.Src, got, err, g.Panic, c.Want))
			return
		}
	}
}

// --- a custom function under the name of an experimental one ------------------------------

type c17ExpNameCase struct {
	First string `json:"first"` // which option comes first: custom | experimental
	Call  string `json:"call"`
}

func c17EnumExpName(yield func(c17ExpNameCase)) {
	for _, f := range []string{"custom", "experimental"} {
		for _, call := range []string{"'a'.join(',')", "%strs.join('-')", "Patient.name.select(given.join('+'))", "'a'.join()"} {
			yield(c17ExpNameCase{First: f, Call: call})
		}
	}
}

func c17RunExpName(ctx *Ctx, c c17ExpNameCase) {
	calls := 0
	mine := func(in system.Collection, sep system.String) (system.Collection, error) {
		calls++
		return system.Collection{system.String("custom:" + string(sep))}, nil
	}
	opts := []fhirpath.CompileOption{compopts.AddFunction("join", mine), compopts.WithExperimentalFuncs()}
	if c.First == "experimental" {
		opts[0], opts[1] = opts[1], opts[0]
	}
	ctx.Eval(c.First+"|"+c.Call, true, "stage:experimental-name")
	var e *fhirpath.Expression
	var cerr error
	g := guard(func() { e, cerr = fhirpath.Compile(c.Call, opts...) })
	desc := fmt.Sprintf("AddFunction(\"join\") %s WithExperimentalFuncs, %s → compile err=%v", map[string]string{"custom": "before", "experimental": "after"}[c.First], c.Call, cerr)
	if g.Panic != "" {
		ctx.Fail("functions: Compile panics: "+g.Panic, desc)
		return
	}
	if cerr != nil {
		return // rejected (existing name, or the custom function's fixed argument count): conforming
	}
	// accepted: then it is the custom function that the name denotes
	var coll system.Collection
	var err error
	g = guard(func() {
		coll, err = e.Evaluate(fixtureInput(fixturePatient()), evalopts.EnvVariable("strs", system.Collection{system.String("x"), system.String("y")}))
	})
	desc += fmt.Sprintf(" ; evaluate → %s err=%v calls=%d", clip(renderColl(coll), 200), err, calls)
	if g.Panic != "" {
		ctx.Fail("functions: Evaluate panics: "+g.Panic, desc)
		return
	}
	if strings.HasSuffix(c.Call, ".join()") {
		ctx.Fail("functions: a call with a wrong argument count for the accepted custom function compiles", desc)
		return
	}
	if err != nil || calls == 0 || len(coll) == 0 || !strings.HasPrefix(renderItem(coll[0]), "String:\"custom:") {
		ctx.Fail("functions: a custom function accepted under the name of an experimental function is not the one invoked", desc)
	}
}

// --- option values built first, edited by the caller afterwards ---------------------------

// An option is built from a collection; the caller then overwrites slots of that collection
// in place (the backing array is the caller's) and evaluates with the option, possibly more
// than once.  Whether the option looks at the value when it is built or when it is applied is
// the library's choice - but the outcome must be the declared behaviour for one of the two
// contents: the value as built, or the value as it is now.  What may never happen is an
// evaluation that hands an unsupported Go value to the program, or a failure although the
// content was supported at both moments.
type c17EditCase struct {
	Items []int   `json:"items"` // per slot: 0 String, 1 Integer, 2 unsupported int, 3 unsupported struct, 4 nested ok, 5 nested unsupported
	Edits [][]int `json:"edits"` // per round: (slot, new kind) pairs applied before that round's evaluation
}

func c17EditItem(kind, i int) any {
	switch kind {
	case 0:
		return system.String(fmt.Sprintf("s%d", i))
	case 1:
		return system.Integer(i)
	case 2:
		return 40 + i
	case 3:
		return struct{ X int }{i}
	case 4:
		return system.Collection{system.String(fmt.Sprintf("in%d", i))}
	}
	return system.Collection{system.String("in"), system.Collection{uint8(i)}}
}

func c17GenEdit(s Src) c17EditCase {
	var c c17EditCase
	for i := 0; i < s.Range(1, 4); i++ {
		c.Items = append(c.Items, pickOne(s, []int{0, 0, 1, 1, 2, 3, 4, 5}))
	}
	for r := 0; r < s.Range(1, 3); r++ {
		var e []int
		for k := 0; k < s.Range(0, 2); k++ {
			e = append(e, s.Intn(len(c.Items)), pickOne(s, []int{0, 1, 2, 3, 4, 5}))
		}
		c.Edits = append(c.Edits, e)
	}
	return c
}

func c17RunEdit(ctx *Ctx, c c17EditCase) {
	kinds := append([]int{}, c.Items...)
	coll := make(system.Collection, len(kinds))
	for i, k := range kinds {
		coll[i] = c17EditItem(k, i)
	}
	expect := func(ks []int) string { // the declared outcome for a content
		var parts []string
		for i, k := range ks {
			switch k {
			case 2, 3, 5:
				return "ErrUnsupportedType"
			case 4:
				parts = append(parts, "nested")
			default:
				parts = append(parts, renderItem(c17EditItem(k, i)))
			}
		}
		return strings.Join(parts, ",")
	}
	asBuilt := expect(kinds)
	calls := 0
	probe := func(in system.Collection) (system.Collection, error) { calls++; return system.Collection{system.Integer(1)}, nil }
	e, err := fhirpath.Compile("%v.where(probe().exists())", compopts.AddFunction("probe", probe))
	if err != nil {
		ctx.Fail("harness: cannot compile the probe program", err.Error())
		return
	}
	opt := evalopts.EnvVariable("v", coll)
	edited := false
	for _, ed := range c.Edits {
		for j := 0; j+1 < len(ed); j += 2 {
			kinds[ed[j]] = ed[j+1]
			coll[ed[j]] = c17EditItem(ed[j+1], ed[j])
			edited = true
		}
		now := expect(kinds)
		calls = 0
		var out system.Collection
		var eerr error
		g := guard(func() { out, eerr = e.Evaluate(fixtureInput(fixturePatient()), opt) })
		ctx.Count("edited_option_values_evaluated")
		if g.Panic != "" {
			ctx.Fail("options: evaluation with an option whose collection the caller edited panics", fmt.Sprintf("%+v: %s", c, g.Panic))
			return
		}
		got := ""
		switch {
		case eerr != nil && errors.Is(eerr, evalopts.ErrUnsupportedType):
			got = "ErrUnsupportedType"
			if calls != 0 {
				ctx.Fail("options: the program ran although an option failed", fmt.Sprintf("%+v", c))
				return
			}
		case eerr != nil:
			got = "error: " + eerr.Error()
		default:
			var parts []string
			for _, x := range out {
				switch x.(type) {
				case system.String, system.Integer:
					parts = append(parts, renderItem(x))
				case system.Collection:
					parts = append(parts, "nested")
				default:
					parts = append(parts, fmt.Sprintf("UNSUPPORTED %T", x))
				}
			}
			got = strings.Join(parts, ",")
		}
		nestedSomewhere := strings.Contains(asBuilt, "nested") || strings.Contains(now, "nested")
		if got != now && got != asBuilt && !(nestedSomewhere && !strings.Contains(got, "UNSUPPORTED") && got != "ErrUnsupportedType") {
			ctx.Fail("options: with a collection the caller edited after building the option, the outcome is neither the declared one for the value as built nor for the value as it is now", fmt.Sprintf("%+v: got %s; as built %s; now %s", c, got, asBuilt, now))
			return
		}
	}
	ctx.Eval(fmt.Sprint(c), edited, "stage:edited-option-values")
}

func TestC17(t *testing.T) {
	r := newRec("C17",
		"both spellings of each option are used alternately (compopts.AddFunction / fhirpath.WithFunction, evalopts.EnvVariable / fhirpath.WithConstant); element variables range over every message of the R4 datatypes file; with a failing compile option the error must be the one the same options give with the source `1`, also when the source does not parse or a call site has the wrong argument count.  evaluate-option cases: lists of 0..4 EnvVariable options (+ optionally OverrideTime) over {System value, element, resource, collection, empty collection, nested collection, duplicate name, predefined name context/ucum, unsupported Go int/string/struct/nil, unsupported value nested one and two levels inside collections, generated collection shapes (1..5 items per level, ≤ 3 levels, supported and unsupported items at any position)} in drawn order, with a program that references one of the variables at the root, inside select/where criteria, inside a custom-function argument, or %context/%ucum/%nope; instrumented custom functions count invocations and record input and arguments; an enumeration stage covers all orders of all lists of length ≤ 2 (quick) / ≤ 3 (thorough) over 12 option kinds.  compile-option cases: four well-typed functions plus 0..4 of {good 0/1/2-ary, proto-typed, wrong first parameter, wrong results, non-function, no parameters, variadic, built-in name, duplicate name} in rotated order × 15 call shapes (right/wrong argument types and counts, call sites at the root, in select, in where) × {returns collection, returns wrapped sentinel error, returns empty}.  non-trivial = ≥ 2 options with an invalid one among valid ones, or a variable referenced below the root, or a custom function call; distinct = FNV-64 of (options, program).  Nested-call cases: generated call trees (depth ≤ 4) over three pure custom functions of 1, 2 and 3 Integer parameters, at the root or once per item inside select(), evaluated twice: the result must equal the harness-side evaluation of the same tree.  Unknown-variable cases: %nope placed in every context that must evaluate it (either side of every operator, receiver and each argument of every implemented table function with well-typed other operands, criteria over a non-empty receiver, the taken iif branch), alone and nested 2..3 deep: Evaluate must return an error; the same programs with the variable supplied are control runs; counters unknown_variable_context_discriminates / _fails_anyway say in how many contexts an empty value in the hole evaluates without error (only there can a swallowed error be told apart)",
		"nested collections as variable values and variadic functions are executed for totality only (the statement does not define them)")
	runProperty(t, r,
		Stage[c17EvalCase]{Name: "option-orders", Enum: c17EnumEval, Run: c17RunEval},
		Stage[c17EvalCase]{Name: "variables", Gen: c17GenEval, Run: c17RunEval, N: pick(18000, 150000)},
		Stage[c17FnCase]{Name: "functions", Gen: c17GenFn, Run: c17RunFn, N: pick(18000, 150000)},
		Stage[c17CompCase]{Name: "nested-custom-calls", Gen: c17GenComp, Run: c17RunComp, N: pick(6000, 100000)},
		Stage[c17ExpNameCase]{Name: "experimental-name", Enum: c17EnumExpName, Run: c17RunExpName},
		Stage[c17UnkCase]{Name: "unknown-variable-contexts", Enum: c17EnumUnk, Run: c17RunUnk},
		Stage[c17UnkCase]{Name: "unknown-variable-nested", Gen: c17GenUnk, Run: c17RunUnk, N: pick(9000, 60000)},
		Stage[c17EditCase]{Name: "edited-option-values", Gen: c17GenEdit, Run: c17RunEdit, N: pick(4000, 60000)},
	)
}
