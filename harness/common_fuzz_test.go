package zzverif

// Native go-fuzz glue: a fuzz target runs one case through the property's Run
// function with a private recorder; an unknown violation is written as a replay file
// (same format as the rapid stages, so `./check <ID> --replay` re-executes it without
// the fuzzer) and fails the target.

import (
	"crypto/sha1"
	"encoding/json"
	"fmt"
	"os"
	"path/filepath"
	"testing"
)

func fuzzCase[C any](t *testing.T, prop, stage string, c C, run func(*Ctx, C)) {
	r := newRec(prop, "native fuzz")
	ctx := &Ctx{r: r, stage: stage, c: c}
	func() {
		defer func() {
			if p := recover(); p != nil {
				ctx.Fail("harness: uncaught panic in fuzz target: "+panicClass(p), fmt.Sprint(p))
			}
		}()
		run(ctx, c)
	}()
	if !ctx.failed {
		return
	}
	for sig, v := range r.violations {
		body := map[string]any{"property": prop, "stage": stage, "sig": sig, "detail": v.Detail, "case": jsonable(c)}
		b, _ := json.MarshalIndent(body, "", " ")
		if dir := os.Getenv("VERIF_FUZZ_OUT"); dir != "" {
			h := sha1.Sum(b)
			os.WriteFile(filepath.Join(dir, fmt.Sprintf("fuzzfail-%x.json", h[:6])), b, 0o644)
		}
		t.Fatalf("violation: %s\n%s", sig, clip(v.Detail, 800))
	}
}
