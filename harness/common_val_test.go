package zzverif

// Value specifications (JSON-serialisable descriptions of System values and FHIR
// primitive elements), evaluation helpers and canonical rendering.

import (
	"errors"
	"fmt"
	"math/big"
	"sort"
	"strconv"
	"strings"
	"sync"
	"sync/atomic"
	"time"

	dtpb "github.com/google/fhir/go/proto/google/fhir/proto/r4/core/datatypes_go_proto"
	"github.com/verily-src/fhirpath-go/fhirpath"
	"github.com/verily-src/fhirpath-go/fhirpath/compopts"
	"github.com/verily-src/fhirpath-go/fhirpath/evalopts"
	"github.com/verily-src/fhirpath-go/fhirpath/system"
	"github.com/verily-src/fhirpath-go/internal/fhir"
	"google.golang.org/protobuf/encoding/prototext"
	"google.golang.org/protobuf/proto"
)

// Val describes one item.  K is the kind:
//
//	Integer Decimal String Boolean Date DateTime Time Quantity   (System values; S is the text, U the unit)
//	fhir.<primitive>                                            (FHIR primitive element; S is the FHIR text form)
//	msg.<MessageName>                                           (FHIR complex element; S is prototext)
type Val struct {
	K string `json:"k"`
	S string `json:"s"`
	U string `json:"u,omitempty"`
}

func (v Val) String() string {
	if v.U != "" || v.K == "Quantity" {
		return fmt.Sprintf("%s(%s '%s')", v.K, v.S, v.U)
	}
	return fmt.Sprintf("%s(%s)", v.K, v.S)
}

func iv(n int64) Val     { return Val{K: "Integer", S: strconv.FormatInt(n, 10)} }
func dv(s string) Val    { return Val{K: "Decimal", S: s} }
func sv(s string) Val    { return Val{K: "String", S: s} }
func bv(b bool) Val      { return Val{K: "Boolean", S: strconv.FormatBool(b)} }
func qv(s, u string) Val { return Val{K: "Quantity", S: s, U: u} }
func fv(k, s string) Val { return Val{K: "fhir." + k, S: s} }
func dateV(s string) Val { return Val{K: "Date", S: s} }
func dtV(s string) Val   { return Val{K: "DateTime", S: s} }
func timeV(s string) Val { return Val{K: "Time", S: s} }

// isSystem reports whether the value is a System value (not an element).
func (v Val) isSystem() bool { return !strings.Contains(v.K, ".") }

// build constructs the Go value.  An error means the spec cannot be built (the
// generator then discards the case); it never calls code under test for System
// numerics/strings/booleans, and uses the library's parsers for temporal System
// values (there is no other constructor).
func (v Val) build() (any, error) {
	switch v.K {
	case "Integer":
		n, err := strconv.ParseInt(v.S, 10, 32)
		if err != nil {
			return nil, err
		}
		return system.Integer(n), nil
	case "Decimal":
		return system.ParseDecimal(v.S)
	case "String":
		return system.String(v.S), nil
	case "Boolean":
		return system.Boolean(v.S == "true"), nil
	case "Date":
		return system.ParseDate(v.S)
	case "DateTime":
		return system.ParseDateTime(v.S)
	case "Time":
		return system.ParseTime(v.S)
	case "Quantity":
		return system.ParseQuantity(v.S, v.U)
	case "fhir.integer":
		n, err := strconv.ParseInt(v.S, 10, 32)
		return &dtpb.Integer{Value: int32(n)}, err
	case "fhir.positiveInt":
		n, err := strconv.ParseUint(v.S, 10, 32)
		return &dtpb.PositiveInt{Value: uint32(n)}, err
	case "fhir.unsignedInt":
		n, err := strconv.ParseUint(v.S, 10, 32)
		return &dtpb.UnsignedInt{Value: uint32(n)}, err
	case "fhir.decimal":
		return &dtpb.Decimal{Value: v.S}, nil
	case "fhir.string":
		return &dtpb.String{Value: v.S}, nil
	case "fhir.code":
		return &dtpb.Code{Value: v.S}, nil
	case "fhir.id":
		return &dtpb.Id{Value: v.S}, nil
	case "fhir.markdown":
		return &dtpb.Markdown{Value: v.S}, nil
	case "fhir.uri":
		return &dtpb.Uri{Value: v.S}, nil
	case "fhir.url":
		return &dtpb.Url{Value: v.S}, nil
	case "fhir.canonical":
		return &dtpb.Canonical{Value: v.S}, nil
	case "fhir.uuid":
		return &dtpb.Uuid{Value: v.S}, nil
	case "fhir.oid":
		return &dtpb.Oid{Value: v.S}, nil
	case "fhir.boolean":
		return &dtpb.Boolean{Value: v.S == "true"}, nil
	case "fhir.base64Binary":
		return &dtpb.Base64Binary{Value: []byte(v.S)}, nil
	case "fhir.date":
		d, err := protoDate(v.S)
		if err == nil && v.U != "" { // stored with a non-UTC time zone, as the JSON unmarshaller does with a default zone
			t, _, _ := parseTemporalDate(v.S)
			d.ValueUs, d.Timezone = time.Date(t.Y, time.Month(t.M), t.D, 0, 0, 0, 0, zoneLoc(v.U)).UnixMicro(), v.U
		}
		return d, err
	case "fhir.dateTime":
		d, err := protoDateTime(v.S)
		if err == nil && v.U != "" && !strings.Contains(v.S, "T") {
			t, _, _ := parseTemporalDate(v.S)
			d.ValueUs, d.Timezone = time.Date(t.Y, time.Month(t.M), t.D, 0, 0, 0, 0, zoneLoc(v.U)).UnixMicro(), v.U
		}
		return d, err
	case "fhir.instant":
		return protoInstant(v.S)
	case "fhir.time":
		return protoTime(v.S)
	case "fhir.Quantity":
		q := &dtpb.Quantity{Value: &dtpb.Decimal{Value: v.S}}
		if v.U != "" {
			q.Code = &dtpb.Code{Value: v.U}
			q.Unit = &dtpb.String{Value: v.U}
			q.System = &dtpb.Uri{Value: "http://unitsofmeasure.org"}
		}
		return q, nil
	}
	if strings.HasPrefix(v.K, "msg.") {
		return msgFromText(strings.TrimPrefix(v.K, "msg."), v.S)
	}
	return nil, fmt.Errorf("unknown kind %q", v.K)
}

func (v Val) mustBuild() any {
	x, err := v.build()
	if err != nil {
		panic(fmt.Sprintf("harness: cannot build %v: %v", v, err))
	}
	return x
}

// lit renders the value as a FHIRPath literal; ok=false when none exists.
func (v Val) lit() (string, bool) {
	switch v.K {
	case "Integer":
		if strings.HasPrefix(v.S, "-") {
			return "", false
		}
		return v.S, true
	case "Decimal":
		if strings.HasPrefix(v.S, "-") || !strings.Contains(v.S, ".") || strings.HasPrefix(v.S, ".") || strings.HasSuffix(v.S, ".") {
			return "", false
		}
		return v.S, true
	case "String":
		return quoteFP(v.S), true
	case "Boolean":
		return v.S, true
	case "Date":
		return "@" + v.S, true
	case "DateTime":
		return "@" + v.S, true
	case "Time":
		return "@T" + v.S, true
	case "Quantity":
		if strings.HasPrefix(v.S, "-") {
			return "", false
		}
		switch v.U {
		case "year", "years", "month", "months", "week", "weeks", "day", "days", "hour", "hours", "minute", "minutes", "second", "seconds", "millisecond", "milliseconds":
			return v.S + " " + v.U, true
		}
		if strings.ContainsAny(v.U, "'\\") {
			return "", false
		}
		return v.S + " '" + v.U + "'", true
	}
	return "", false
}

// quoteFP renders a Go string as a FHIRPath string literal using only the simple
// escapes (\' \\ \n \r \t \f); C15 has its own renderer for the full escape set.
func quoteFP(s string) string {
	var sb strings.Builder
	sb.WriteByte('\'')
	for _, r := range s {
		switch r {
		case '\'':
			sb.WriteString(`\'`)
		case '\\':
			sb.WriteString(`\\`)
		case '\n':
			sb.WriteString(`\n`)
		case '\r':
			sb.WriteString(`\r`)
		case '\t':
			sb.WriteString(`\t`)
		case '\f':
			sb.WriteString(`\f`)
		default:
			sb.WriteRune(r)
		}
	}
	sb.WriteByte('\'')
	return sb.String()
}

// ---------------------------------------------------------------------------
// proto temporal builders (harness-side: do not use the repository's parsers)

type temporal struct {
	Y, M, D, h, m, s int
	frac             string // fraction digits as written ("" = none)
	prec             int    // 0 year 1 month 2 day 3 hour 4 minute 5 second 6 fraction
	hasOff           bool
	off              int // minutes east of UTC
	z                bool
}

func parseTemporalDate(s string) (t temporal, rest string, err error) {
	// YYYY[-MM[-DD]]
	if len(s) < 4 {
		return t, "", errors.New("short date")
	}
	y, e := strconv.Atoi(s[:4])
	if e != nil {
		return t, "", e
	}
	t.Y, t.M, t.D = y, 1, 1
	rest = s[4:]
	if strings.HasPrefix(rest, "-") && len(rest) >= 3 {
		m, e := strconv.Atoi(rest[1:3])
		if e != nil {
			return t, "", e
		}
		t.M, t.prec = m, 1
		rest = rest[3:]
		if strings.HasPrefix(rest, "-") && len(rest) >= 3 {
			d, e := strconv.Atoi(rest[1:3])
			if e != nil {
				return t, "", e
			}
			t.D, t.prec = d, 2
			rest = rest[3:]
		}
	}
	return t, rest, nil
}

func parseTemporalTime(t *temporal, s string) (rest string, err error) {
	// hh[:mm[:ss[.fff]]]
	if len(s) < 2 {
		return "", errors.New("short time")
	}
	if t.h, err = strconv.Atoi(s[:2]); err != nil {
		return "", err
	}
	t.prec = 3
	rest = s[2:]
	if strings.HasPrefix(rest, ":") && len(rest) >= 3 {
		if t.m, err = strconv.Atoi(rest[1:3]); err != nil {
			return "", err
		}
		t.prec = 4
		rest = rest[3:]
		if strings.HasPrefix(rest, ":") && len(rest) >= 3 {
			if t.s, err = strconv.Atoi(rest[1:3]); err != nil {
				return "", err
			}
			t.prec = 5
			rest = rest[3:]
			if strings.HasPrefix(rest, ".") {
				i := 1
				for i < len(rest) && rest[i] >= '0' && rest[i] <= '9' {
					i++
				}
				t.frac = rest[1:i]
				t.prec = 6
				rest = rest[i:]
			}
		}
	}
	return rest, nil
}

func parseTemporalOffset(t *temporal, s string) error {
	if s == "" {
		return nil
	}
	if s == "Z" {
		t.hasOff, t.z = true, true
		return nil
	}
	if len(s) == 6 && (s[0] == '+' || s[0] == '-') && s[3] == ':' {
		hh, e1 := strconv.Atoi(s[1:3])
		mm, e2 := strconv.Atoi(s[4:6])
		if e1 != nil || e2 != nil {
			return errors.New("bad offset")
		}
		t.off = hh*60 + mm
		if s[0] == '-' {
			t.off = -t.off
		}
		t.hasOff = true
		return nil
	}
	return fmt.Errorf("bad offset %q", s)
}

func (t temporal) nanos() int {
	f := t.frac
	for len(f) < 9 {
		f += "0"
	}
	n, _ := strconv.Atoi(f[:9])
	return n
}

func (t temporal) tzString() string {
	if !t.hasOff || t.z {
		return "Z"
	}
	sign := "+"
	o := t.off
	if o < 0 {
		sign, o = "-", -o
	}
	return fmt.Sprintf("%s%02d:%02d", sign, o/60, o%60)
}

func (t temporal) goTime() time.Time {
	loc := time.UTC
	if t.hasOff && !t.z {
		loc = time.FixedZone(t.tzString(), t.off*60)
	}
	return time.Date(t.Y, time.Month(t.M), t.D, t.h, t.m, t.s, t.nanos(), loc)
}

func protoDate(s string) (*dtpb.Date, error) {
	t, rest, err := parseTemporalDate(s)
	if err != nil || rest != "" {
		return nil, fmt.Errorf("bad date %q", s)
	}
	p := []dtpb.Date_Precision{dtpb.Date_YEAR, dtpb.Date_MONTH, dtpb.Date_DAY}[t.prec]
	return &dtpb.Date{ValueUs: t.goTime().UnixMicro(), Timezone: "Z", Precision: p}, nil
}

func protoDateTime(s string) (*dtpb.DateTime, error) {
	t, rest, err := parseTemporalDate(s)
	if err != nil {
		return nil, err
	}
	if strings.HasPrefix(rest, "T") {
		rest, err = parseTemporalTime(&t, rest[1:])
		if err != nil {
			return nil, err
		}
		if err := parseTemporalOffset(&t, rest); err != nil {
			return nil, err
		}
	} else if rest != "" {
		return nil, fmt.Errorf("bad dateTime %q", s)
	}
	var p dtpb.DateTime_Precision
	switch t.prec {
	case 0:
		p = dtpb.DateTime_YEAR
	case 1:
		p = dtpb.DateTime_MONTH
	case 2:
		p = dtpb.DateTime_DAY
	case 5:
		p = dtpb.DateTime_SECOND
	case 6:
		if len(t.frac) <= 3 {
			p = dtpb.DateTime_MILLISECOND
		} else {
			p = dtpb.DateTime_MICROSECOND
		}
	default:
		return nil, fmt.Errorf("FHIR dateTime has no hour/minute precision: %q", s)
	}
	return &dtpb.DateTime{ValueUs: t.goTime().UnixMicro(), Timezone: t.tzString(), Precision: p}, nil
}

func protoInstant(s string) (*dtpb.Instant, error) {
	dt, err := protoDateTime(s)
	if err != nil {
		return nil, err
	}
	var p dtpb.Instant_Precision
	switch dt.Precision {
	case dtpb.DateTime_SECOND:
		p = dtpb.Instant_SECOND
	case dtpb.DateTime_MILLISECOND:
		p = dtpb.Instant_MILLISECOND
	case dtpb.DateTime_MICROSECOND:
		p = dtpb.Instant_MICROSECOND
	default:
		return nil, fmt.Errorf("instant needs at least seconds: %q", s)
	}
	return &dtpb.Instant{ValueUs: dt.ValueUs, Timezone: dt.Timezone, Precision: p}, nil
}

func protoTime(s string) (*dtpb.Time, error) {
	var t temporal
	rest, err := parseTemporalTime(&t, s)
	if err != nil || rest != "" || t.prec < 5 {
		return nil, fmt.Errorf("bad FHIR time %q", s)
	}
	us := int64(t.h)*3600e6 + int64(t.m)*60e6 + int64(t.s)*1e6 + int64(t.nanos()/1000)
	p := dtpb.Time_SECOND
	if t.prec == 6 {
		if len(t.frac) <= 3 {
			p = dtpb.Time_MILLISECOND
		} else {
			p = dtpb.Time_MICROSECOND
		}
	}
	return &dtpb.Time{ValueUs: us, Precision: p}, nil
}

// ---------------------------------------------------------------------------
// complex elements by message name

var msgProtos = map[string]func() proto.Message{
	"HumanName":       func() proto.Message { return &dtpb.HumanName{} },
	"Coding":          func() proto.Message { return &dtpb.Coding{} },
	"CodeableConcept": func() proto.Message { return &dtpb.CodeableConcept{} },
	"Quantity":        func() proto.Message { return &dtpb.Quantity{} },
	"Identifier":      func() proto.Message { return &dtpb.Identifier{} },
	"Period":          func() proto.Message { return &dtpb.Period{} },
	"Reference":       func() proto.Message { return &dtpb.Reference{} },
	"Extension":       func() proto.Message { return &dtpb.Extension{} },
	"Address":         func() proto.Message { return &dtpb.Address{} },
	"ContactPoint":    func() proto.Message { return &dtpb.ContactPoint{} },
	"Range":           func() proto.Message { return &dtpb.Range{} },
	"Ratio":           func() proto.Message { return &dtpb.Ratio{} },
	"Annotation":      func() proto.Message { return &dtpb.Annotation{} },
	"Meta":            func() proto.Message { return &dtpb.Meta{} },
}

func msgFromText(name, text string) (proto.Message, error) {
	mk, ok := msgProtos[name]
	if !ok {
		return nil, fmt.Errorf("unknown message %q", name)
	}
	m := mk()
	if err := prototext.Unmarshal([]byte(text), m); err != nil {
		return nil, err
	}
	return m, nil
}

func msgVal(m proto.Message) Val {
	b, _ := prototext.MarshalOptions{Multiline: false}.Marshal(m)
	return Val{K: "msg." + string(m.ProtoReflect().Descriptor().Name()), S: string(b)}
}

// ---------------------------------------------------------------------------
// evaluation helpers

type evalOut struct {
	Coll       system.Collection
	Err        error
	CompileErr error
	Panic      string // panic class, "" if none
	Stack      string
}

func (e evalOut) failed() bool { return e.Err != nil || e.CompileErr != nil || e.Panic != "" }

func (e evalOut) String() string {
	switch {
	case e.Panic != "":
		return "panic(" + e.Panic + ")"
	case e.CompileErr != nil:
		return "compile-error(" + clip(e.CompileErr.Error(), 200) + ")"
	case e.Err != nil:
		return "error(" + clip(e.Err.Error(), 200) + ")"
	}
	return renderColl(e.Coll)
}

// kind classifies an outcome: panic | cerror | error | empty | value | multi
func (e evalOut) kind() string {
	switch {
	case e.Panic != "":
		return "panic"
	case e.CompileErr != nil:
		return "cerror"
	case e.Err != nil:
		return "error"
	case len(e.Coll) == 0:
		return "empty"
	case len(e.Coll) == 1:
		return "value"
	}
	return "multi"
}

// fixedNow is the instant every harness evaluation runs at.
var fixedNow = time.Date(2024, 2, 29, 23, 59, 58, 987e6, time.FixedZone("+05:30", 19800))

type cacheEntry struct {
	e   *fhirpath.Expression
	err error
	p   string
	st  string
}

// compileCache: default-option compilations by source text.  Bounded: a thorough run
// compiles millions of distinct sources, and an unbounded cache is a memory leak of the
// harness itself.
var (
	compileCache     sync.Map
	compileCacheSize atomic.Int64
)

const compileCacheMax = 20000

// compilePrecompiled counts the default compilations that were preceded by a compilation of the same text under other options.
var compilePrecompiled atomic.Int64

// compileGuarded compiles src under recover(); default options only are cached.
func compileGuarded(src string, opts ...fhirpath.CompileOption) (e *fhirpath.Expression, err error, pan, stack string) {
	if len(opts) == 0 {
		if c, ok := compileCache.Load(src); ok {
			ce := c.(cacheEntry)
			return ce.e, ce.err, ce.p, ce.st
		}
	}
	if len(opts) == 0 {
		// A default compilation is a function of the text alone: for a third of the sources (chosen
		// by the text, not by a counter) the very same text is first compiled under other options
		// - Permissive, the experimental table, a registered function - and that result discarded.
		if h := hash64(src); h%3 == 0 {
			var other fhirpath.CompileOption
			switch (h / 3) % 3 {
			case 0:
				other = compopts.Permissive()
			case 1:
				other = compopts.WithExperimentalFuncs()
			default:
				other = compopts.AddFunction("join", func(in system.Collection, sep string) (system.Collection, error) { return system.Collection{system.String("alien")}, nil })
			}
			guard(func() { _, _ = fhirpath.Compile(src, other) })
			compilePrecompiled.Add(1)
		}
	}
	o := guard(func() { e, err = fhirpath.Compile(src, opts...) })
	if len(opts) == 0 {
		if compileCacheSize.Add(1) > compileCacheMax {
			compileCache.Range(func(k, _ any) bool { compileCache.Delete(k); return true })
			compileCacheSize.Store(1)
		}
		compileCache.Store(src, cacheEntry{e, err, o.Panic, o.Stack})
	}
	return e, err, o.Panic, o.Stack
}

// evalWith compiles and evaluates src on the resources with the given variables.
// addFnV / envVarV: the two spellings the API offers for the same option - compopts.AddFunction
// and the deprecated fhirpath.WithFunction, evalopts.EnvVariable and the deprecated
// fhirpath.WithConstant.  They are documented as aliases, so every check passes its options
// through both, alternating on a number taken from the case (never on a clock or a counter
// shared between cases).
func addFnV(v int, name string, fn any) fhirpath.CompileOption {
	if v%2 == 1 {
		return fhirpath.WithFunction(name, fn)
	}
	return compopts.AddFunction(name, fn)
}

func envVarV(v int, name string, val any) fhirpath.EvaluateOption {
	if v%2 == 1 {
		return fhirpath.WithConstant(name, val)
	}
	return evalopts.EnvVariable(name, val)
}

func evalWith(src string, res []fhir.Resource, vars map[string]any, copts ...fhirpath.CompileOption) evalOut {
	e, cerr, pan, st := compileGuarded(src, copts...)
	if pan != "" {
		return evalOut{Panic: pan, Stack: st}
	}
	if cerr != nil {
		return evalOut{CompileErr: cerr}
	}
	if e == nil {
		return evalOut{Panic: "Compile returned (nil, nil)"}
	}
	var eopts []fhirpath.EvaluateOption
	names := make([]string, 0, len(vars))
	for k := range vars {
		names = append(names, k)
	}
	sort.Strings(names)
	for i, k := range names {
		eopts = append(eopts, envVarV(len(src)+i, k, vars[k]))
	}
	eopts = append(eopts, evalopts.OverrideTime(fixedNow)) // no wall clock inside a property
	var out evalOut
	o := guard(func() { out.Coll, out.Err = e.Evaluate(res, eopts...) })
	out.Panic, out.Stack = o.Panic, o.Stack
	return out
}

// ---------------------------------------------------------------------------
// rendering

func renderColl(c system.Collection) string {
	parts := make([]string, len(c))
	for i, x := range c {
		parts[i] = renderItem(x)
	}
	return "[" + strings.Join(parts, ", ") + "]"
}

func renderItem(x any) string {
	switch v := x.(type) {
	case nil:
		return "<nil>"
	case system.Integer:
		return fmt.Sprintf("Integer:%d", int32(v))
	case system.Decimal:
		return "Decimal:" + v.String()
	case system.String:
		return "String:" + strconv.Quote(string(v))
	case system.Boolean:
		return fmt.Sprintf("Boolean:%v", bool(v))
	case system.Date:
		return "Date:" + v.String()
	case system.DateTime:
		return "DateTime:" + v.String()
	case system.Time:
		return "Time:" + v.String()
	case system.Quantity:
		return "Quantity:" + v.String()
	case system.Collection:
		return "Nested" + renderColl(v)
	case proto.Message:
		b, _ := prototext.MarshalOptions{Multiline: false}.Marshal(v)
		s := strings.Join(strings.Fields(string(b)), " ")
		return string(v.ProtoReflect().Descriptor().Name()) + "{" + s + "}"
	}
	return fmt.Sprintf("%T:%v", x, x)
}

// typeName returns the short type class of an item for signatures.
func typeName(x any) string {
	switch v := x.(type) {
	case nil:
		return "nil"
	case system.Any:
		return v.Name()
	case proto.Message:
		return "FHIR." + string(v.ProtoReflect().Descriptor().Name())
	}
	return fmt.Sprintf("%T", x)
}

// ---------------------------------------------------------------------------
// exact numbers

func ratOf(s string) *big.Rat {
	r, ok := new(big.Rat).SetString(s)
	if !ok {
		panic("harness: bad number " + s)
	}
	return r
}

// numOf extracts the exact value of a numeric result item.
func numOf(x any) (*big.Rat, string, bool) {
	switch v := x.(type) {
	case system.Integer:
		return new(big.Rat).SetInt64(int64(v)), "Integer", true
	case system.Decimal:
		r, ok := new(big.Rat).SetString(v.String())
		return r, "Decimal", ok
	}
	return nil, "", false
}

var (
	minI32 = big.NewInt(-2147483648)
	maxI32 = big.NewInt(2147483647)
)

func fitsInt32(r *big.Rat) bool {
	if !r.IsInt() {
		return false
	}
	n := r.Num()
	return n.Cmp(minI32) >= 0 && n.Cmp(maxI32) <= 0
}

func ratStr(r *big.Rat) string {
	if r.IsInt() {
		return r.Num().String()
	}
	return r.FloatString(20)
}

// collOf builds a system.Collection from items (nil collection when asNil and empty).
func collOf(asNil bool, items []any) system.Collection {
	if asNil && len(items) == 0 {
		return nil
	}
	c := make(system.Collection, 0, len(items))
	for _, x := range items {
		c = append(c, x)
	}
	return c
}

// ---------------------------------------------------------------------------
// temporal text comparison (shared by C02, C05, C09, C15)

// fhirTemporalEqual compares two FHIR/FHIRPath temporal strings as
// (instant, precision, offset) at millisecond granularity; Z ≡ +00:00.
func temporalEqual(a, b string, isTime bool) (bool, string) { return temporalEqualP(a, b, isTime, 6) }

// temporalEqualSys: for System values seconds and fractions are one precision (a
// second-precision layout prints no fraction when it is zero).
func temporalEqualSys(a, b string, isTime bool) (bool, string) {
	return temporalEqualP(a, b, isTime, 5)
}

func temporalEqualP(a, b string, isTime bool, finest int) (bool, string) {
	pa, ea := parseAnyTemporal(a, isTime)
	pb, eb := parseAnyTemporal(b, isTime)
	if ea != nil || eb != nil {
		return false, fmt.Sprintf("unparsable (%v / %v)", ea, eb)
	}
	if pa.prec != pb.prec {
		// fraction digits beyond milliseconds are not representable in System values
		if !(pa.prec >= finest && pb.prec >= finest) {
			return false, fmt.Sprintf("precision differs (want %s got %s)", precName(pa), precName(pb))
		}
	}
	if pa.hasOff != pb.hasOff || pa.off != pb.off {
		if !(pa.hasOff && pb.hasOff && pa.off == 0 && pb.off == 0) {
			return false, "offset differs"
		}
	}
	ta, tb := pa.goTime(), pb.goTime()
	if ta.UnixMilli() != tb.UnixMilli() {
		return false, "instant differs"
	}
	return true, ""
}

func precName(t temporal) string {
	names := []string{"year", "month", "day", "hour", "minute", "second"}
	if t.prec < 6 {
		return names[t.prec]
	}
	if len(t.frac) <= 3 {
		return "millisecond"
	}
	return "microsecond"
}

func parseAnyTemporal(s string, isTime bool) (temporal, error) {
	s = strings.TrimPrefix(s, "@")
	if isTime {
		var t temporal
		t.Y, t.M, t.D = 1970, 1, 1
		rest, err := parseTemporalTime(&t, strings.TrimPrefix(s, "T"))
		if err != nil {
			return t, err
		}
		if rest != "" {
			return t, fmt.Errorf("trailing %q", rest)
		}
		return t, nil
	}
	t, rest, err := parseTemporalDate(s)
	if err != nil {
		return t, err
	}
	if strings.HasPrefix(rest, "T") {
		rest = rest[1:]
		if rest == "" {
			return t, nil
		}
		rest, err = parseTemporalTime(&t, rest)
		if err != nil {
			return t, err
		}
		if err := parseTemporalOffset(&t, rest); err != nil {
			return t, err
		}
		return t, nil
	}
	if rest != "" {
		return t, fmt.Errorf("trailing %q", rest)
	}
	return t, nil
}

// c13GoType15 names the System type of an item (or its FHIR message name).
func c13GoType15(x any) string {
	if a, ok := x.(system.Any); ok {
		return a.Name()
	}
	return typeName(x)
}

func sortedKeys(m map[string]any) []string {
	ks := make([]string, 0, len(m))
	for k := range m {
		ks = append(ks, k)
	}
	for i := 1; i < len(ks); i++ {
		for j := i; j > 0 && ks[j] < ks[j-1]; j-- {
			ks[j], ks[j-1] = ks[j-1], ks[j]
		}
	}
	return ks
}

func renderItems(xs []any) string {
	c := make(system.Collection, len(xs))
	copy(c, xs)
	return clip(renderColl(c), 500)
}

func itemID(x any) string {
	if m, ok := x.(proto.Message); ok {
		return fmt.Sprintf("%T@%p", m, m)
	}
	if c, ok := x.(system.Collection); ok {
		// a nested collection: its slice header and the identity of every item
		parts := []string{fmt.Sprintf("Collection[len=%d cap=%d]", len(c), cap(c))}
		if len(c) > 0 {
			parts[0] += fmt.Sprintf("@%p", &c[0])
		}
		for _, y := range c {
			parts = append(parts, itemID(y))
		}
		return strings.Join(parts, ";")
	}
	return renderItem(x)
}
