package zzverif

// C07 — empty collections propagate through operators and functions.
// Exhaustive: every operator × operand position and every table function × every
// accepted arity × {input, each argument position} × three deliveries of empty.

import (
	"strconv"
	"fmt"
	"strings"
	"sync"
	"testing"

	"github.com/verily-src/fhirpath-go/fhirpath"
	"github.com/verily-src/fhirpath-go/fhirpath/compopts"
)

type c07Case struct {
	Kind  string `json:"kind"` // op | fn
	Name  string `json:"name"` // operator or function
	N     int    `json:"n"`    // arity (fn)
	Pos   int    `json:"pos"`  // -1 input / left operand; i = argument i / right operand (1)
	Empty string `json:"empty"`
	Other string `json:"other"`          // the well-typed partner operand (operators)
	Recv  string `json:"recv,omitempty"` // fn: another receiver for which the well-typed call evaluates to a value
	Multi int    `json:"multi,omitempty"` // fn: the other argument positions hold collections of this many items of their kind
	// Odd: (empty input only) the literal arguments are well-typed but unusable values - a string
	// that is no regular expression / no unit / no type name, an integer at a boundary; the empty
	// input decides before any argument is looked at
	Odd int `json:"odd,omitempty"`
}



var c07Empties = []string{"{}", "Patient.photo", "%none", "%nilcoll"}

type c07Op struct{ op, other string }

var c07Ops = []c07Op{
	{"+", "1"}, {"+", "1.5"}, {"+", "'a'"}, {"+", "1 day"}, {"+", "@2020-01-01"}, {"+", "1 'mg'"},
	{"-", "1"}, {"-", "1.5"}, {"-", "1 day"}, {"-", "@2020-01-01"},
	{"*", "2"}, {"*", "1.5"}, {"/", "2"}, {"/", "1.5"}, {"div", "2"}, {"div", "1.5"}, {"mod", "2"}, {"mod", "1.5"},
	{"=", "1"}, {"=", "'a'"}, {"=", "%names"}, {"!=", "1"}, {"!=", "%names"},
	{"<", "1"}, {"<=", "'a'"}, {">", "@2020"}, {">=", "1.5"},
	// a multi-item partner: the empty operand still decides (the statement is unconditional)
	{"+", "%ints"}, {"-", "%ints"}, {"*", "%ints"}, {"/", "%ints"}, {"div", "%ints"}, {"mod", "%ints"},
	{"<", "%ints"}, {"<=", "%strs"}, {">", "%ints"}, {">=", "%names"}, {"=", "%ints"}, {"!=", "%strs"},
}

func c07Enum(yield func(c07Case)) {
	for _, e := range c07Empties {
		for _, o := range c07Ops {
			yield(c07Case{Kind: "op", Name: o.op, Pos: -1, Empty: e, Other: o.other})
			yield(c07Case{Kind: "op", Name: o.op, Pos: 1, Empty: e, Other: o.other})
		}
		// every operator against every candidate partner (other types, other cardinalities, FHIR
		// elements with and without a System value): the empty operand decides, whatever the other is
		for _, op := range []string{"+", "-", "*", "/", "div", "mod", "=", "!=", "<", "<=", ">", ">="} {
			for _, o := range c07RecvCands {
				yield(c07Case{Kind: "op", Name: op, Pos: -1, Empty: e, Other: o})
				yield(c07Case{Kind: "op", Name: op, Pos: 1, Empty: e, Other: o})
			}
		}
		for _, o := range []string{"&"} {
			yield(c07Case{Kind: "op", Name: o, Pos: -1, Empty: e, Other: "'x'"})
			yield(c07Case{Kind: "op", Name: o, Pos: 1, Empty: e, Other: "'x'"})
			yield(c07Case{Kind: "op", Name: o, Pos: 2, Empty: e, Other: e}) // both empty
		}
		for _, t := range []string{"Integer", "System.String", "FHIR.Patient", "HumanName"} {
			yield(c07Case{Kind: "op", Name: "is", Pos: -1, Empty: e, Other: t})
			yield(c07Case{Kind: "op", Name: "as", Pos: -1, Empty: e, Other: t})
		}
		yield(c07Case{Kind: "op", Name: "neg", Pos: -1, Empty: e})
		yield(c07Case{Kind: "op", Name: "pos", Pos: -1, Empty: e})
		yield(c07Case{Kind: "op", Name: "index", Pos: -1, Empty: e, Other: "0"})
		yield(c07Case{Kind: "op", Name: "index", Pos: 1, Empty: e, Other: "%ints"})
		for _, f := range tableFuncs() {
			for n := f.Min; n <= f.Max; n++ {
				for pos := -1; pos < n; pos++ {
					yield(c07Case{Kind: "fn", Name: f.Name, N: n, Pos: pos, Empty: e})
					if pos == -1 && n >= 1 {
						for odd := 1; odd <= 4; odd++ {
							yield(c07Case{Kind: "fn", Name: f.Name, N: n, Pos: pos, Empty: e, Odd: odd})
						}
					}
					if pos >= 0 && n >= 2 {
						// the empty argument decides, whatever the other arguments are: also next to multi-item ones
						for _, k := range []int{2, 3, 4} {
							yield(c07Case{Kind: "fn", Name: f.Name, N: n, Pos: pos, Empty: e, Multi: k})
						}
					}
				}
				// the same argument positions under every other receiver (other type, other
				// cardinality) for which the call with well-typed arguments yields a value
				for _, r := range c07AltReceivers(f.Name, n) {
					for pos := 0; pos < n; pos++ {
						yield(c07Case{Kind: "fn", Name: f.Name, N: n, Pos: pos, Empty: e, Recv: r})
					}
				}
			}
		}
	}
}

func c07Source(c c07Case) string {
	e := c.Empty
	paren := func(s string) string {
		if strings.HasPrefix(s, "Patient.") {
			return s
		}
		return s
	}
	switch c.Kind {
	case "op":
		switch c.Name {
		case "neg":
			return "-" + e
		case "pos":
			return "+" + e
		case "index":
			if c.Pos == -1 {
				return e + "[" + c.Other + "]"
			}
			return c.Other + "[" + e + "]"
		case "is", "as":
			return e + " " + c.Name + " " + c.Other
		}
		if c.Pos == -1 {
			return paren(e) + " " + c.Name + " " + c.Other
		}
		return c.Other + " " + c.Name + " " + paren(e)
	}
	sp := fnSpecByName[c.Name]
	recv := sp.Recv
	if recv == "" {
		recv = "%ints"
	}
	args := append([]string{}, sp.Args...)
	for len(args) < c.N {
		args = append(args, "1")
	}
	args = args[:c.N]
	if c.Recv != "" {
		recv = c.Recv
	}
	if c.Multi > 0 {
		for i := range args {
			if strings.HasPrefix(args[i], "'") {
				args[i] = fmt.Sprintf("%%strs.take(%d)", c.Multi)
			} else {
				args[i] = fmt.Sprintf("%%ints.take(%d)", c.Multi)
			}
		}
	}
	if c.Odd > 0 {
		for i := range args {
			if strings.HasPrefix(args[i], "'") {
				args[i] = c07OddStr[c.Odd]
			} else if _, err := strconv.Atoi(args[i]); err == nil {
				args[i] = c07OddInt[c.Odd]
			}
		}
	}
	if c.Pos == -1 {
		recv = e
	} else if c.Pos >= 0 {
		args[c.Pos] = e
	}
	return recv + "." + c.Name + "(" + strings.Join(args, ", ") + ")"
}

var c07RecvCands = []string{"1", "(0 - 3)", "2147483647", "1.5", "0.0", "'abc'", "'a'", "''", "true", "@2020-01-01", "@2020-01-01T10:00:00Z", "@T10:00", "5 'mg'", "3 days",
	"%ints", "%ints.take(1)", "%strs", "%strs.take(1)", "%strs.take(2)", "%names", "%names.take(1)", "%name", "%pat", "%bools", "%bools.take(1)",
	"Patient.active", "Patient.multipleBirth", "Patient.telecom.rank", "Patient.telecom.rank.first()", "Patient.birthDate", "Patient.name.given", "Patient.name.given.first()", "Patient.gender"}

var (
	c07AltMu    sync.Mutex
	c07AltCache = map[string][]string{}
)

// c07AltReceivers: the candidate receivers (other than the M-FN one) under which
// name(args…) with the well-typed arguments evaluates to a non-empty value.
func c07AltReceivers(name string, n int) []string {
	key := fmt.Sprintf("%s/%d", name, n)
	c07AltMu.Lock()
	defer c07AltMu.Unlock()
	if r, ok := c07AltCache[key]; ok {
		return r
	}
	var out []string
	sp, ok := fnSpecByName[name]
	if ok && n > 0 && !placeholderFuncs()[name] {
		vars := fnVars()
		for _, r := range c07RecvCands {
			if r == sp.Recv {
				continue
			}
			o := evalWith(c07Source(c07Case{Kind: "fn", Name: name, N: n, Pos: -2, Recv: r}), fixtureInput(fixturePatient()), vars, fhirpath.CompileOption(compopts.WithExperimentalFuncs()))
			if !o.failed() && len(o.Coll) > 0 {
				out = append(out, r)
			}
		}
	}
	c07AltCache[key] = out
	return out
}

func c07Run(ctx *Ctx, c c07Case) {
	src := c07Source(c)
	vars := fnVars()
	vars["nilcoll"] = collOf(true, nil)
	out := evalWith(src, fixtureInput(fixturePatient()), vars, fhirpath.CompileOption(compopts.WithExperimentalFuncs()))
	key := fmt.Sprintf("%s|%s|%d|%d|%s|%s|%s", c.Kind, c.Name, c.N, c.Pos, c.Empty, c.Other, c.Recv)
	compiled := out.CompileErr == nil
	cls := "position:input"
	if c.Pos >= 0 {
		cls = "position:argument"
	}
	ctx.Eval(key, compiled, "kind:"+c.Kind, cls, "delivery:"+c.Empty, "outcome:"+out.kind())
	where := fmt.Sprintf("%s %s/%d pos=%d", c.Kind, c.Name, c.N, c.Pos)
	if c.Recv != "" {
		where += " [other receiver]"
	}
	fail := func(what string) {
		ctx.Fail(fmt.Sprintf("empty %s: %s", where, what), fmt.Sprintf("%s (empty delivered as %s) → %s", src, c.Empty, out))
	}
	if out.Panic != "" {
		fail("panic@" + out.Panic)
		return
	}
	if out.CompileErr != nil {
		// only table functions at an accepted arity are enumerated: a compile error is a harness problem
		ctx.Fail("harness: enumerated program does not compile: "+where, src+": "+out.CompileErr.Error())
		return
	}
	if c.Kind == "op" {
		if c.Name == "&" {
			want := `[String:"x"]`
			if c.Pos == 2 {
				want = `[String:""]`
			}
			if out.Err != nil || renderColl(out.Coll) != want {
				fail("& does not treat empty as the empty string")
			}
			return
		}
		if out.Err != nil {
			fail("error instead of empty")
		} else if len(out.Coll) != 0 {
			fail("value instead of empty")
		}
		return
	}
	sp, specified := fnSpecByName[c.Name]
	if !specified {
		ctx.Fail("harness: function "+c.Name+" is in the table but not classified in M-FN", "add it to harness/common_fn_test.go")
		return
	}
	if placeholderFuncs()[c.Name] {
		if out.Err == nil {
			fail("unimplemented function returned a value")
		}
		return
	}
	if c.Pos == -1 {
		if sp.Aggregate {
			ctx.Count("aggregate_on_empty_input(not asserted)")
			return
		}
		if out.Err != nil {
			fail("error instead of empty (empty input)")
		} else if len(out.Coll) != 0 {
			fail("value instead of empty (empty input)")
		}
		return
	}
	kind := "coll"
	if c.Pos < len(sp.Kinds) {
		kind = sp.Kinds[c.Pos]
	}
	if kind != "single" {
		ctx.Count("criteria_or_collection_argument(not asserted)")
		return
	}
	// an empty argument where a single value is required: empty or an error, never a value
	if out.Err == nil && len(out.Coll) != 0 {
		fail("fabricated value for an empty single-value argument")
	}
}

func TestC07(t *testing.T) {
	r := newRec("C07",
		"exhaustive: {+ - * / div mod = != < <= > >= & is as unary± indexer} × operand position × partner operands (well-typed ones, multi-item ones, and every arithmetic/comparison/equality operator against each of the 33 candidate receivers), and every name of funcs.Clone() ∪ experimental table × every arity Compile accepts × {input, each argument position}; the empty collection is delivered as the literal {}, as an absent element path (Patient.photo), as an empty environment variable and as a nil collection variable; the other positions hold the well-typed operands of M-FN, and every argument position is also tried under each of 33 other receivers (other types, other cardinalities, FHIR elements) for which the call with well-typed arguments yields a value; non-trivial = the program compiled; every tuple is distinct",
		"M-FN (harness/common_fn_test.go) classifies each argument position as single-value / criteria / collection from the N1 signatures", "aggregates listed by the property (exists, empty, count, all, allTrue/anyTrue/allFalse/anyFalse, isDistinct, iif, now/today/timeOfDay) are executed but not asserted on empty input")
	runProperty(t, r, Stage[c07Case]{Name: "matrix", Enum: c07Enum, Run: c07Run})
}
