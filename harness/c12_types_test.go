package zzverif

// C12 — `is` and `as` agree with the FHIR and System type hierarchies.
// Oracle: M-TYPE — declared types from the proto annotations (not from the
// repository's reflection code) and a hand-written R4 hierarchy table.

import (
	"fmt"
	ppb "github.com/google/fhir/go/proto/google/fhir/proto/r4/core/resources/patient_go_proto"
	"sort"
	"strings"
	"sync"
	"testing"

	dtpb "github.com/google/fhir/go/proto/google/fhir/proto/r4/core/datatypes_go_proto"
	"github.com/verily-src/fhirpath-go/fhirpath"
	"github.com/verily-src/fhirpath-go/fhirpath/compopts"
	"github.com/verily-src/fhirpath-go/internal/fhir"
	"google.golang.org/protobuf/proto"
	"google.golang.org/protobuf/reflect/protoreflect"
)

// --- M-TYPE -------------------------------------------------------------------

var primitiveNames = []string{"base64Binary", "boolean", "canonical", "code", "date", "dateTime", "decimal", "id", "instant", "integer", "markdown", "oid", "positiveInt", "string", "time", "unsignedInt", "uri", "url", "uuid"}

var systemNames = []string{"Boolean", "String", "Integer", "Decimal", "Date", "DateTime", "Time", "Quantity", "Any"}

// datatypeNames: every complex datatype of the R4 datatypes proto file that has a
// structure definition under hl7.org (read from the descriptors).
var datatypeNames = func() []string {
	fd := (&dtpb.String{}).ProtoReflect().Descriptor().ParentFile()
	var out []string
	ms := fd.Messages()
	for i := 0; i < ms.Len(); i++ {
		m := ms.Get(i)
		u := sdURL(m)
		if !strings.HasPrefix(u, "http://hl7.org/fhir/StructureDefinition/") || isPrimitiveMD(m) {
			continue
		}
		n := strings.TrimPrefix(u, "http://hl7.org/fhir/StructureDefinition/")
		if n == "Element" || n == "BackboneElement" {
			continue
		}
		out = append(out, n)
	}
	sort.Strings(out)
	return out
}()

var backboneDatatypes = map[string]bool{"Dosage": true, "ElementDefinition": true, "MarketingStatus": true, "Population": true, "ProdCharacteristic": true, "ProductShelfLife": true, "SubstanceAmount": true, "Timing": true}

// fhirParent: the parent of a FHIR type in the R4 hierarchy ("" = root).
// "?BackboneElement" marks datatypes whose BackboneElement ancestry the statement
// does not spell out (they are Elements in any case).
func fhirParent(t string) string {
	switch t {
	case "code", "id", "markdown":
		return "string"
	case "positiveInt", "unsignedInt":
		return "integer"
	case "url", "canonical", "uuid", "oid":
		return "uri"
	case "Age", "Count", "Distance", "Duration", "MoneyQuantity", "SimpleQuantity":
		return "Quantity"
	case "Element", "Resource":
		return ""
	case "BackboneElement":
		return "Element"
	case "DomainResource", "Bundle", "Binary", "Parameters":
		return "Resource"
	case "#component-of-resource":
		return "BackboneElement"
	case "#component-of-datatype":
		return "Element"
	}
	if _, ok := resTypeByName[t]; ok {
		return "DomainResource"
	}
	return "Element" // primitives and datatypes
}

func fhirAncestors(t string) map[string]bool {
	out := map[string]bool{}
	for x := t; x != ""; x = fhirParent(x) {
		if !strings.HasPrefix(x, "#") {
			out[x] = true
		}
	}
	return out
}

// declaredType of a tree node, from annotations and schema position.
func declaredType(n *Node) string {
	if n.Synth {
		return "string"
	}
	md := n.Msg.ProtoReflect().Descriptor()
	if isResourceMD(md) {
		return string(md.Name())
	}
	if valuesetURL(md) != "" && isPrimitiveMD(md) {
		return "code"
	}
	if u := sdURL(md); strings.HasPrefix(u, "http://hl7.org/fhir/StructureDefinition/") {
		return strings.TrimPrefix(u, "http://hl7.org/fhir/StructureDefinition/")
	}
	if isPrimitiveMD(md) {
		if base := strings.TrimSuffix(string(md.Name()), "Code"); base != string(md.Name()) {
			return "code"
		}
		return "?"
	}
	// a nested component: of a resource or of a datatype?
	var top protoreflect.Descriptor = md
	for {
		p, ok := top.Parent().(protoreflect.MessageDescriptor)
		if !ok {
			break
		}
		top = p
	}
	if tm, ok := top.(protoreflect.MessageDescriptor); ok && isResourceMD(tm) {
		return "#component-of-resource"
	}
	return "#component-of-datatype"
}

// typeUniverse: every type specifier text the check asks about.
type typeSpec struct {
	Text  string // as written
	NS    string // FHIR | System | "" invalid
	Name  string
	Valid bool
}

func resolveSpec(text string) typeSpec {
	parts := strings.Split(text, ".")
	isFHIR := func(n string) bool {
		if _, ok := resTypeByName[n]; ok {
			return true
		}
		for _, p := range primitiveNames {
			if p == n {
				return true
			}
		}
		for _, d := range datatypeNames {
			if d == n {
				return true
			}
		}
		switch n {
		case "Element", "BackboneElement", "Resource", "DomainResource", "xhtml":
			return true
		}
		return false
	}
	isSystem := func(n string) bool {
		for _, s := range systemNames {
			if s == n {
				return true
			}
		}
		return false
	}
	switch len(parts) {
	case 1:
		if isFHIR(parts[0]) {
			return typeSpec{text, "FHIR", parts[0], true}
		}
		if isSystem(parts[0]) {
			return typeSpec{text, "System", parts[0], true}
		}
	case 2:
		if parts[0] == "FHIR" && isFHIR(parts[1]) {
			return typeSpec{text, "FHIR", parts[1], true}
		}
		if parts[0] == "System" && isSystem(parts[1]) {
			return typeSpec{text, "System", parts[1], true}
		}
	}
	return typeSpec{Text: text}
}

var c12Specs = func() []string {
	var out []string
	add := func(n string) { out = append(out, n, "FHIR."+n, "System."+n) }
	for _, r := range allResTypes {
		add(r.Name)
	}
	for _, d := range datatypeNames {
		add(d)
	}
	for _, p := range primitiveNames {
		add(p)
		add(strings.ToUpper(p[:1]) + p[1:])
	}
	for _, b := range []string{"Element", "BackboneElement", "Resource", "DomainResource", "Any", "Quantity"} {
		add(b)
	}
	out = append(out, "patient", "STRING", "humanName", "Foo", "FHIR.Foo", "Bar.Integer", "System.Integer.x", "FHIR.FHIR.string", "Patient.Contact", "Contact", "Repeat", "system.String", "fhir.string")
	// generated misspellings of valid names (type names are case-sensitive identifiers): every
	// single-letter case flip, snake_case, a leading/trailing underscore, all lower, all upper,
	// an upper-cased tail - kept only when the reference resolver calls them invalid
	seen := map[string]bool{}
	for _, o := range out {
		seen[o] = true
	}
	flip := func(r byte) byte {
		switch {
		case r >= 'a' && r <= 'z':
			return r - 32
		case r >= 'A' && r <= 'Z':
			return r + 32
		}
		return r
	}
	names := append(append([]string{}, primitiveNames...), "Patient", "HumanName", "Quantity", "Integer", "String", "DateTime", "Boolean", "Element", "BackboneElement", "DomainResource")
	for _, n := range names {
		var miss []string
		for i := 0; i < len(n); i++ {
			b := []byte(n)
			b[i] = flip(b[i])
			miss = append(miss, string(b))
		}
		var snake strings.Builder
		for i := 0; i < len(n); i++ {
			if i > 0 && n[i] >= 'A' && n[i] <= 'Z' {
				snake.WriteByte('_')
			}
			snake.WriteByte(n[i] | 0x20)
		}
		miss = append(miss, snake.String(), n+"_", "_"+n, strings.ToLower(n), strings.ToUpper(n), n[:len(n)/2]+strings.ToUpper(n[len(n)/2:]))
		if len(n) > 3 {
			miss = append(miss, n[:1]+strings.ToUpper(n[1:3])+n[3:])
		}
		for _, m := range miss {
			for _, q := range []string{m, "FHIR." + m} {
				if !seen[q] && !resolveSpec(q).Valid {
					seen[q] = true
					out = append(out, q)
				}
			}
		}
	}
	return out
}()

// --- cases ----------------------------------------------------------------------

type c12Case struct {
	Res   string   `json:"res"`
	Specs []string `json:"specs"`
	Pick  int      `json:"pick"`           // node sampling offset
	Only  string   `json:"only,omitempty"` // ask only about the top-level element of this name (top-level-elements stage)
	// Perm: compiled with compopts.Permissive() — field steps then hand choice wrappers on
	// unopened, and `is`/`as` have to look through them themselves
	Perm bool `json:"perm,omitempty"`
}

// c12EnumTop: every top-level element of every R4 resource type once: a resource in which
// that element is forced to be populated; its first node is asked about its own hierarchy.
func c12EnumTop(yield func(c12Case)) {
	for ti, rt := range allResTypes {
		fs := rt.Field.Message().Fields()
		for i := 0; i < fs.Len(); i++ {
			f := fs.Get(i)
			if f.Message() == nil || f.ContainingOneof() != nil || f.JSONName() == "contained" || f.JSONName() == "text" {
				continue
			}
			r := genResource(fixedSrc{ti*1000 + i + 1}, rt.Name, genOpts{MaxDepth: 2, Budget: 25, P0: 8, Force: []string{f.JSONName()}})
			yield(c12Case{Res: resToText(r), Only: f.JSONName(), Pick: ti + i})
		}
	}
}

func c12Gen(s Src) c12Case {
	r := genAnyResource(s, defaultGen)
	c := c12Case{Res: resToText(r), Pick: s.Intn(1000), Perm: s.Prob(25)}
	for i := 0; i < pick(12, 40); i++ {
		c.Specs = append(c.Specs, pickOne(s, c12Specs))
	}
	return c
}

var c12SeenTypes sync.Map

func c12Run(ctx *Ctx, c c12Case) {
	res, err := resFromText(c.Res)
	if err != nil {
		ctx.Fail("harness: cannot decode case", err.Error())
		return
	}
	root, _, err := buildTree(res)
	if err != nil {
		ctx.Eval(c.Res, false, "marshal-error")
		return
	}
	input := []fhir.Resource{res.(fhir.Resource)}
	typ := root.Name
	var copts []fhirpath.CompileOption
	mode := ""
	if c.Perm {
		copts, mode = []fhirpath.CompileOption{compopts.Permissive()}, " [Permissive]"
	}
	var nodes []*Node
	nodes = append(nodes, root)
	root.walk(func(n *Node) { nodes = append(nodes, n) })
	// sample ≤ 25 nodes deterministically
	step := 1
	if len(nodes) > 25 {
		step = len(nodes)/25 + 1
	}
	// nodes of a message type this process has not asked about yet come first (every R4 message
	// type gets its turn as soon as the generator produces it), then a stepped sample
	var picked []*Node
	inPick := map[*Node]bool{}
	for _, n := range nodes {
		if len(picked) >= 15 {
			break
		}
		if n.Msg == nil || n.Synth {
			continue
		}
		fn := n.Msg.ProtoReflect().Descriptor().FullName()
		if _, seen := c12SeenTypes.LoadOrStore(fn, true); !seen {
			picked = append(picked, n)
			inPick[n] = true
		}
	}
	for i := c.Pick % step; i < len(nodes); i += step {
		if !inPick[nodes[i]] {
			picked = append(picked, nodes[i])
		}
	}
	if c.Only != "" {
		picked = nil
		if ks := root.Kids[c.Only]; len(ks) > 0 {
			picked = append(picked, ks[0])
			ks[0].walk(func(n *Node) {
				if len(picked) < 6 {
					picked = append(picked, n)
				}
			})
		} else {
			ctx.Count("top_level_element_not_generated")
		}
	}
	for _, n := range picked {
		path := typ
		if n != root {
			path = renderSteps(typ, c02IndexedSteps(n, 0xffff))
		}
		if strings.Contains(path, ".div") || strings.Contains(path, ".`div`") {
			continue // xhtml is not among the type names of the statement's quantifier
		}
		if c.Perm && (n.Synth || n.ViaAny) {
			continue // Permissive opens neither references nor contained resources: outside the statement
		}
		// the path must address exactly this node (C02's findings are not re-reported here)
		base := evalWith(path, input, nil, copts...)
		if base.failed() || len(base.Coll) != 1 {
			ctx.Count("node_not_addressable(C02)")
			continue
		}
		if n.Synth {
			// a synthesised reference string: no identity
		} else if bm, ok := base.Coll[0].(proto.Message); !ok || (!n.ViaAny && any(bm) != any(n.Msg)) {
			// Permissive: the unopened choice wrapper whose chosen value is the node
			inWrapper := false
			if ok && c.Perm && !n.ViaAny && isChoiceMD(bm.ProtoReflect().Descriptor()) {
				if fd := bm.ProtoReflect().WhichOneof(bm.ProtoReflect().Descriptor().Oneofs().Get(0)); fd != nil && fd.Message() != nil {
					inWrapper = any(bm.ProtoReflect().Get(fd).Message().Interface()) == any(n.Msg)
				}
			}
			if !inWrapper {
				ctx.Count("node_not_addressable(C02)")
				continue
			}
			ctx.Count("choice_wrapper_operands(Permissive)")
		}
		decl := declaredType(n)
		if decl == "?" {
			ctx.Fail("harness: no declared type for "+n.TypeName, path)
			continue
		}
		anc := fhirAncestors(decl)
		// besides the drawn specifiers, every node is asked about its own hierarchy: its
		// declared type, each ancestor, the base types and the types other kinds specialise
		// to (one qualified and one unqualified spelling each, alternating)
		specs := append([]string{}, c.Specs...)
		own := []string{"Element", "BackboneElement", "Resource", "DomainResource", "Quantity", "string", "integer", "uri"}
		for a := range anc {
			own = append(own, a)
		}
		sort.Strings(own)
		for k, a := range own {
			if (k+c.Pick)%2 == 0 {
				a = "FHIR." + a
			}
			dup := false
			for _, sp := range specs {
				dup = dup || sp == a
			}
			if !dup {
				specs = append(specs, a)
			}
		}
		for _, spec := range specs {
			ts := resolveSpec(spec)
			src := path + " is " + spec
			out := evalWith(src, input, nil, copts...)
			strict := ts.Valid && (ts.NS != "FHIR" || (anc[ts.Name] && ts.Name != decl) || !anc[ts.Name])
			cls := "decl:component"
			switch {
			case n == root || (!n.Synth && isResourceMD(n.Msg.ProtoReflect().Descriptor())):
				cls = "decl:resource"
			case n.Synth || n.Prim:
				cls = "decl:primitive"
				if decl == "code" {
					cls = "decl:code"
				}
			case !strings.HasPrefix(decl, "#"):
				cls = "decl:datatype"
			}
			if n.Choice {
				cls += "(choice member)"
			}
			ctx.Eval(c.Res+"|"+src+mode, strict && ts.Valid && ts.Name != decl, cls)
			if out.Panic != "" {
				ctx.Fail("types: `is` panics", src+": "+out.Panic)
				return
			}
			if !ts.Valid {
				if out.CompileErr == nil {
					ctx.Fail(fmt.Sprintf("types: invalid type specifier accepted by Compile (%s)", c12SpecClass(spec)), src+" → "+out.String())
				}
				if asOut := evalWith(path+" as "+spec, input, nil, copts...); asOut.CompileErr == nil {
					ctx.Fail(fmt.Sprintf("types: invalid type specifier accepted by Compile after `as` (%s)", c12SpecClass(spec)), path+" as "+spec+" → "+asOut.String())
				}
				continue
			}
			if out.CompileErr != nil {
				ctx.Fail(fmt.Sprintf("types: valid type specifier rejected by Compile (%s)", c12SpecClass(spec)), src+": "+out.CompileErr.Error())
				continue
			}
			want := ts.NS == "FHIR" && anc[ts.Name]
			// not asserted: BackboneElement ancestry of the datatypes that R4 derives from it
			if ts.NS == "FHIR" && ts.Name == "BackboneElement" && (anc["Dosage"] || anc["Timing"] || anc["ElementDefinition"] || backboneDatatypes[decl] || decl == "#component-of-datatype") {
				ctx.Count("BackboneElement_ancestry_of_datatype(not asserted)")
				continue
			}
			got := renderColl(out.Coll)
			if out.Err != nil || got != fmt.Sprintf("[Boolean:%v]", want) {
				declShown := decl
				ctx.Fail(fmt.Sprintf("types: `%s is %s` want %v [%s]", c12DeclClass(declShown), c12TargetClass(ts, decl, anc), want, cls), fmt.Sprintf("%s%s → %s (declared type %s, node %s)", src, mode, out, decl, n.TypeName))
				continue
			}
			// as: the very node when `is` holds, empty otherwise
			asOut := evalWith(path+" as "+spec, input, nil, copts...)
			if want {
				ok := !asOut.failed() && len(asOut.Coll) == 1
				if ok {
					if n.Synth {
						ok = renderItem(asOut.Coll[0]) == renderItem(base.Coll[0])
					} else if am, isMsg := asOut.Coll[0].(proto.Message); !isMsg {
						ok = false
					} else if n.ViaAny {
						ok = proto.Equal(am, n.Msg)
					} else {
						ok = any(am) == any(n.Msg)
					}
				}
				if !ok {
					ctx.Fail("types: `x as T` does not return x itself when `x is T`", fmt.Sprintf("%s as %s%s → %s", path, spec, mode, asOut))
				}
			} else if asOut.failed() || len(asOut.Coll) != 0 {
				ctx.Fail("types: `x as T` is not empty when `x is T` is false", fmt.Sprintf("%s as %s%s → %s", path, spec, mode, asOut))
			}
		}
	}
}

func c12SpecClass(spec string) string {
	switch {
	case strings.Count(spec, ".") >= 2:
		return "three-part name"
	case strings.HasPrefix(spec, "System."):
		return "System.<non-System name>"
	case strings.HasPrefix(spec, "FHIR."):
		n := strings.TrimPrefix(spec, "FHIR.")
		if n != "" && n[0] >= 'A' && n[0] <= 'Z' {
			for _, p := range primitiveNames {
				if strings.EqualFold(p, n) {
					return "FHIR.<capitalised primitive>"
				}
			}
		}
		return "FHIR.<non-FHIR name>"
	case strings.Contains(spec, "."):
		return "unknown namespace"
	}
	return "unknown name"
}

func c12DeclClass(decl string) string {
	switch {
	case strings.HasPrefix(decl, "#"):
		return decl[1:]
	case resTypeByName[decl].Name != "":
		return "resource"
	}
	for _, p := range primitiveNames {
		if p == decl {
			return decl
		}
	}
	return "datatype"
}

func c12TargetClass(ts typeSpec, decl string, anc map[string]bool) string {
	if ts.NS == "System" {
		return "System." + ts.Name
	}
	switch ts.Name {
	case decl:
		return "its own type"
	case "Element", "BackboneElement", "Resource", "DomainResource":
		return ts.Name
	}
	if anc[ts.Name] {
		return "ancestor " + ts.Name
	}
	if _, ok := resTypeByName[ts.Name]; ok {
		return "an unrelated resource type"
	}
	for _, p := range primitiveNames {
		if p == ts.Name {
			return "an unrelated primitive type"
		}
	}
	return "an unrelated datatype"
}

// --- every datatype allowed as an extension value × the datatype and primitive names ------

type c12ExtCase struct {
	Member int    `json:"member"` // index into the oneof of Extension.ValueX
	Spec   string `json:"spec"`
}

func c12ExtMembers() protoreflect.FieldDescriptors {
	return (&dtpb.Extension_ValueX{}).ProtoReflect().Descriptor().Oneofs().Get(0).Fields()
}

func c12EnumExt(yield func(c12ExtCase)) {
	ms := c12ExtMembers()
	for i := 0; i < ms.Len(); i++ {
		for _, sp := range c12Specs {
			ts := resolveSpec(sp)
			// datatype and primitive names (the resource names are covered by the resources stage)
			if ts.Valid && ts.NS == "FHIR" {
				if _, isRes := resTypeByName[ts.Name]; isRes {
					continue
				}
			}
			yield(c12ExtCase{Member: i, Spec: sp})
		}
	}
}

func c12RunExt(ctx *Ctx, c c12ExtCase) {
	ms := c12ExtMembers()
	f := ms.Get(c.Member % ms.Len())
	vm := dynamicNew(f.Message())
	if vm == nil {
		ctx.Fail("harness: cannot create "+string(f.Message().FullName()), "")
		return
	}
	g := &resGen{s: fixedSrc{c.Member + 1}, o: smallGen, budget: 8}
	g.fill(vm, 1)
	vx := &dtpb.Extension_ValueX{}
	vx.ProtoReflect().Set(f, protoreflect.ValueOfMessage(vm))
	pat := &ppb.Patient{Id: &dtpb.Id{Value: "x"}, Extension: []*dtpb.Extension{{Url: &dtpb.Uri{Value: "http://example.org/v"}, Value: vx}}}
	decl := declaredType(&Node{Msg: vm.Interface(), TypeName: string(f.Message().Name()), Prim: isPrimitiveMD(f.Message())})
	ts := resolveSpec(c.Spec)
	path := "Patient.extension[0].value"
	src := path + " is " + c.Spec
	out := evalWith(src, []fhir.Resource{pat}, nil)
	anc := fhirAncestors(decl)
	ctx.Eval(fmt.Sprintf("%d|%s", c.Member, c.Spec), ts.Valid && ts.Name != decl, "decl:extension-value", "member:"+string(f.Name()))
	if out.Panic != "" {
		ctx.Fail("types: `is` panics", src+": "+out.Panic)
		return
	}
	if !ts.Valid || decl == "?" || decl == "xhtml" {
		return // invalid specifiers are judged in the other stages
	}
	if out.CompileErr != nil {
		ctx.Fail(fmt.Sprintf("types: valid type specifier rejected by Compile (%s)", c12SpecClass(c.Spec)), src+": "+out.CompileErr.Error())
		return
	}
	want := ts.NS == "FHIR" && anc[ts.Name]
	if ts.NS == "FHIR" && ts.Name == "BackboneElement" && (anc["Dosage"] || anc["Timing"] || anc["ElementDefinition"] || backboneDatatypes[decl]) {
		return
	}
	if got := renderColl(out.Coll); out.Err != nil || got != fmt.Sprintf("[Boolean:%v]", want) {
		ctx.Fail(fmt.Sprintf("types: extension value `%s is %s` want %v", c12DeclClass(decl), c12TargetClass(ts, decl, anc), want), fmt.Sprintf("%s → %s (declared type %s, value type %s)", src, out, decl, f.Message().Name()))
		return
	}
	asOut := evalWith(path+" as "+c.Spec, []fhir.Resource{pat}, nil)
	if want {
		if asOut.failed() || len(asOut.Coll) != 1 || any(asOut.Coll[0]) != any(vm.Interface()) {
			ctx.Fail("types: `x as T` does not return x itself when `x is T`", fmt.Sprintf("%s as %s → %s", path, c.Spec, asOut))
		}
	} else if asOut.failed() || len(asOut.Coll) != 0 {
		ctx.Fail("types: `x as T` is not empty when `x is T` is false", fmt.Sprintf("%s as %s → %s", path, c.Spec, asOut))
	}
}

// --- System values --------------------------------------------------------------

type c12SysCase struct {
	Expr string `json:"expr"`
	Type string `json:"type"` // its System type
	Spec string `json:"spec"`
}

func c12EnumSys(yield func(c12SysCase)) {
	exprs := [][2]string{{"1", "Integer"}, {"1.5", "Decimal"}, {"'a'", "String"}, {"true", "Boolean"}, {"@2020", "Date"}, {"@2020-01-01T10:00:00Z", "DateTime"}, {"@T10:00", "Time"}, {"1 'mg'", "Quantity"}, {"1 day", "Quantity"},
		{"(1 + 1)", "Integer"}, {"(1 / 2)", "Decimal"}, {"'a'.length()", "Integer"}, {"'a'.upper()", "String"}, {"(1 = 1)", "Boolean"}, {"now()", "DateTime"}, {"today()", "Date"}, {"timeOfDay()", "Time"}, {"1.toString()", "String"}, {"'1'.toInteger()", "Integer"}, {"5.toQuantity()", "Quantity"}, {"%i", "Integer"}, {"%s", "String"}}
	for _, e := range exprs {
		for _, s := range c12Specs {
			yield(c12SysCase{Expr: e[0], Type: e[1], Spec: s})
		}
	}
}

func c12RunSys(ctx *Ctx, c c12SysCase) {
	ts := resolveSpec(c.Spec)
	src := c.Expr + " is " + c.Spec
	vars := progVarsFor(fixturePatient())
	out := evalWith(src, nil, vars)
	ctx.Eval(src, ts.Valid && ts.Name != c.Type, "decl:system-value")
	if out.Panic != "" {
		ctx.Fail("types: `is` panics", src+": "+out.Panic)
		return
	}
	if !ts.Valid {
		if out.CompileErr == nil {
			ctx.Fail(fmt.Sprintf("types: invalid type specifier accepted by Compile (%s)", c12SpecClass(c.Spec)), src+" → "+out.String())
		}
		if asOut := evalWith(c.Expr+" as "+c.Spec, nil, vars); asOut.CompileErr == nil {
			ctx.Fail(fmt.Sprintf("types: invalid type specifier accepted by Compile after `as` (%s)", c12SpecClass(c.Spec)), c.Expr+" as "+c.Spec+" → "+asOut.String())
		}
		return
	}
	if out.CompileErr != nil {
		ctx.Fail(fmt.Sprintf("types: valid type specifier rejected by Compile (%s)", c12SpecClass(c.Spec)), src+": "+out.CompileErr.Error())
		return
	}
	want := ts.NS == "System" && (ts.Name == c.Type || ts.Name == "Any")
	if out.Err != nil || renderColl(out.Coll) != fmt.Sprintf("[Boolean:%v]", want) {
		ctx.Fail(fmt.Sprintf("types: System value `%s is %s.%s` want %v", c.Type, ts.NS, map[bool]string{true: "its own type", false: ts.Name}[ts.Name == c.Type], want), src+" → "+out.String())
		return
	}
	asOut := evalWith(c.Expr+" as "+c.Spec, nil, vars)
	base := evalWith(c.Expr, nil, vars)
	if want {
		if asOut.failed() || renderColl(asOut.Coll) != renderColl(base.Coll) {
			ctx.Fail("types: `x as T` does not return x itself when `x is T` (System value)", fmt.Sprintf("%s as %s → %s", c.Expr, c.Spec, asOut))
		}
	} else if asOut.failed() || len(asOut.Coll) != 0 {
		ctx.Fail("types: `x as T` is not empty when `x is T` is false (System value)", fmt.Sprintf("%s as %s → %s", c.Expr, c.Spec, asOut))
	}
}

func TestC12(t *testing.T) {
	r := newRec("C12",
		fmt.Sprintf("a resource case is one generated resource of any R4 type (a quarter of the cases compiled with compopts.Permissive(), where field steps hand choice wrappers on unopened and `is`/`as` look through them themselves; nodes behind references and contained resources are skipped there): ≤ 15 nodes of message types not asked about before in this process plus ≤ 25 sampled nodes of its JSON tree (addressed by fully indexed paths) × 12 (quick) / 40 (thorough) type specifiers drawn from %d texts = {146 resource names, %d datatype names, 19 primitive names in both cases, Element, BackboneElement, Resource, DomainResource, Any, Quantity} × {unqualified, FHIR., System.} ∪ invalid specifiers; each evaluates `x is T` and `x as T`.  An exhaustive stage forces every top-level element of every R4 resource type to be populated once and asks that node (and up to five below it) about its own hierarchy.  A second, exhaustive stage puts a value of each of the 49 datatypes allowed in Extension.value[x] (uuid, oid, canonical, markdown, Age, Count, … which hardly occur elsewhere) into an extension and asks every datatype and primitive name about it; a third asks every specifier about 22 literals and function results of every System type.  non-trivial = T is valid and is a strict ancestor of, or unrelated to, the declared type; distinct = FNV-64 of (resource, source)", len(c12Specs), len(datatypeNames)),
		"declared types come from the proto annotations (fhir_structure_definition_url, fhir_valueset_url, schema position), the R4 hierarchy from a hand-written table", "BackboneElement ancestry of the eight datatypes R4 derives from BackboneElement, and of components nested in datatypes, is not asserted")
	runProperty(t, r,
		Stage[c12SysCase]{Name: "system-values", Enum: c12EnumSys, Run: c12RunSys},
		Stage[c12ExtCase]{Name: "extension-values", Enum: c12EnumExt, Run: c12RunExt},
		Stage[c12Case]{Name: "top-level-elements", Enum: c12EnumTop, Run: c12Run},
		Stage[c12Case]{Name: "resources", Gen: c12Gen, Run: c12Run, N: pick(150, 700)},
	)
}
