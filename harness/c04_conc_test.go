package zzverif

// C04 — compiled expressions are immutable, deterministic and goroutine-safe.
// (a) generated goroutine histories under the race detector, each concurrent result
//     compared with the same evaluation performed alone;
// (b) OverrideTime / one instant per evaluation / independence from the process TZ;
// (c) Compile isolation as a generated history of Compile calls with an invariant.

import (
	"encoding/json"
	"fmt"
	"hash/adler32"
	"hash/crc32"
	"hash/fnv"
	dtpb "github.com/google/fhir/go/proto/google/fhir/proto/r4/core/datatypes_go_proto"
	"google.golang.org/protobuf/reflect/protoreflect"
	"google.golang.org/protobuf/types/known/anypb"
	"os"
	"os/exec"
	"path/filepath"
	"reflect"
	"runtime"
	"sort"
	"strings"
	"sync"
	"testing"
	"time"
	_ "time/tzdata"

	"github.com/verily-src/fhirpath-go/fhirpath"
	"github.com/verily-src/fhirpath-go/fhirpath/compopts"
	"github.com/verily-src/fhirpath-go/fhirpath/evalopts"
	"github.com/verily-src/fhirpath-go/fhirpath/internal/funcs"
	"github.com/verily-src/fhirpath-go/fhirpath/patch"
	"github.com/verily-src/fhirpath-go/fhirpath/system"
	"github.com/verily-src/fhirpath-go/internal/fhir"
	"google.golang.org/protobuf/proto"
)

// --- (a) concurrency -----------------------------------------------------------------

type c04Eval struct {
	Expr int `json:"e"`
	Res  int `json:"r"` // bit mask of the shared resources to pass
	Opt  int `json:"o"` // 0 none 1 variables 2 variables+time
}

type c04ConcCase struct {
	Exprs      []string    `json:"exprs"`
	Res        []string    `json:"res"` // generated resources besides the fixture Patient
	Goroutines [][]c04Eval `json:"goroutines"`
	Order      []int       `json:"order"` // start order
	Procs      int         `json:"procs"`
	Compilers  int         `json:"compilers"` // goroutines compiling concurrently
	Cold       bool        `json:"cold"`      // the goroutines hit freshly compiled, never evaluated expressions (the "alone" results come from a second compilation afterwards)
}

var c04ExprPool = []string{
	// collections of dozens and hundreds of items (a result must not depend on how a large collection is laid out or hashed)
	"'the quick brown fox jumps over the lazy dog THE QUICK BROWN FOX 0123456789'.toChars().distinct()", "('abcdefghijklmnopqrstuvwxyzABCDEFGHIJKLMNOPQRSTUVWXYZ0123456789' & %s).toChars().distinct().first()",
	"Patient.descendants().distinct().count()", "('aAbBcCdDeEfFgGhHiIjJkKlLmMnNoOpPqQrRsStTuUvVwWxXyYzZ').toChars().intersect('zZyYxXwWvVuUtTsSrRqQpPoOnNmMlLkKjJiIhHgGfFeEdDcCbBaA'.toChars()).take(3)",
	"Patient.name.where(use = 'official').given", "Patient.name.select(given.first() & ' ' & family)", "Patient.name.exists(family = 'Smith')", "Patient.name.all(given.count() > 0)",
	"iif(Patient.active, Patient.name.family, {})", "Patient.children().descendants().count()", "Patient.extension('http://example.org/a').value", "Patient.telecom.where(rank > 1).value",
	"%ints.where($this > 1).count() + %i", "%names.given.distinct()", "%strs.join(',') & %s", "now() > @2000-01-01T00:00:00Z", "today().toString().length()", "Patient.birthDate + 1 year", "Patient.meta.lastUpdated - 2 hours",
	"Patient.name.given.toChars().count()", "Patient.managingOrganization.reference", "Patient.deceased = false", "Patient.name[0] is HumanName", "Patient.name.take(2).skip(1).family", "%pat.name.intersect(%names).count()", "Patient.name.exclude(%names).count()",
	"Patient.contact.name.given.upper()", "Patient.identifier.value.toInteger() + 1", "(1 / 3).round(5)", "'abc'.replaceMatches('b', 'x')", "Patient.link.other.reference", "%mixed.count()", "children().count()", "descendants().where($this is string).count()",
	"myFn(2)", "Patient.name.select(myFn(1)).count()",
}

func c04GenConc(s Src) c04ConcCase {
	c := c04ConcCase{Procs: pickOne(s, []int{1, 2, 4, 16}), Compilers: s.Range(0, 3), Cold: s.Bool()}
	ne := s.Range(1, 6)
	for i := 0; i < ne; i++ {
		if s.Prob(80) {
			c.Exprs = append(c.Exprs, pickOne(s, c04ExprPool))
		} else {
			c.Exprs = append(c.Exprs, genProgramOf(s, pickOne(s, []string{"B", "C", "S", "I"}), s.Range(1, 4), 0).min())
		}
	}
	for i := 0; i < s.Range(0, 2); i++ {
		c.Res = append(c.Res, resToText(genAnyResource(s, smallGen)))
	}
	g := s.Range(2, 16)
	for i := 0; i < g; i++ {
		var seq []c04Eval
		n := s.Range(1, 20)
		for j := 0; j < n; j++ {
			ev := c04Eval{Expr: s.Intn(ne), Res: 1 + s.Intn(1<<(1+len(c.Res))-1), Opt: s.Intn(3)}
			if s.Prob(60) { // many goroutines on the same expression and resource
				ev = c04Eval{Expr: 0, Res: 1, Opt: 1}
			}
			seq = append(seq, ev)
		}
		c.Goroutines = append(c.Goroutines, seq)
	}
	c.Order = make([]int, g)
	for i := range c.Order {
		c.Order[i] = i
	}
	for i := g - 1; i > 0; i-- {
		j := s.Intn(i + 1)
		c.Order[i], c.Order[j] = c.Order[j], c.Order[i]
	}
	return c
}

func c04MyFn(in system.Collection, n system.Integer) (system.Collection, error) {
	return system.Collection{n, system.Integer(len(in))}, nil
}

type c04Result struct {
	render string
	ptrs   []string
	err    string
}

func c04EvalOnce(e *fhirpath.Expression, input []fhir.Resource, eopts []fhirpath.EvaluateOption) c04Result {
	var coll system.Collection
	var err error
	g := guard(func() { coll, err = e.Evaluate(input, eopts...) })
	if g.Panic != "" {
		return c04Result{err: "panic: " + g.Panic}
	}
	if err != nil {
		return c04Result{err: "error: " + err.Error()}
	}
	r := c04Result{render: renderColl(coll)}
	for _, it := range coll {
		r.ptrs = append(r.ptrs, itemID(it))
	}
	return r
}

// writeHistory stores the history next to the shard's output so that the driver can
// attach it to a race-detector report (a schedule-dependent failure cannot be shrunk).
func c04WriteHistory(c c04ConcCase) {
	if env.Out == "" {
		return
	}
	b, _ := json.Marshal(c)
	os.WriteFile(filepath.Join(filepath.Dir(env.Out), fmt.Sprintf("history.%d.json", env.Shard)), b, 0o644)
}

func c04RunConc(ctx *Ctx, c c04ConcCase) {
	c04WriteHistory(c)
	pat := fixturePatient()
	shared := []fhir.Resource{pat}
	for _, t := range c.Res {
		if r, err := resFromText(t); err == nil {
			shared = append(shared, r.(fhir.Resource))
		}
	}
	subset := func(mask int) []fhir.Resource {
		var out []fhir.Resource
		for i, r := range shared {
			if mask&(1<<uint(i)) != 0 {
				out = append(out, r)
			}
		}
		return out
	}
	vars := progVarsFor(pat)
	optsFor := func(k int) []fhirpath.EvaluateOption {
		var eopts []fhirpath.EvaluateOption
		if k >= 1 {
			for _, n := range sortedKeys(vars) {
				eopts = append(eopts, evalopts.EnvVariable(n, vars[n]))
			}
		}
		eopts = append(eopts, evalopts.OverrideTime(fixedNow))
		return eopts
	}
	// compile (sequentially; Compile isolation is sub-check c)
	exprs := make([]*fhirpath.Expression, len(c.Exprs))
	alone := make([]*fhirpath.Expression, len(c.Exprs)) // a second compilation: the sequential reference
	for i, src := range c.Exprs {
		e, err := fhirpath.Compile(src, compopts.AddFunction("myFn", c04MyFn), compopts.WithExperimentalFuncs())
		if err != nil {
			exprs[i] = nil
			continue
		}
		exprs[i] = e
		alone[i], _ = fhirpath.Compile(src, compopts.AddFunction("myFn", c04MyFn), compopts.WithExperimentalFuncs())
		if !c.Cold {
			alone[i] = e // warm: the very expression the goroutines share
		}
	}
	var snaps []snap
	for _, r := range shared {
		snaps = append(snaps, snapshot(r))
	}
	// baseline: every distinct evaluation performed alone
	type key struct{ e, r, o int }
	baseline := map[key]c04Result{}
	unstable := map[key]bool{}
	sameTarget := map[key]int{}
	for _, seq := range c.Goroutines {
		for _, ev := range seq {
			k := key{ev.Expr, ev.Res, ev.Opt}
			sameTarget[k]++
			if _, ok := baseline[k]; !ok && exprs[ev.Expr] != nil {
				b := c04EvalOnce(alone[ev.Expr], subset(ev.Res), optsFor(ev.Opt))
				// synthesised items (reference strings, unpacked contained resources) have no stable
				// identity even sequentially: compare their rendering only
				if again := c04EvalOnce(alone[ev.Expr], subset(ev.Res), optsFor(ev.Opt)); !reflect.DeepEqual(again.ptrs, b.ptrs) {
					b.ptrs = nil
					unstable[k] = true
				}
				baseline[k] = b
			}
		}
	}
	contended := false
	for _, n := range sameTarget {
		if n >= 2 {
			contended = true
		}
	}
	old := runtime.GOMAXPROCS(c.Procs)
	defer runtime.GOMAXPROCS(old)
	var wg sync.WaitGroup
	start := make(chan struct{})
	var mu sync.Mutex
	var mismatches []string
	launched := make([]chan struct{}, len(c.Goroutines))
	for _, gi := range c.Order {
		gi := gi
		launched[gi] = make(chan struct{})
		wg.Add(1)
		go func() {
			defer wg.Done()
			close(launched[gi])
			<-start
			for j, ev := range c.Goroutines[gi] {
				if exprs[ev.Expr] == nil {
					continue
				}
				got := c04EvalOnce(exprs[ev.Expr], subset(ev.Res), optsFor(ev.Opt))
				want := baseline[key{ev.Expr, ev.Res, ev.Opt}]
				if unstable[key{ev.Expr, ev.Res, ev.Opt}] {
					got.ptrs = nil
				}
				if got.err != want.err || got.render != want.render || !reflect.DeepEqual(got.ptrs, want.ptrs) {
					mu.Lock()
					mismatches = append(mismatches, fmt.Sprintf("goroutine %d step %d: %q on resources %b opts %d: alone → %s%s, concurrently → %s%s", gi, j, c.Exprs[ev.Expr], ev.Res, ev.Opt, want.render, want.err, got.render, got.err))
					mu.Unlock()
				}
			}
		}()
		<-launched[gi]
	}
	// concurrent Compile calls (with function registration) alongside the evaluations
	for k := 0; k < c.Compilers; k++ {
		k := k
		wg.Add(1)
		go func() {
			defer wg.Done()
			<-start
			for i := 0; i < 8; i++ {
				name := fmt.Sprintf("fn%d_%d", k, i)
				fhirpath.Compile("Patient.name."+name+"(1)", compopts.AddFunction(name, c04MyFn), compopts.WithExperimentalFuncs())
				fhirpath.Compile("Patient.name.join(',')", compopts.WithExperimentalFuncs())
				patch.Compile("Patient.name.given")
			}
		}()
	}
	close(start)
	wg.Wait()
	total := 0
	for _, seq := range c.Goroutines {
		total += len(seq)
	}
	ctx.Eval(fmt.Sprint(c.Exprs, c.Goroutines, c.Procs), contended, fmt.Sprintf("gomaxprocs:%d", c.Procs), "stage:concurrent")
	ctx.r.count("concurrent_evaluations", int64(total))
	if len(mismatches) > 0 {
		sort.Strings(mismatches)
		ctx.Fail("concurrency: a concurrent evaluation differs from the same evaluation performed alone", strings.Join(mismatches[:min(len(mismatches), 5)], "\n"))
		return
	}
	for i, r := range shared {
		if why := snaps[i].changed(r); why != "" {
			ctx.Fail("concurrency: a shared input resource changed ("+why+")", fmt.Sprintf("resource %d", i))
			return
		}
	}
}

// --- (b) time --------------------------------------------------------------------------

type c04TimeCase struct {
	Unix  int64  `json:"unix"`
	Nanos int    `json:"nanos"`
	Zone  string `json:"zone"`
}

var c04Zones = []string{"UTC", "Asia/Kolkata", "America/St_Johns", "Pacific/Chatham", "Pacific/Kiritimati", "Pacific/Pago_Pago", "Europe/London", "America/New_York", "Australia/Lord_Howe", "fixed:+05:45", "fixed:-09:30", "fixed:+00:00", "Local"}

func c04GenTime(s Src) c04TimeCase {
	base := pickOne(s, []int64{0, 951782400, 1582934400, 1709251199, 1711846800, 1698541200, 253402300799 - 86400, -62135596800 + 86400*400, 1e9})
	if s.Prob(12) {
		// the exact ends of the DateTime range and the epoch (time.Time's zero value is the first of them)
		return c04TimeCase{Unix: pickOne(s, []int64{-62135596800, 0, 253402300799, -62135596800 + 1}), Nanos: pickOne(s, []int{0, 0, 1e6}), Zone: pickOne(s, []string{"UTC", "UTC", "fixed:+00:00", "fixed:+05:45", "Pacific/Kiritimati", "Local"})}
	}
	return c04TimeCase{Unix: base + int64(s.Range(-100000, 100000)), Nanos: pickOne(s, []int{0, 1e6, 999e6, 500e6, 123456789, 999999999}), Zone: pickOne(s, c04Zones)}
}

func c04Loc(zone string) *time.Location {
	if strings.HasPrefix(zone, "fixed:") {
		return zoneLoc(strings.TrimPrefix(zone, "fixed:"))
	}
	if zone == "Local" {
		return time.Local
	}
	loc, err := time.LoadLocation(zone)
	if err != nil {
		panic(err)
	}
	return loc
}

func c04RunTime(ctx *Ctx, c c04TimeCase) {
	t := time.Unix(c.Unix, int64(c.Nanos)).In(c04Loc(c.Zone))
	ctx.Eval(fmt.Sprint(c), t.Nanosecond() != 0 || c.Zone != "UTC", "stage:time", "zone:"+c.Zone)
	nap := func(in system.Collection) (system.Collection, error) {
		time.Sleep(3 * time.Millisecond)
		return system.Collection{system.String("")}, nil
	}
	eval := func(src string, override bool) evalOut {
		e, err := fhirpath.Compile(src, compopts.AddFunction("nap", nap))
		if err != nil {
			return evalOut{CompileErr: err}
		}
		var out evalOut
		var eopts []fhirpath.EvaluateOption
		eopts = append(eopts, evalopts.EnvVariable("ints", system.Collection{system.Integer(1), system.Integer(2), system.Integer(3)}))
		if override {
			eopts = append(eopts, evalopts.OverrideTime(t))
		}
		g := guard(func() { out.Coll, out.Err = e.Evaluate(nil, eopts...) })
		out.Panic = g.Panic
		return out
	}
	_, off := t.Zone()
	sign := "+"
	if off < 0 {
		sign, off = "-", -off
	}
	offs := fmt.Sprintf("%s%02d:%02d", sign, off/3600, off%3600/60)
	if off == 0 {
		offs = "Z"
	}
	if t.Year() < 1 || t.Year() > 9999 {
		return
	}
	wantNow := t.Format("2006-01-02T15:04:05.000") + offs
	now := eval("now()", true)
	if now.failed() || len(now.Coll) != 1 {
		ctx.Fail("time: now() fails under OverrideTime", fmt.Sprintf("%v → %s", t, now))
		return
	}
	if ok, why := temporalEqual(wantNow, fmt.Sprint(now.Coll[0]), false); !ok {
		ctx.Fail("time: now() is not the OverrideTime instant in its own offset at millisecond precision: "+why, fmt.Sprintf("override %v → now() = %v, want %s", t, now.Coll[0], wantNow))
		return
	}
	today := eval("today()", true)
	if today.failed() || fmt.Sprint(today.Coll[0]) != t.Format("2006-01-02") {
		ctx.Fail("time: today() is not the OverrideTime's calendar date in its own location", fmt.Sprintf("override %v → today() = %s, want %s", t, today, t.Format("2006-01-02")))
		return
	}
	tod := eval("timeOfDay()", true)
	if tod.failed() || fmt.Sprint(tod.Coll[0]) != t.Format("15:04:05.000") {
		ctx.Fail("time: timeOfDay() is not the OverrideTime's clock in its own location", fmt.Sprintf("override %v → timeOfDay() = %s, want %s", t, tod, t.Format("15:04:05.000")))
		return
	}
	// one instant per evaluation, with and without the override (the evaluation spans ≥ 6 ms)
	for _, override := range []bool{true, false} {
		out := eval("%ints.select(nap() & now().toString() & '|' & timeOfDay().toString() & '|' & today().toString())", override)
		if out.failed() || len(out.Coll) != 3 {
			ctx.Fail("time: slow evaluation fails", out.String())
			return
		}
		if renderItem(out.Coll[0]) != renderItem(out.Coll[1]) || renderItem(out.Coll[1]) != renderItem(out.Coll[2]) {
			ctx.Fail(fmt.Sprintf("time: now()/today()/timeOfDay() denote more than one instant within one evaluation (override=%v)", override), out.String())
			return
		}
	}
	// repeatability under the same options, interleaved with unrelated evaluations
	a := eval("now().toString() & today().toString()", true)
	eval("1 + 1", false)
	eval("now()", false)
	b := eval("now().toString() & today().toString()", true)
	if a.String() != b.String() {
		ctx.Fail("time: repeating an evaluation with the same OverrideTime gives another result", a.String()+" vs "+b.String())
	}
}

// --- TZ matrix: the same battery in child processes with different TZ --------------------

var c04BatteryFixed = []string{
	"Patient.birthDate", "Patient.meta.lastUpdated", "Patient.meta.lastUpdated.value", "Patient.birthDate.value", "Patient.meta.lastUpdated > @2020-01-01T00:00:00Z", "Patient.birthDate = @1980-02-29", "Patient.birthDate + 1 day",
	"@2020-01-01T10:00:00 = @2020-01-01T10:00:00Z", "@2020-01-01T10:00:00+05:30 < @2020-01-01T05:00:00Z", "@2020-03-08T01:30:00-05:00 + 1 hour", "@2020-01-01T23:30:00 + 45 minutes", "@2020-01-01.toDateTime()", "@2020-01-01T10:00:00Z.toDate()", "'2020-06-01T00:00:00+02:00'.toDateTime()",
	"@T23:30 + 45 minutes", "today() = now().toDate()", "now().toString().substring(23)", "timeOfDay().toString().length()", "%dt", "%dt.toString()", "%da + 1 month", "%pat.meta.lastUpdated.toString()",
	// FHIR time / date / dateTime / instant elements of every precision and several zones
	"%ftm", "%ftm.toString()", "%ftm = @T08:30:00", "%ftm < @T09:00", "%ftm + 1 hour", "%ftms.toString()", "%fd", "%fd.toString()", "%fd = @2020-01-01", "%fd + 1 day", "%fd.toDateTime()", "%fdm.toString()", "%fdt.toString()", "%fdt = @2020-01-01T10:00:00+05:30", "%fdt.toDate()", "%fdd.toString()", "%fin.toString()", "%fin > @2020-01-01T00:00:00Z",
}

// the offsets the zones of the matrix use in winter and in summer, and some they never use
var c04BatteryOffsets = []string{"Z", "+00:00", "+05:30", "-03:30", "-02:30", "+12:45", "+13:45", "-05:00", "+14:00"}

// local times on both sides of the daylight-saving changes of the matrix zones (2020: St John's
// 8 March / 1 November, Chatham 5 April / 27 September), and one in each season
var c04BatteryStarts = []string{"2020-03-07T12:00:00", "2020-03-08T01:59:59", "2020-04-04T12:00:00", "2020-04-05T03:30:00", "2020-09-26T12:00:00", "2020-10-31T23:30:00", "2020-11-01T00:30:00", "2020-01-15T10:00:00", "2020-07-15T10:00:00.250"}

var c04BatteryAmounts = []string{"1 day", "24 hours", "1 week", "1 month", "6 months", "1 year", "2 hours", "90 minutes", "0 seconds"}

// c04Battery: the fixed programs, then literal and element arithmetic, conversions and
// comparisons for every (start, offset) pair
var c04Battery = func() []string {
	out := append([]string{}, c04BatteryFixed...)
	for i, st := range c04BatteryStarts {
		for j, off := range c04BatteryOffsets {
			lit := "@" + st + off
			el := fmt.Sprintf("%%e%d_%d", i, j)
			for k, q := range c04BatteryAmounts {
				op := []string{"+", "-"}[(i+j+k)%2]
				out = append(out, lit+" "+op+" "+q)
				if (i+j+k)%3 == 0 {
					out = append(out, el+" "+op+" "+q, "("+lit+" + "+q+") - "+q+" = "+lit)
				}
			}
			out = append(out, el, el+".toString()", lit+".toString()", el+" = "+lit, "'"+st+off+"'.toDateTime()", lit+".toDate()")
		}
	}
	return out
}()

func c04BatteryElements(vars map[string]any) {
	for i, st := range c04BatteryStarts {
		for j, off := range c04BatteryOffsets {
			if e, err := protoDateTime(st + off); err == nil {
				vars[fmt.Sprintf("e%d_%d", i, j)] = e
			}
		}
	}
}

func c04BatteryResults() []string {
	pat := fixturePatient()
	vars := progVarsFor(pat)
	c04BatteryElements(vars)
	us := func(y int, mo time.Month, d, h, mi, sec, ms int, off int) int64 {
		return time.Date(y, mo, d, h, mi, sec, ms*1e6, time.FixedZone("", off)).UnixMicro()
	}
	vars["ftm"] = &dtpb.Time{ValueUs: (8*3600 + 30*60) * 1e6, Precision: dtpb.Time_SECOND}
	vars["ftms"] = &dtpb.Time{ValueUs: (23*3600+59*60+59)*1e6 + 250000, Precision: dtpb.Time_MILLISECOND}
	vars["fd"] = &dtpb.Date{ValueUs: us(2020, 1, 1, 0, 0, 0, 0, 9*3600), Timezone: "+09:00", Precision: dtpb.Date_DAY}
	vars["fdm"] = &dtpb.Date{ValueUs: us(2020, 3, 1, 0, 0, 0, 0, -5*3600), Timezone: "-05:00", Precision: dtpb.Date_MONTH}
	vars["fdt"] = &dtpb.DateTime{ValueUs: us(2020, 1, 1, 10, 0, 0, 0, 19800), Timezone: "+05:30", Precision: dtpb.DateTime_SECOND}
	vars["fdd"] = &dtpb.DateTime{ValueUs: us(2020, 1, 1, 0, 0, 0, 0, -3*3600-1800), Timezone: "-03:30", Precision: dtpb.DateTime_DAY}
	vars["fin"] = &dtpb.Instant{ValueUs: us(2020, 6, 1, 23, 59, 59, 999, 14*3600), Timezone: "+14:00", Precision: dtpb.Instant_MILLISECOND}
	var out []string
	for _, src := range c04Battery {
		e, err := fhirpath.Compile(src)
		if err != nil {
			out = append(out, src+" → compile error")
			continue
		}
		var eopts []fhirpath.EvaluateOption
		for _, n := range sortedKeys(vars) {
			eopts = append(eopts, evalopts.EnvVariable(n, vars[n]))
		}
		coll, err := e.Evaluate([]fhir.Resource{pat}, eopts...) // no OverrideTime: the wall clock and TZ are in play
		if err != nil {
			out = append(out, src+" → error "+err.Error())
			continue
		}
		out = append(out, src+" → "+renderColl(coll))
	}
	return out
}

func TestC04TZChild(t *testing.T) {
	if os.Getenv("VERIF_C04_TZCHILD") == "" {
		t.Skip("helper process only")
	}
	b, _ := json.Marshal(c04BatteryResults())
	fmt.Printf("BATTERY %s\n", b)
}

type c04TZCase struct {
	Zones []string `json:"zones"`
}

func c04EnumTZ(yield func(c04TZCase)) {
	yield(c04TZCase{Zones: []string{"UTC", "Asia/Kolkata", "America/St_Johns", "Pacific/Chatham"}})
}

func c04RunTZ(ctx *Ctx, c c04TZCase) {
	ctx.Eval("tz-matrix", true, "stage:tz-matrix")
	results := map[string][]string{}
	for _, z := range c.Zones {
		cmd := exec.Command(os.Args[0], "-test.run", "^TestC04TZChild$", "-test.v")
		cmd.Env = append(os.Environ(), "TZ="+z, "VERIF_C04_TZCHILD=1", "VERIF_OUT=", "VERIF_REPLAY=")
		b, err := cmd.CombinedOutput()
		if err != nil {
			ctx.Fail("harness: TZ child process failed", fmt.Sprintf("TZ=%s: %v\n%s", z, err, clip(string(b), 1500)))
			return
		}
		var res []string
		for _, line := range strings.Split(string(b), "\n") {
			if strings.HasPrefix(line, "BATTERY ") {
				json.Unmarshal([]byte(strings.TrimPrefix(line, "BATTERY ")), &res)
			}
		}
		if len(res) != len(c04Battery) {
			ctx.Fail("harness: TZ child produced no battery", clip(string(b), 1500))
			return
		}
		results[z] = res
		ctx.r.count("tz_child_evaluations", int64(len(res)))
	}
	ref := results[c.Zones[0]]
	for _, z := range c.Zones[1:] {
		for i := range ref {
			if results[z][i] != ref[i] {
				ctx.Fail("time: a result depends on the process time zone", fmt.Sprintf("TZ=%s: %s\nTZ=%s: %s", c.Zones[0], ref[i], z, results[z][i]))
				return
			}
		}
	}
}

// --- (c) Compile isolation: a generated history of Compile calls -----------------------------

type c04Compile struct {
	Kind string `json:"kind"` // fresh dup builtin experimental permissive patch plain variadic bad
	Name string `json:"name"`
}

type c04IsoCase struct {
	Steps []c04Compile `json:"steps"`
}

func c04GenIso(s Src) c04IsoCase {
	var c c04IsoCase
	names := []string{"fa", "fb", "fc"}
	for i := 0; i < s.Range(1, 10); i++ {
		c.Steps = append(c.Steps, c04Compile{Kind: pickOne(s, []string{"fresh", "fresh", "dup", "builtin", "experimental", "permissive", "patch", "plain", "plain", "variadic", "bad", "fresh+exp", "exp+fresh", "fresh+exp", "join-clash", "join-alone", "join-clash", "dup-same", "dup-same"}), Name: pickOne(s, names)})
	}
	return c
}

type tableSnap struct {
	names []string
	meta  map[string]string
}

func c04TableSnap() tableSnap {
	t := funcs.Clone()
	ts := tableSnap{meta: map[string]string{}}
	for k, f := range t {
		ts.names = append(ts.names, k)
		ts.meta[k] = fmt.Sprintf("%d..%d@%x", f.MinArity, f.MaxArity, reflect.ValueOf(f.Func).Pointer())
	}
	sort.Strings(ts.names)
	return ts
}

func c04BuiltinBattery() string {
	vars := fnVars()
	var sb strings.Builder
	for _, sp := range fnSpecs {
		if sp.Example == "" || sp.Spec == "STU" {
			continue
		}
		out := evalWith(sp.Example, fixtureInput(fixturePatient()), vars)
		sb.WriteString(sp.Name + "=" + out.String() + ";")
	}
	return sb.String()
}

func c04RunIso(ctx *Ctx, c c04IsoCase) {
	table0 := c04TableSnap()
	battery0 := c04BuiltinBattery()
	registered := map[string]bool{}
	hasRegThenPlain := false
	var history []string
	check := func(step string) bool {
		// invariant after every step
		if t := c04TableSnap(); !reflect.DeepEqual(t, table0) {
			ctx.Fail("isolation: the base function table changed", strings.Join(history, "\n"))
			return false
		}
		for name := range registered {
			if _, err := fhirpath.Compile("Patient.name." + name + "(1)"); err == nil {
				ctx.Fail("isolation: a function registered in one Compile call resolves in another", strings.Join(history, "\n")+"\nthen Compile(\"Patient.name."+name+"(1)\") succeeded")
				return false
			}
		}
		for name := range registered {
			if _, err := fhirpath.Compile("Patient.name."+name+"(1)", compopts.WithExperimentalFuncs()); err == nil {
				ctx.Fail("isolation: a function registered in one Compile call resolves in another (with WithExperimentalFuncs)", strings.Join(history, "\n")+"\nthen Compile(\"Patient.name."+name+"(1)\", WithExperimentalFuncs()) succeeded")
				return false
			}
		}
		if _, err := fhirpath.Compile("Patient.name.given.join(',')"); err == nil {
			ctx.Fail("isolation: experimental function available without WithExperimentalFuncs", strings.Join(history, "\n"))
			return false
		}
		return true
	}
	// option values are created once per name and reused by every later step: an option is a
	// value, and what it does may depend on the Compile call it is applied to, not on its past
	// both spellings of the option (compopts.AddFunction, fhirpath.WithFunction), alternating
	nAdd := len(c.Steps)
	add := func(name string, fn any) fhirpath.CompileOption {
		nAdd++
		return addFnV(nAdd, name, fn)
	}
	optByName := map[string]fhirpath.CompileOption{}
	addFn := func(name string) fhirpath.CompileOption {
		if o, ok := optByName[name]; ok {
			return o
		}
		optByName[name] = add(name, c04MyFn)
		return optByName[name]
	}
	for _, st := range c.Steps {
		var err error
		var e *fhirpath.Expression
		g := guard(func() {
			switch st.Kind {
			case "join-clash":
				e, err = fhirpath.Compile("Patient.name.join(1)", compopts.WithExperimentalFuncs(), addFn("join"))
			case "join-alone":
				e, err = fhirpath.Compile("Patient.name.join(1)", addFn("join"))
			case "fresh":
				e, err = fhirpath.Compile("Patient.name."+st.Name+"(1)", addFn(st.Name))
			case "fresh+exp":
				e, err = fhirpath.Compile("Patient.name."+st.Name+"(1)", add(st.Name, c04MyFn), compopts.WithExperimentalFuncs())
			case "exp+fresh":
				e, err = fhirpath.Compile("Patient.name."+st.Name+"(1)", compopts.WithExperimentalFuncs(), add(st.Name, c04MyFn))
			case "dup":
				e, err = fhirpath.Compile("Patient.name."+st.Name+"(1)", add(st.Name, c04MyFn), add(st.Name, c04MyFn))
			case "dup-same":
				// the very option value that other steps of the history use alone, given twice
				e, err = fhirpath.Compile("Patient.name."+st.Name+"(1)", addFn(st.Name), addFn(st.Name))
			case "builtin":
				e, err = fhirpath.Compile("Patient.name.count()", add("count", c04MyFn))
			case "experimental":
				e, err = fhirpath.Compile("Patient.name.given.join(',')", compopts.WithExperimentalFuncs())
			case "permissive":
				e, err = fhirpath.Compile("Patient.name.given", compopts.Permissive())
			case "patch":
				_, err = patch.Compile("Patient.name.given", add(st.Name, c04MyFn))
			case "plain":
				e, err = fhirpath.Compile("Patient.name.given.count()")
			case "variadic":
				e, err = fhirpath.Compile("1", add(st.Name, func(in system.Collection, xs ...system.Any) (system.Collection, error) { return in, nil }))
			case "bad":
				e, err = fhirpath.Compile("1", add(st.Name, 42))
			}
		})
		history = append(history, fmt.Sprintf("Compile[%s %s] → err=%v", st.Kind, st.Name, err))
		if g.Panic != "" {
			ctx.Fail("isolation: Compile panics: "+g.Panic, strings.Join(history, "\n"))
			return
		}
		switch st.Kind {
		case "join-clash":
			if err == nil {
				ctx.Fail("isolation: an experimental function can be replaced by AddFunction", strings.Join(history, "\n"))
				return
			}
		case "join-alone":
			if err != nil || e == nil {
				ctx.Fail("isolation: a custom function named like an experimental one is refused although the experimental functions are not enabled (a failure of an earlier Compile call sticks to the option value?)", strings.Join(history, "\n"))
				return
			}
			if out, eerr := e.Evaluate(fixtureInput(fixturePatient())); eerr != nil || renderColl(out) != "[Integer:1, Integer:4]" {
				ctx.Fail("isolation: the registered function is not the one invoked", strings.Join(history, "\n")+fmt.Sprintf("\n→ %s %v", renderColl(out), eerr))
				return
			}
		case "fresh", "fresh+exp", "exp+fresh":
			if err != nil || e == nil {
				ctx.Fail("isolation: registering a fresh function name fails (a name registered by an earlier call is still present?)", strings.Join(history, "\n"))
				return
			}
			out, eerr := e.Evaluate(fixtureInput(fixturePatient()))
			if eerr != nil || renderColl(out) != "[Integer:1, Integer:4]" {
				ctx.Fail("isolation: the registered function is not the one invoked", strings.Join(history, "\n")+fmt.Sprintf("\n→ %s %v", renderColl(out), eerr))
				return
			}
			registered[st.Name] = true
		case "patch":
			registered[st.Name] = true
		case "dup", "dup-same":
			if err == nil {
				ctx.Fail("isolation: registering one name twice in a Compile call is accepted", strings.Join(history, "\n"))
				return
			}
		case "builtin":
			if err == nil {
				ctx.Fail("isolation: a built-in function name can be replaced", strings.Join(history, "\n"))
				return
			}
		case "experimental", "permissive":
			if err != nil {
				ctx.Fail("isolation: "+st.Kind+" option fails", strings.Join(history, "\n"))
				return
			}
		case "plain":
			if err != nil {
				ctx.Fail("isolation: a plain Compile fails after other Compile calls", strings.Join(history, "\n"))
				return
			}
			if len(registered) > 0 {
				hasRegThenPlain = true
			}
		case "bad":
			if err == nil {
				ctx.Fail("isolation: a non-function is accepted by AddFunction", strings.Join(history, "\n"))
				return
			}
		}
		if !check(st.Kind) {
			return
		}
	}
	if b := c04BuiltinBattery(); b != battery0 {
		ctx.Fail("isolation: built-in functions behave differently after the Compile history", strings.Join(history, "\n"))
	}
	ctx.Eval(fmt.Sprint(c.Steps), hasRegThenPlain, "stage:compile-isolation")
}

// --- (e) results handed out earlier stay what they were ---------------------------------

// One compiled expression is evaluated on resource A, then on resource B (same type), then
// on A again.  The collection returned for A first must still hold A's elements afterwards
// (a compiled expression keeps no buffer that later evaluations overwrite), and the second
// evaluation on A must return the same elements.
type c04KeepCase struct {
	A, B string `json:"-"`
	TA   string `json:"a"`
	TB   string `json:"b"`
	Path string `json:"path"`
}

func c04GenKeep(s Src) c04KeepCase {
	typ := allResTypes[s.Intn(len(allResTypes))].Name
	if s.Prob(30) {
		typ = "Patient"
	}
	a := genResource(s, typ, defaultGen)
	bo := defaultGen
	if s.Prob(30) {
		bo = smallGen
	}
	b := genResource(s, typ, bo)
	c := c04KeepCase{TA: resToText(a), TB: resToText(b), Path: typ}
	if root, _, err := buildTree(a); err == nil {
		var paths []string
		root.walk(func(n *Node) {
			if pn := n.pathNames(); len(pn) > 0 && len(pn) <= 4 {
				paths = append(paths, typ+"."+strings.Join(pn, "."))
			}
		})
		if len(paths) > 0 {
			c.Path = pickOne(s, paths) + pickOne(s, []string{"", "", "", ".where(true)", ".tail()", ".select($this)", ".take(5)", ".children()", " is Element", ".exists()", ".empty()", ".count()", ".first() is " + typ, ".select($this is Element)", ".toString()"})
		}
		if s.Prob(25) {
			// results produced by every operator kind at the root (what an operator returns belongs to the caller too)
			c.Path = "(" + c.Path + ")" + pickOne(s, []string{" and true", " or false", " xor true", " implies false", ".exists() and true", ".exists() or false", ".empty() xor false", ".exists() implies true", ".empty() and {}", ".exists() or {}", ".count() + 1", ".count() = 0", ".count() > 0", ".count() & 'x'", ".exists().not()", ".exists() is Boolean", ".count() as Integer"})
		}
		if s.Prob(8) {
			c.Path = pickOne(s, []string{"true and true", "true and false", "{} and true", "false or false", "true or false", "{} or false", "true xor true", "true xor false", "{} xor true", "true implies false", "false implies false", "{} implies false", "true.not()", "1 = 1", "1 != 1", "1 < 2", "{} = 1"})
		}
		if s.Prob(8) {
			c.Path = genProgram(s, 3, 0).min()
		}
		if s.Prob(10) {
			// results that are, or are cut from, the root collection itself
			c.Path = pickOne(s, []string{"$this", "%context", "%context.take(1)", "$this.tail()", typ, "$this is " + typ, "%context.skip(0)"})
		}
	}
	return c
}

func c04RunKeep(ctx *Ctx, c c04KeepCase) {
	ra, e1 := resFromText(c.TA)
	rb, e2 := resFromText(c.TB)
	if e1 != nil || e2 != nil {
		ctx.Fail("harness: cannot decode case", fmt.Sprint(e1, e2))
		return
	}
	if strings.Contains(c.Path, ".div") {
		return
	}
	e, err := fhirpath.Compile(c.Path)
	if err != nil {
		ctx.Eval(c.TA+c.Path, false, "stage:retained-results", "outcome:compile-error")
		return
	}
	var first, second, third system.Collection
	var err1, err2, err3 error
	g := guard(func() {
		first, err1 = e.Evaluate([]fhir.Resource{ra.(fhir.Resource)}, evalopts.OverrideTime(fixedNow))
	})
	if g.Panic != "" || err1 != nil {
		ctx.Eval(c.TA+c.Path, false, "stage:retained-results", "outcome:error")
		return
	}
	ids := make([]string, len(first))
	rend := make([]string, len(first)) // renderings only: synthesised items (reference strings) are new objects every time
	for i, x := range first {
		ids[i] = itemID(x) + "|" + renderItem(x)
		rend[i] = renderItem(x)
	}
	g = guard(func() {
		second, err2 = e.Evaluate([]fhir.Resource{rb.(fhir.Resource)}, evalopts.OverrideTime(fixedNow))
		third, err3 = e.Evaluate([]fhir.Resource{ra.(fhir.Resource)}, evalopts.OverrideTime(fixedNow))
	})
	ctx.Eval(c.TA+c.TB+c.Path, len(first) > 0 && len(second) > 0, "stage:retained-results", fmt.Sprintf("first-nonempty:%v", len(first) > 0), fmt.Sprintf("second-nonempty:%v", len(second) > 0))
	if g.Panic != "" {
		return // C01
	}
	_ = err2
	if len(first) != len(ids) {
		ctx.Fail("retained result: the collection returned by an earlier evaluation changed its length", c.Path)
		return
	}
	for i, x := range first {
		if got := itemID(x) + "|" + renderItem(x); got != ids[i] {
			ctx.Fail("retained result: the collection returned by an earlier evaluation was overwritten by a later evaluation of the same compiled expression", fmt.Sprintf("%s: item %d was %s, now %s", c.Path, i, clip(ids[i], 120), clip(got, 120)))
			return
		}
	}
	// the caller owns what it was given: it may overwrite the first collection; a later
	// evaluation must not see that
	// ... and it may edit the items that are not nodes of an input (copies the library made
	// for it: unpacked contained resources, reference strings)
	own := map[any]bool{}
	ownNodes(ra.ProtoReflect(), own, 0)
	for _, x := range first {
		if m, ok := x.(proto.Message); ok && !own[m] && !own[m.ProtoReflect()] {
			c04Deface(m.ProtoReflect())
			ctx.Count("retained_results_synthesised_items_defaced")
		}
	}
	for i := range first {
		first[i] = system.String("SCRIBBLED-BY-THE-CALLER")
	}
	for i := range second {
		second[i] = system.String("SCRIBBLED-BY-THE-CALLER")
	}
	var fourth system.Collection
	var err4 error
	if g := guard(func() { fourth, err4 = e.Evaluate([]fhir.Resource{ra.(fhir.Resource)}, evalopts.OverrideTime(fixedNow)) }); g.Panic == "" {
		if err4 != nil || len(fourth) != len(ids) {
			ctx.Fail("retained result: after the caller overwrote the collections it had been given, evaluating again gives another result", fmt.Sprintf("%s: %d items then %d (err %v)", c.Path, len(ids), len(fourth), err4))
			return
		}
		for i, x := range fourth {
			if got := renderItem(x); got != rend[i] {
				ctx.Fail("retained result: after the caller overwrote the collections it had been given, evaluating again gives another result", fmt.Sprintf("%s: item %d is %s, was %s", c.Path, i, clip(got, 120), clip(rend[i], 120)))
				return
			}
		}
	}
	if err3 != nil || len(third) != len(ids) {
		ctx.Fail("retained result: evaluating again on the first resource gives another result", fmt.Sprintf("%s: %d items then %d (err %v)", c.Path, len(ids), len(third), err3))
		return
	}
	for i, x := range third {
		if renderItem(x) != rend[i] {
			ctx.Fail("retained result: evaluating again on the first resource gives another result", fmt.Sprintf("%s: item %d", c.Path, i))
			return
		}
	}
}

// --- (h) colliding keys ----------------------------------------------------------------------

// A memo table keyed by a short hash of a string (a regular expression, a source text, a
// variable name) makes one evaluation depend on an earlier, unrelated one as soon as two keys
// collide.  Random strings never collide, so the pairs were searched for: among 6 000 000 strings
// of one shape, pairs that collide under one of the 32-bit hashes of Go's standard
// library (FNV-1, FNV-1a, CRC-32 IEEE and Castagnoli, Adler-32, and the folded 64-bit FNVs).
// For every pair (A, B) the programs about A run first, then the programs about B, whose
// results are known without the library.
type c04CollideCase struct {
	Hash string `json:"hash"`
	A    string `json:"a"`
	B    string `json:"b"`
}

// pairs found once by an exhaustive search over the first 6 000 000 strings of each shape
// (adversarial inputs, not properties of the code under test); every pair is re-verified
// when the stage starts, so a wrong entry is a harness error, never a violation
var c04CollideTable = [][4]string{
	{"fnv32", "^K-%d$", "679727", "1081000"}, {"fnv32", "^K-%d$", "679726", "1081001"},
	{"fnv32a", "^K-%d$", "14718", "1330442"}, {"fnv32a", "^K-%d$", "14719", "1330443"},
	{"crc32-castagnoli", "^K-%d$", "1371838", "2000402"}, {"crc32-castagnoli", "^K-%d$", "1371839", "2000403"},
	{"adler32", "^K-%d$", "120", "201"}, {"adler32", "^K-%d$", "121", "202"},
	{"fnv64a-folded", "^K-%d$", "6400", "98931"}, {"fnv64a-folded", "^K-%d$", "72422", "100157"},
	{"fnv64a-low", "^K-%d$", "1128781", "1732490"}, {"fnv64a-low", "^K-%d$", "1128780", "1732491"},
	{"fnv64-low", "^K-%d$", "578189", "1175884"}, {"fnv64-low", "^K-%d$", "578188", "1175885"},
	{"fnv32", "K-%d", "1049599", "1212382"}, {"fnv32", "K-%d", "1049598", "1212383"},
	{"fnv32a", "K-%d", "73859", "725424"}, {"fnv32a", "K-%d", "73858", "725425"},
	{"crc32-castagnoli", "K-%d", "1371838", "2000402"}, {"crc32-castagnoli", "K-%d", "1371839", "2000403"},
	{"adler32", "K-%d", "120", "201"}, {"adler32", "K-%d", "121", "202"},
	{"fnv64a-folded", "K-%d", "44489", "46387"}, {"fnv64a-folded", "K-%d", "76949", "111077"},
	{"fnv64a-low", "K-%d", "274991", "802880"}, {"fnv64a-low", "K-%d", "274990", "802881"},
	{"fnv64-low", "K-%d", "758781", "902490"}, {"fnv64-low", "K-%d", "758780", "902491"},
}

var c04Hashes = map[string]func(string) uint32{
	"fnv32":            func(x string) uint32 { h := fnv.New32(); h.Write([]byte(x)); return h.Sum32() },
	"fnv32a":           func(x string) uint32 { h := fnv.New32a(); h.Write([]byte(x)); return h.Sum32() },
	"crc32-castagnoli": func(x string) uint32 { return crc32.Checksum([]byte(x), crc32.MakeTable(crc32.Castagnoli)) },
	"adler32":          func(x string) uint32 { return adler32.Checksum([]byte(x)) },
	"fnv64a-folded":    func(x string) uint32 { h := fnv.New64a(); h.Write([]byte(x)); v := h.Sum64(); return uint32(v) ^ uint32(v>>32) },
	"fnv64a-low":       func(x string) uint32 { h := fnv.New64a(); h.Write([]byte(x)); return uint32(h.Sum64()) },
	"fnv64-low":        func(x string) uint32 { h := fnv.New64(); h.Write([]byte(x)); return uint32(h.Sum64()) },
}

func c04EnumCollide(yield func(c04CollideCase)) {
	for _, e := range c04CollideTable {
		yield(c04CollideCase{Hash: e[0] + " of " + e[1], A: e[2], B: e[3]})
	}
}

func c04RunCollide(ctx *Ctx, c c04CollideCase) {
	ctx.Eval(c.Hash+c.A+c.B, true, "stage:colliding-keys", "hash:"+c.Hash)
	a, b := "K-"+c.A, "K-"+c.B
	if hp := strings.SplitN(c.Hash, " of ", 2); len(hp) == 2 {
		h := c04Hashes[hp[0]]
		if h == nil || c.A == c.B || h(strings.Replace(hp[1], "%d", c.A, 1)) != h(strings.Replace(hp[1], "%d", c.B, 1)) {
			ctx.Fail("harness: the table of colliding keys has an entry that does not collide", fmt.Sprint(c))
			return
		}
	}
	type prog struct {
		src  string
		vars map[string]any
		want string
	}
	about := func(x, other string) []prog {
		return []prog{
			{"'" + x + "'.matches('^" + x + "$')", nil, "[Boolean:true]"},
			{"'" + other + "'.matches('^" + x + "$')", nil, "[Boolean:false]"},
			{"'" + x + "'.replaceMatches('^" + x + "$', 'r')", nil, `[String:"r"]`},
			{"'" + other + "'.replaceMatches('^" + x + "$', 'r')", nil, `[String:"` + other + `"]`},
			{"'" + x + "'.replace('" + x + "', 'r')", nil, `[String:"r"]`},
			{"'" + x + "'", nil, `[String:"` + x + `"]`},
			{"'^" + x + "$'", nil, `[String:"^` + x + `$"]`},
			{"'" + x + "' = '" + other + "'", nil, "[Boolean:false]"},
			{"'" + x + "'.indexOf('" + other + "')", nil, "[Integer:-1]"},
			{"('" + x + "' | '" + other + "').count()", nil, ""},
			{"%`" + x + "`", map[string]any{x: system.String("v" + x), other: system.String("v" + other)}, `[String:"v` + x + `"]`},
			{"'" + x + "'.toString() & '" + other + "'", nil, `[String:"` + x + other + `"]`},
		}
	}
	for _, p := range append(about(a, b), about(b, a)...) {
		out := evalWith(p.src, nil, p.vars)
		if out.Panic != "" {
			ctx.Fail("colliding keys: panic@"+out.Panic, p.src)
			return
		}
		if p.want == "" || out.CompileErr != nil {
			continue
		}
		if out.Err != nil || renderColl(out.Coll) != p.want {
			ctx.Fail("colliding keys: a result depends on an earlier evaluation whose pattern/literal/name collides with this one under "+strings.SplitN(c.Hash, " ", 2)[0], fmt.Sprintf("after the programs about %q: %s → %s, want %s", a, p.src, out, p.want))
			return
		}
	}
}

// c04Deface overwrites every scalar string/bytes field of a message tree and clears its
// repeated fields (the message belongs to the caller).
func c04Deface(m protoreflect.Message) {
	m.Range(func(fd protoreflect.FieldDescriptor, v protoreflect.Value) bool {
		switch {
		case fd.IsList():
			m.Clear(fd)
		case fd.IsMap():
		case fd.Kind() == protoreflect.StringKind:
			m.Set(fd, protoreflect.ValueOfString("defaced"))
		case fd.Kind() == protoreflect.MessageKind:
			c04Deface(v.Message())
		}
		return true
	})
}

// --- (f) the result follows the input when the caller edits it in place --------------------

// One compiled expression is evaluated on a resource; the caller then edits the resource in
// place - the value of every primitive element, and the content of every Any-packed contained
// resource re-packed into the same Any - and evaluates again.  The second result must be what
// a freshly compiled expression gives on a deep copy of the edited resource: nothing learnt
// about the first state of the input may survive (memoised conversions, unpacked copies).
type c04EditCase struct {
	Res  string `json:"res"`
	Path string `json:"path"`
}

func c04GenEdit(s Src) c04EditCase {
	typ := allResTypes[s.Intn(len(allResTypes))].Name
	if s.Prob(30) {
		typ = "Patient"
	}
	o := defaultGen
	o.Contained = s.Prob(60)
	a := genResource(s, typ, o)
	c := c04EditCase{Res: resToText(a), Path: typ}
	if root, _, err := buildTree(a); err == nil {
		var paths []string
		root.walk(func(n *Node) {
			if pn := n.pathNames(); len(pn) > 0 && len(pn) <= 5 && (n.Prim || n.ViaAny || s.Prob(20)) {
				paths = append(paths, typ+"."+strings.Join(pn, "."))
			}
		})
		if len(paths) > 0 {
			c.Path = pickOne(s, paths) + pickOne(s, []string{".toString()", ".toString()", "", ".select($this.toString())", ".select($this = $this)", ".where($this.toString().exists())", ".count()"})
		}
	}
	return c
}

// c04EditInPlace changes the value of every primitive element below m (same messages, new
// values) and re-packs every Any with its edited content.
func c04EditInPlace(m protoreflect.Message, depth int) {
	if depth > 40 {
		return
	}
	if a, ok := m.Interface().(*anypb.Any); ok {
		if inner, err := a.UnmarshalNew(); err == nil {
			c04EditInPlace(inner.ProtoReflect(), depth+1)
			_ = a.MarshalFrom(inner)
		}
		return
	}
	md := m.Descriptor()
	if isPrimitiveMD(md) {
		if vf := md.Fields().ByName("value"); vf != nil && m.Has(vf) {
			switch vf.Kind() {
			case protoreflect.StringKind:
				v := m.Get(vf).String()
				if md.Name() == "Decimal" {
					if !strings.Contains(v, ".") {
						v += ".0"
					}
					m.Set(vf, protoreflect.ValueOfString(v+"7"))
				} else {
					m.Set(vf, protoreflect.ValueOfString(v+"x"))
				}
			case protoreflect.BoolKind:
				m.Set(vf, protoreflect.ValueOfBool(!m.Get(vf).Bool()))
			case protoreflect.Int32Kind, protoreflect.Sint32Kind:
				if v := m.Get(vf).Int(); v < 1000000 {
					m.Set(vf, protoreflect.ValueOfInt32(int32(v)+1))
				}
			case protoreflect.Uint32Kind:
				if v := m.Get(vf).Uint(); v < 1000000 {
					m.Set(vf, protoreflect.ValueOfUint32(uint32(v)+1))
				}
			}
		}
		if vf := md.Fields().ByName("value_us"); vf != nil && m.Has(vf) && md.Name() != "Time" {
			if v := m.Get(vf).Int(); v > -50e15 && v < 200e15 {
				m.Set(vf, protoreflect.ValueOfInt64(v+86400e6*400))
			}
		}
	}
	m.Range(func(fd protoreflect.FieldDescriptor, v protoreflect.Value) bool {
		if fd.Message() == nil || fd.IsMap() {
			return true
		}
		if fd.IsList() {
			for i := 0; i < v.List().Len(); i++ {
				c04EditInPlace(v.List().Get(i).Message(), depth+1)
			}
			return true
		}
		c04EditInPlace(v.Message(), depth+1)
		return true
	})
}

func c04RunEdit(ctx *Ctx, c c04EditCase) {
	ra, err := resFromText(c.Res)
	if err != nil {
		ctx.Fail("harness: cannot decode case", err.Error())
		return
	}
	if strings.Contains(c.Path, ".div") {
		return
	}
	e, cerr := fhirpath.Compile(c.Path)
	if cerr != nil {
		ctx.Eval(c.Res+c.Path, false, "stage:in-place-edits", "outcome:compile-error")
		return
	}
	var first, second, fresh system.Collection
	var err1, err2, err3 error
	g := guard(func() { first, err1 = e.Evaluate([]fhir.Resource{ra.(fhir.Resource)}, evalopts.OverrideTime(fixedNow)) })
	if g.Panic != "" {
		return // C01
	}
	before := renderColl(first)
	c04EditInPlace(ra.ProtoReflect(), 0)
	cp := proto.Clone(ra)
	g = guard(func() {
		second, err2 = e.Evaluate([]fhir.Resource{ra.(fhir.Resource)}, evalopts.OverrideTime(fixedNow))
		if e2, cerr2 := fhirpath.Compile(c.Path + " "); cerr2 == nil { // another source text: another compilation
			fresh, err3 = e2.Evaluate([]fhir.Resource{cp.(fhir.Resource)})
		} else {
			err3 = cerr2
		}
	})
	if g.Panic != "" {
		return
	}
	after, want := renderColl(second), renderColl(fresh)
	ctx.Eval(c.Res+c.Path, err1 == nil && before != want, "stage:in-place-edits", fmt.Sprintf("edit-visible:%v", before != want), fmt.Sprintf("via-contained:%v", strings.Contains(c.Path, ".contained")))
	if (err2 != nil) != (err3 != nil) || (err2 == nil && after != want) {
		ctx.Fail("in-place edit: after the caller edited the resource, the compiled expression does not give what a fresh compilation gives on a copy of the edited resource", fmt.Sprintf("%s\nbefore the edit: %s\nafter the edit : %s (err %v)\nfresh on a copy : %s (err %v)", c.Path, clip(before, 300), clip(after, 300), err2, clip(want, 300), err3))
	}
}

var _ = proto.Equal


// --- (g) evaluate options are per evaluation ------------------------------------------------

// One compiled expression is evaluated with a history of different environment-variable values
// (first values, other values, the first values again).  Every result must be what a freshly
// compiled expression gives with the same options: the expression may not remember a value of
// %var (or anything computed from it: a compiled pattern, a folded constant) from an earlier
// evaluation.  Variables stand at the receiver and argument positions of every function of the
// specification list and at both sides of every binary operator; their values come from the
// boundary pool of the kind the position expects.

type c04OptCase struct {
	Tmpl string     `json:"tmpl"`
	Vals [][]string `json:"vals"` // per evaluation, per variable %v<i>: the literal whose value it gets
}

var c04BinOps = []string{"+", "-", "*", "/", "div", "mod", "&", "=", "!=", "~", "!~", "<", "<=", ">", ">=", "|", "in", "contains", "and", "or", "xor", "implies"}

func c04GenOpt(s Src) c04OptCase {
	var kinds [][]string // candidate literals per variable
	v := func(terms []string) string {
		kinds = append(kinds, terms)
		return fmt.Sprintf("%%v%d", len(kinds)-1)
	}
	var tmpl string
	if s.Prob(60) {
		spec := pickOne(s, fnSpecs)
		part := func(p string) string {
			if ts := c01KindTerms(p); ts != nil && s.Prob(70) {
				return v(ts)
			}
			return p
		}
		recv := part(spec.Recv)
		var args []string
		n := s.Range(spec.Min, spec.Max)
		for i := 0; i < n && i < len(spec.Args); i++ {
			args = append(args, part(spec.Args[i]))
		}
		tmpl = recv + "." + spec.Name + "(" + strings.Join(args, ", ") + ")"
		if len(kinds) == 0 {
			// no literal position: make the receiver's filter depend on a variable
			tmpl = "(" + tmpl + ").select($this.toString() & " + v(c01KindLits["String"]) + ")"
		}
	} else {
		k := pickOne(s, []string{"Integer", "num", "Decimal", "String", "Boolean", "Date", "DateTime", "Time", "Quantity"})
		k2 := k
		if s.Prob(20) {
			k2 = pickOne(s, []string{"Integer", "num", "String", "Boolean", "Date", "DateTime", "Quantity"})
		}
		if len(c01KindLits[k]) == 0 || len(c01KindLits[k2]) == 0 {
			k, k2 = "Integer", "Integer"
		}
		op := pickOne(s, c04BinOps)
		l, r := v(c01KindLits[k]), v(c01KindLits[k2])
		if s.Prob(25) { // one side a literal
			r = pickOne(s, c01KindLits[k2])
		}
		tmpl = l + " " + op + " " + r
		switch s.Intn(5) {
		case 0:
			tmpl = "iif(" + tmpl + ", " + v(c01KindLits["String"]) + ", 'no')"
		case 1:
			tmpl = "%ints.select($this.toString() & (" + tmpl + ").toString())"
		case 2:
			tmpl = "(" + tmpl + ") " + pickOne(s, c04BinOps) + " " + v(c01KindLits[k])
		}
	}
	c := c04OptCase{Tmpl: tmpl}
	draw := func() []string {
		var out []string
		for _, ts := range kinds {
			out = append(out, pickOne(s, ts))
		}
		return out
	}
	first := draw()
	c.Vals = [][]string{first, draw(), first}
	if s.Prob(30) {
		c.Vals = append(c.Vals, draw(), first)
	}
	return c
}

var c04LitValues sync.Map // literal text → value (system.Collection or a single item)

func c04LitValue(lit string) (any, bool) {
	if v, ok := c04LitValues.Load(lit); ok {
		return v, v != nil
	}
	var out any
	if e, err := fhirpath.Compile(lit); err == nil {
		if coll, err := e.Evaluate([]fhir.Resource{fixturePatient()}, evalopts.OverrideTime(fixedNow)); err == nil {
			if len(coll) == 1 {
				out = coll[0]
			} else {
				out = coll
			}
		}
	}
	c04LitValues.Store(lit, out)
	return out, out != nil
}

func c04RunOpt(ctx *Ctx, c c04OptCase) {
	p := fixturePatient()
	input := fixtureInput(p)
	base := progVarsFor(p)
	optsFor := func(vals []string) ([]fhirpath.EvaluateOption, bool) {
		vars := map[string]any{}
		for k, x := range base {
			vars[k] = x
		}
		for i, lit := range vals {
			x, ok := c04LitValue(lit)
			if !ok {
				return nil, false
			}
			vars[fmt.Sprintf("v%d", i)] = x
		}
		names := make([]string, 0, len(vars))
		for k := range vars {
			names = append(names, k)
		}
		sort.Strings(names)
		var eopts []fhirpath.EvaluateOption
		for _, k := range names {
			eopts = append(eopts, evalopts.EnvVariable(k, vars[k]))
		}
		return append(eopts, evalopts.OverrideTime(fixedNow)), true
	}
	shared, err := fhirpath.Compile(c.Tmpl)
	if err != nil {
		ctx.Eval(c.Tmpl, false, "stage:changing-options", "outcome:compile-error")
		return
	}
	var fresh []string
	for round, vals := range c.Vals {
		eopts, ok := optsFor(vals)
		if !ok {
			ctx.Count("changing_options_literal_without_value")
			return
		}
		var got, want c04Result
		g := guard(func() {
			got = c04EvalOnce(shared, input, eopts)
			e2, err := fhirpath.Compile(c.Tmpl)
			if err != nil {
				want = c04Result{err: "compile: " + err.Error()}
				return
			}
			want = c04EvalOnce(e2, input, eopts)
		})
		if g.Panic != "" || strings.HasPrefix(got.err, "panic") || strings.HasPrefix(want.err, "panic") {
			return // C01
		}
		fresh = append(fresh, want.render+"|"+fmt.Sprint(want.err != ""))
		if got.render != want.render || (got.err != "") != (want.err != "") {
			ctx.Eval(c.Tmpl+fmt.Sprint(c.Vals), true, "stage:changing-options")
			ctx.Fail("evaluate options: an expression evaluated before with other variable values gives another result than a freshly compiled one",
				fmt.Sprintf("%s, evaluation %d with %v (history %v): shared expression %s %s, fresh expression %s %s", c.Tmpl, round+1, vals, c.Vals[:round], clip(got.render, 200), got.err, clip(want.render, 200), want.err))
			return
		}
	}
	ctx.Eval(c.Tmpl+fmt.Sprint(c.Vals), len(fresh) > 1 && fresh[0] != fresh[1], "stage:changing-options", fmt.Sprintf("value-dependent:%v", len(fresh) > 1 && fresh[0] != fresh[1]))
}

func TestC04(t *testing.T) {
	r := newRec("C04",
		"(concurrent) a history is 1..6 compiled expressions (a pool of read-heavy programs using where/select/exists/all/iif/now()/variables/a custom function, plus generated programs), the fixture Patient + 0..2 generated resources shared by all goroutines, 2..16 goroutines each with 1..20 (expression, resource subset, option set) evaluations (60% of them the same expression on the same resource), a drawn start order behind a barrier, GOMAXPROCS ∈ {1,2,4,16} and 0..3 goroutines calling Compile/patch.Compile with AddFunction/WithExperimentalFuncs meanwhile; run in a -race binary; oracle: race detector silent, every concurrent result (rendering and element pointers) equals the same evaluation performed alone beforehand, shared resources unchanged.  (time) instants around epoch/leap day/DST changes/year 9999 in 13 zones: now()/today()/timeOfDay() under OverrideTime, one instant per evaluation spanning ≥ 6 ms with and without override, repeatability.  (changing-options) one compiled expression - variables at the receiver/argument positions of every specification function and at both sides of every binary operator, values from the boundary pool of the kind the position expects - evaluated with first values, other values and the first values again: each result equals that of a freshly compiled expression with the same options.  (tz-matrix) a battery (fixed programs plus literal and element arithmetic, conversions and comparisons for 9 starts around the daylight-saving changes of the matrix zones × 9 offsets × 9 amounts) without OverrideTime in child processes with TZ ∈ {UTC, Asia/Kolkata, America/St_Johns, Pacific/Chatham} must render identically.  (compile-isolation) generated histories of 1..10 Compile calls over {fresh/duplicate/built-in/variadic/non-function AddFunction, WithExperimentalFuncs, AddFunction combined with WithExperimentalFuncs in either order, Permissive, patch.Compile, plain} with the invariant after every step: base table snapshot unchanged, no registered name resolves elsewhere, join only with the experimental option, built-in battery unchanged.  (retained-results) one compiled path (a path of a generated resource A, optionally followed by where/tail/select/take/children) evaluated on A, then on a second resource B of the same type, then on A again: the collection returned first still holds A's elements and the third result equals the first.; the caller then overwrites the collections it was given, defaces the returned items that are not nodes of an input (unpacked contained resources) and evaluates once more (same result); programs include the results of every operator kind at the root, `is`/exists()/count() results, generated programs and results cut from the root collection.  (colliding-keys) pairs of patterns/literals/variable names that collide under the 32-bit hashes of the standard library (found by exhaustive search, re-verified at run time): the programs about one must not change the results of the programs about the other.  (in-place-edits) a compiled path with a conversion (toString(), = …) is evaluated, the caller changes the value of every primitive element in place and re-packs every contained resource into its own Any, and evaluates again: the result must equal a fresh compilation evaluated on a deep copy of the edited resource.  non-trivial = ≥ 2 evaluations of one (expression, resources, options) triple in different goroutines; a history with a registration followed by a plain Compile; distinct = FNV-64 of the history",
		"the Go scheduler is not controlled: only interleavings that occur are judged; the race detector flags conflicting unsynchronised accesses that occur in a run even if they did not overlap in time")
	runProperty(t, r,
		Stage[c04TZCase]{Name: "tz-matrix", Enum: c04EnumTZ, Run: c04RunTZ},
		Stage[c04IsoCase]{Name: "compile-isolation", Gen: c04GenIso, Run: c04RunIso, N: pick(150, 3000)},
		Stage[c04KeepCase]{Name: "retained-results", Gen: c04GenKeep, Run: c04RunKeep, N: pick(600, 8000)},
		Stage[c04CollideCase]{Name: "colliding-keys", Enum: c04EnumCollide, Run: c04RunCollide},
		Stage[c04EditCase]{Name: "in-place-edits", Gen: c04GenEdit, Run: c04RunEdit, N: pick(400, 8000)},
		Stage[c04OptCase]{Name: "changing-options", Gen: c04GenOpt, Run: c04RunOpt, N: pick(1500, 40000)},
		Stage[c04TimeCase]{Name: "time", Gen: c04GenTime, Run: c04RunTime, N: pick(60, 1500)},
		Stage[c04ConcCase]{Name: "concurrent", Gen: c04GenConc, Run: c04RunConc, N: pick(80, 2500)},
	)
}
