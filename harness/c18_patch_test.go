package zzverif

// C18 — FHIRPatch operations change exactly the targeted element, or nothing.
// Oracle: M-PATCH — the operation re-implemented independently with protoreflect on
// a clone of the resource, the target located by the harness's own tree semantics
// (G-TREE); real and model results are compared as whole resources (proto.Equal and
// google/fhir JSON).  A failing call must leave resource and value untouched.

import (
	"unicode"
	"encoding/json"
	"bytes"
	"errors"
	"fmt"
	"github.com/verily-src/fhirpath-go/fhirpath"
	"github.com/verily-src/fhirpath-go/fhirpath/evalopts"
	"github.com/verily-src/fhirpath-go/fhirpath/system"
	"reflect"
	"strings"
	"testing"
	"time"

	apb "github.com/google/fhir/go/proto/google/fhir/proto/annotations_go_proto"
	cpb "github.com/google/fhir/go/proto/google/fhir/proto/r4/core/codes_go_proto"
	dtpb "github.com/google/fhir/go/proto/google/fhir/proto/r4/core/datatypes_go_proto"
	bcrpb "github.com/google/fhir/go/proto/google/fhir/proto/r4/core/resources/bundle_and_contained_resource_go_proto"
	"github.com/verily-src/fhirpath-go/fhirpath/patch"
	"github.com/verily-src/fhirpath-go/internal/fhir"
	"google.golang.org/protobuf/proto"
	"google.golang.org/protobuf/reflect/protoreflect"
)

type c18Op struct {
	Op     string `json:"op"`     // add insert delete replace move
	Steps  []step `json:"steps"`  // path below the root type
	Filter string `json:"filter"` // "" | first | last | where-true | where-false | index0 | extension-url | where-id
	Name   string `json:"name"`   // add: element name
	Value  string `json:"value"`  // same | sibling | wrong | nil | clone-of-target
	Index  int    `json:"index"`
	Pkg    bool   `json:"pkg"`
	Seed   int    `json:"seed,omitempty"` // extra entropy for the value (codes stage)
	// ExtURL: the url of the extension-url filter ("" = http://example.org/a): a url some extension
	// below the target carries, or a near miss of one (other case, a trailing slash, a prefix)
	ExtURL string `json:"ext_url,omitempty"`
}

func (op c18Op) extURL() string {
	if op.ExtURL == "" {
		return "http://example.org/a"
	}
	return op.ExtURL
}

type c18Case struct {
	Res string  `json:"res"`
	Ops []c18Op `json:"ops"`
}

// --- generator -------------------------------------------------------------------

func c18GenOp(s Src, root *Node) c18Op {
	op := c18Op{Op: pickOne(s, []string{"add", "add", "insert", "delete", "delete", "replace", "replace", "move"}), Pkg: s.Prob(20)}
	var nodes []*Node
	nodes = append(nodes, root)
	root.walk(func(n *Node) {
		if !n.ViaAny && !n.Synth {
			nodes = append(nodes, n)
		}
	})
	n := pickOne(s, nodes)
	if n != root {
		mask := 0xffff
		switch s.Intn(4) {
		case 0:
			mask = 0 // un-indexed
		case 1:
			mask = s.Intn(1 << 16)
		}
		op.Steps = c02IndexedSteps(n, mask)
	}
	op.Filter = pickOne(s, []string{"", "", "", "", "first", "last", "where-true", "where-false", "index0", "extension-url", "where-id", "tail", "where-now", "where-not-now", "where-var", "where-noid-empty", "where-noid-not", "where-noid-count", "where-noext-count"})
	// the urls of the extensions the target carries: the filter names one of them, or nearly
	var extURLs []string
	for _, k := range n.Kids["extension"] {
		if x, _ := k.Msg.(*dtpb.Extension); x != nil {
			if u := x.GetUrl().GetValue(); u != "" && !strings.ContainsAny(u, "'\\") {
				extURLs = append(extURLs, u)
			}
		}
	}
	if len(extURLs) > 0 && s.Prob(35) {
		op.Filter = "extension-url"
	}
	if op.Filter == "extension-url" && len(extURLs) > 0 && s.Prob(80) {
		u := pickOne(s, extURLs)
		switch s.Intn(7) {
		case 0, 1:
			op.ExtURL = u
		case 2:
			op.ExtURL = strings.ToUpper(u)
		case 3:
			op.ExtURL = strings.ToUpper(u[:1]) + u[1:]
		case 4:
			op.ExtURL = u + "/"
		case 5:
			op.ExtURL = u[:len(u)-1]
		default:
			// one letter in the other case
			rs := []rune(u)
			i := s.Intn(len(rs))
			if unicode.IsUpper(rs[i]) {
				rs[i] = unicode.ToLower(rs[i])
			} else {
				rs[i] = unicode.ToUpper(rs[i])
			}
			op.ExtURL = string(rs)
		}
	}
	op.Value = pickOne(s, []string{"same", "same", "same", "sibling", "wrong", "nil", "clone-of-target", "namesake"})
	op.Index = s.Range(-1, 4)
	// a decorated primitive (it carries an id or extensions of its own) is substituted as a whole:
	// aim replace operations at those, with a value of the element's type or of a sibling type
	if n != root && n.Prim && n.Msg != nil && (len(n.Kids["id"]) > 0 || len(n.Kids["extension"]) > 0) && s.Prob(45) {
		op.Op, op.Filter = "replace", ""
		op.Steps = c02IndexedSteps(n, 0xffff)
		op.Value = pickOne(s, []string{"same", "sibling", "sibling"})
	}
	if op.Op == "insert" && s.Prob(75) {
		// aim at a whole list: the items of one repeated field of one parent, last step un-indexed
		var lists []*Node
		for _, x := range nodes {
			if x.IsList && x != root {
				lists = append(lists, x)
			}
		}
		if len(lists) > 0 {
			n = pickOne(s, lists)
			op.Steps = c02IndexedSteps(n, 0xffff)
			op.Steps[len(op.Steps)-1].Idx = -1
			// mostly the list itself; sometimes the list (or a part of it) computed inside select()
			// on the parent - the selected items are then not the whole field
			op.Filter = pickOne(s, []string{"", "", "", "", "where-true", "where-true", "select-all", "select-take", "select-first", "select-tail"})
			op.Index = s.Range(-1, len(n.Parent.Kids[n.Name])+1)
			op.Value = pickOne(s, []string{"same", "same", "same", "clone-of-target", "wrong", "nil"})
		}
	}
	// add: an element name of the target type (valid, unknown, snake_case)
	if n.Msg != nil {
		fs := n.Msg.ProtoReflect().Descriptor().Fields()
		var names []string
		for i := 0; i < fs.Len(); i++ {
			// the members of Reference's oneof (uri, fragment, patientId…) are not FHIR elements
			if fs.Get(i).Message() != nil && fs.Get(i).ContainingOneof() == nil {
				names = append(names, fs.Get(i).JSONName())
			}
		}
		if len(names) > 0 && s.Prob(85) {
			op.Name = pickOne(s, names)
		} else {
			op.Name = pickOne(s, []string{"zzNope", "birth_date", "value", "", "given"})
		}
	}
	return op
}

// c18GenCodes: one add or replace of a plain Code on an enum-backed code element, with a
// valid code of the value set or an invalid spelling (foreign, wrong separator, wrong case,
// the proto enum name, camelCase, padded) - "invalid code" is one of the error classes
// the statement names.
func c18GenCodes(s Src) c18Case {
	o := defaultGen
	o.Contained = false
	var res proto.Message
	if s.Prob(20) {
		res = fixturePatient()
	} else {
		res = genAnyResource(s, o)
	}
	c := c18Case{Res: resToText(res)}
	root, _, err := buildTree(res)
	if err != nil {
		return c
	}
	isEnumCode := func(md protoreflect.MessageDescriptor) bool {
		vf := md.Fields().ByName("value")
		return vf != nil && vf.Kind() == protoreflect.EnumKind
	}
	type slot struct {
		n    *Node
		name string
	}
	var present, addable []slot
	visit := func(n *Node) {
		if n.ViaAny || n.Synth || n.Msg == nil {
			return
		}
		md := n.Msg.ProtoReflect().Descriptor()
		if n != root && isEnumCode(md) {
			present = append(present, slot{n: n})
		}
		fs := md.Fields()
		for i := 0; i < fs.Len(); i++ {
			f := fs.Get(i)
			if f.Message() != nil && f.ContainingOneof() == nil && isEnumCode(f.Message()) && (f.IsList() || len(n.Kids[f.JSONName()]) == 0) {
				addable = append(addable, slot{n: n, name: f.JSONName()})
			}
		}
	}
	visit(root)
	root.walk(visit)
	op := c18Op{Value: "sibling", Pkg: s.Prob(20), Seed: 1 + s.Intn(4000)}
	if s.Prob(50) {
		op.Seed = 4 * (1 + s.Intn(1000)) // an invalid spelling
	}
	switch {
	case len(present) > 0 && (len(addable) == 0 || s.Bool()):
		sl := pickOne(s, present)
		op.Op = "replace"
		op.Steps = c02IndexedSteps(sl.n, 0xffff)
	case len(addable) > 0:
		sl := pickOne(s, addable)
		op.Op, op.Name = "add", sl.name
		if sl.n != root {
			op.Steps = c02IndexedSteps(sl.n, 0xffff)
		}
		// a repeated code element: the same valid code added twice with another in between,
		// then the last entry deleted or replaced by its index - every entry is its own element
		if f := fieldByJSON(sl.n.Msg.ProtoReflect().Descriptor(), sl.name); f != nil && f.IsList() && s.Prob(50) {
			have := len(sl.n.Kids[sl.name])
			a, b := op, op
			a.Seed = 4*(1+s.Intn(500)) + 1 // valid codes (not ≡ 0 mod 4)
			b.Seed = a.Seed + 1
			last := append(append([]step{}, op.Steps...), step{Name: sl.name, Idx: have + 2})
			fin := c18Op{Op: pickOne(s, []string{"delete", "delete", "replace"}), Steps: last, Value: "sibling", Seed: b.Seed, Pkg: s.Prob(20)}
			c.Ops = []c18Op{a, b, a, fin}
			return c
		}
	default:
		return c
	}
	c.Ops = []c18Op{op}
	return c
}

// c18GenPopulated: a resource of a drawn type with many populated elements and a history of
// add operations, each naming a scalar element that is already populated (a fresh value of
// the element's own type is offered): every one must be refused and leave the resource as it
// was.  All R4 types come up (Encounter.class, Task.for … included), not only Patient.
func c18GenPopulated(s Src) c18Case {
	typ := allResTypes[s.Intn(len(allResTypes))].Name
	res := genResource(s, typ, genOpts{MaxDepth: 3, Budget: 90, P0: 65, Contained: false})
	c := c18Case{Res: resToText(res)}
	root, _, err := buildTree(res)
	if err != nil {
		return c
	}
	type pair struct {
		parent *Node
		name   string
	}
	var pairs []pair
	visit := func(n *Node) {
		if n.Msg == nil || n.Synth || n.ViaAny || n.Prim {
			return
		}
		for _, name := range n.KidOrder {
			k := n.Kids[name][0]
			if k.IsList || k.Choice || k.Synth || k.ViaAny || k.Msg == nil || name == "id" || name == "div" {
				continue
			}
			pairs = append(pairs, pair{n, name})
		}
	}
	visit(root)
	root.walk(visit)
	for i := 0; i < 12 && len(pairs) > 0; i++ {
		j := s.Intn(len(pairs))
		p := pairs[j]
		pairs = append(pairs[:j], pairs[j+1:]...)
		op := c18Op{Op: "add", Name: p.name, Value: "same", Pkg: s.Prob(20), Seed: 1 + s.Intn(1000)}
		if p.parent != root {
			op.Steps = c02IndexedSteps(p.parent, 0xffff)
		}
		c.Ops = append(c.Ops, op)
	}
	return c
}

func c18Gen(s Src) c18Case {
	o := defaultGen
	o.Contained = s.Prob(15)
	var res proto.Message
	if s.Prob(35) {
		res = fixturePatient()
	} else {
		res = genAnyResource(s, o)
	}
	c := c18Case{Res: resToText(res)}
	root, _, err := buildTree(res)
	if err != nil {
		return c
	}
	n := 1
	if s.Prob(30) {
		n = s.Range(2, 5)
	}
	for i := 0; i < n; i++ {
		c.Ops = append(c.Ops, c18GenOp(s, root))
	}
	return c
}

// --- path spelling and model target ------------------------------------------------

func c18Path(typ string, op c18Op) string {
	p := renderSteps(typ, op.Steps)
	if strings.HasPrefix(op.Filter, "select-") && len(op.Steps) >= 1 && op.Steps[len(op.Steps)-1].Idx < 0 {
		last := renderSteps("", op.Steps[len(op.Steps)-1:])
		last = strings.TrimPrefix(last, ".")
		inner := map[string]string{"select-all": last, "select-take": last + ".take(2)", "select-first": last + ".first()", "select-tail": last + ".tail()"}[op.Filter]
		return renderSteps(typ, op.Steps[:len(op.Steps)-1]) + ".select(" + inner + ")"
	}
	switch op.Filter {
	case "first":
		p += ".first()"
	case "last":
		p += ".last()"
	case "tail":
		p += ".tail()"
	case "where-true":
		p += ".where(true)"
	case "where-false":
		p += ".where(false)"
	// filters that depend on the evaluate options handed to the operation (OverrideTime, EnvVariable)
	case "where-now":
		p += ".where(now() = @2024-02-29T12:34:56.000Z)"
	case "where-not-now":
		p += ".where(now() != @2024-02-29T12:34:56.000Z)"
	case "where-var":
		p += ".where(%keep)"
	case "index0":
		p += "[0]"
	case "extension-url":
		p += ".extension(" + quoteFP(op.extURL()) + ")"
	case "where-id":
		p += ".where(id.exists())"
	// criteria that compute a value from an empty sub-collection
	case "where-noid-empty":
		p += ".where(id.empty())"
	case "where-noid-not":
		p += ".where(id.exists().not())"
	case "where-noid-count":
		p += ".where(id.count() = 0)"
	case "where-noext-count":
		p += ".where(extension.count() < 1)"
	}
	return p
}

// c18Targets: the nodes the path selects, by plain tree semantics.  ok=false when the
// harness cannot predict the selection (then only the frame rules are checked).
func c18Targets(root *Node, op c18Op) (nodes []*Node, ok bool) {
	// `.value` of a primitive element is its raw value (a System item that is not a node of
	// the JSON tree): the selection is then not predictable by tree semantics
	for i, st := range op.Steps {
		if st.Name == "value" {
			for _, p := range modelEval(root, op.Steps[:i]) {
				if p.Prim {
					return nil, false
				}
			}
		}
	}
	nodes = modelEval(root, op.Steps)
	if strings.HasPrefix(op.Filter, "select-") {
		return nodes, false // what a computed last step makes patchable is not spelt out: frame rules only
	}
	switch op.Filter {
	case "":
	case "first", "index0":
		if len(nodes) > 1 {
			nodes = nodes[:1]
		}
	case "last":
		if len(nodes) > 1 {
			nodes = nodes[len(nodes)-1:]
		}
	case "tail":
		if len(nodes) > 0 {
			nodes = nodes[1:]
		}
	case "where-true", "where-now", "where-var":
	case "where-false", "where-not-now":
		nodes = nil
	case "extension-url":
		var out []*Node
		for _, n := range nodes {
			for _, k := range n.Kids["extension"] {
				if u, _ := k.Msg.(*dtpb.Extension); u != nil && u.GetUrl().GetValue() == op.extURL() {
					out = append(out, k)
				}
			}
		}
		nodes = out
	case "where-id", "where-noid-empty", "where-noid-not", "where-noid-count", "where-noext-count":
		var out []*Node
		for _, n := range nodes {
			if n.Synth || n.Msg == nil {
				return nil, false
			}
			kid := "id"
			if op.Filter == "where-noext-count" {
				kid = "extension"
			}
			if (len(n.Kids[kid]) > 0) == (op.Filter == "where-id") {
				out = append(out, n)
			}
		}
		nodes = out
	}
	for _, n := range nodes {
		if n.Synth {
			return nodes, false
		}
	}
	return nodes, true
}

// --- values ------------------------------------------------------------------------

// c18Value builds the value for an operation whose target field has message
// descriptor fd (nil when unknown).
func c18Value(kind string, fd protoreflect.MessageDescriptor, target proto.Message, seed int) (fhir.Base, string) {
	if kind == "nil" {
		return nil, "nil"
	}
	if kind == "clone-of-target" && target != nil {
		if b, ok := proto.Clone(target).(fhir.Base); ok {
			return b, "clone-of-target"
		}
	}
	if kind == "namesake" && fd != nil {
		// a message of another type that has the same short name (Person.GenderCode for Patient.GenderCode)
		if ns := namesakeOf(fd, seed); ns != nil {
			if m := dynamicNew(ns); m != nil {
				if b, ok := m.Interface().(fhir.Base); ok {
					return b, "namesake"
				}
			}
		}
		kind = "wrong"
	}
	if fd == nil || kind == "wrong" {
		wrong := []fhir.Base{&dtpb.Period{Start: &dtpb.DateTime{ValueUs: 1, Precision: dtpb.DateTime_YEAR, Timezone: "Z"}}, &dtpb.Boolean{Value: true}, &dtpb.Attachment{Title: &dtpb.String{Value: "t"}}, &dtpb.Base64Binary{Value: []byte("x")}}
		return wrong[seed%len(wrong)], "wrong"
	}
	if kind == "sibling" {
		name := string(fd.Name())
		vf := fd.Fields().ByName("value")
		switch {
		case vf != nil && vf.Kind() == protoreflect.EnumKind:
			// a plain Code carrying one of the enum's codes, or an invalid one
			vals := vf.Enum().Values()
			code, cls := "not-a-code", "sibling:Code→enum"
			if vals.Len() > 1 {
				ev := vals.Get(1 + seed%(vals.Len()-1))
				code = proto.GetExtension(ev.Options(), apb.E_FhirOriginalCode).(string)
				if code == "" {
					code = strings.ReplaceAll(strings.ToLower(string(ev.Name())), "_", "-")
				}
				if seed%4 == 0 {
					// an invalid code: foreign, or a near-miss spelling of a valid one
					words := strings.FieldsFunc(code, func(r rune) bool { return r == '-' })
					camel := ""
					for i, w := range words {
						if i > 0 && w != "" {
							w = strings.ToUpper(w[:1]) + w[1:]
						}
						camel += w
					}
					variants := []string{"not-a-code", strings.ReplaceAll(code, "-", "_"), strings.ReplaceAll(code, "-", " "), strings.ReplaceAll(code, "-", "."), strings.ToUpper(code), string(ev.Name()), camel, code + "-", " " + code, code + "x", ""}
					nv := variants[(seed/4)%len(variants)]
					if nv == code {
						nv = "not-a-code"
					}
					code, cls = nv, "sibling:invalid Code→enum"
				}
			}
			return &dtpb.Code{Value: code}, cls
		case name == "PositiveInt" || name == "UnsignedInt":
			return &dtpb.Integer{Value: int32([]int{5, 0, -3, 2147483647}[seed%4])}, "sibling:Integer→unsigned"
		case name == "Integer":
			return &dtpb.PositiveInt{Value: 7}, "sibling:PositiveInt→Integer"
		case name == "String":
			return &dtpb.Markdown{Value: "md"}, "sibling:Markdown→String"
		case name == "Code" || name == "Id" || name == "Markdown" || name == "Uri":
			return &dtpb.String{Value: "abc"}, "sibling:String→" + name
		case name == "DateTime":
			return &dtpb.Date{ValueUs: 1577836800000000, Precision: dtpb.Date_DAY, Timezone: "Z"}, "sibling:Date→DateTime"
		case name == "Quantity":
			return &dtpb.Duration{Value: &dtpb.Decimal{Value: "1"}}, "sibling:Duration→Quantity"
		}
		return &dtpb.String{Value: "abc"}, "sibling:String"
	}
	// same type: a fresh populated element of exactly that message type
	g := &resGen{s: fixedSrc{seed}, o: smallGen, budget: 12}
	m := dynamicNew(fd)
	if m == nil {
		return &dtpb.String{Value: "abc"}, "wrong"
	}
	g.fill(m, 1)
	if b, ok := m.Interface().(fhir.Base); ok {
		return b, "same"
	}
	return &dtpb.String{Value: "abc"}, "wrong"
}

// fieldByJSON finds a message-typed field by its FHIR (JSON) name.
func fieldByJSON(md protoreflect.MessageDescriptor, name string) protoreflect.FieldDescriptor {
	fs := md.Fields()
	for i := 0; i < fs.Len(); i++ {
		if fs.Get(i).JSONName() == name && fs.Get(i).Message() != nil && fs.Get(i).ContainingOneof() == nil {
			return fs.Get(i)
		}
	}
	return nil
}

// locate finds, in the model clone, the parent message, field and list index that
// hold node n (by walking n's chain of (field, index) from the root).
type slot struct {
	parent protoreflect.Message
	field  protoreflect.FieldDescriptor // field of parent that holds the element (the choice wrapper field for choice members)
	idx    int                          // list index or -1
	choice protoreflect.FieldDescriptor // member of the wrapper's oneof, for choice members
	ok     bool
}

func c18Locate(modelRoot proto.Message, n *Node) slot {
	var chain []*Node
	for x := n; x.Parent != nil; x = x.Parent {
		chain = append([]*Node{x}, chain...)
	}
	cur := modelRoot.ProtoReflect()
	var sl slot
	for i, x := range chain {
		if x.ViaAny || x.Synth || x.Msg == nil {
			return slot{}
		}
		f := fieldByJSON(cur.Descriptor(), x.Name)
		if f == nil {
			return slot{}
		}
		sl = slot{parent: cur, field: f, idx: -1, ok: true}
		var next protoreflect.Message
		if f.IsList() {
			l := cur.Get(f).List()
			if x.Index >= l.Len() {
				return slot{}
			}
			sl.idx = x.Index
			next = l.Get(x.Index).Message()
		} else {
			if !cur.Has(f) {
				return slot{}
			}
			next = cur.Get(f).Message()
		}
		if isChoiceMD(next.Descriptor()) {
			od := next.Descriptor().Oneofs().Get(0)
			cf := next.WhichOneof(od)
			if cf == nil {
				return slot{}
			}
			sl.choice = cf
			next = next.Get(cf).Message()
		}
		if next.Descriptor().FullName() == "google.fhir.r4.core.ContainedResource" {
			od := next.Descriptor().Oneofs().Get(0)
			cf := next.WhichOneof(od)
			if cf == nil {
				return slot{}
			}
			next = next.Get(cf).Message()
		}
		if i < len(chain)-1 {
			cur = next
		}
	}
	return sl
}

// normalize: the value as it must appear in a field of message type want ("" = not
// representable → the operation must fail or, if it succeeds, is judged by the frame rule).
func c18Normalize(want protoreflect.MessageDescriptor, v proto.Message) (protoreflect.Message, bool) {
	m, ok, _ := c18Normalize3(want, v)
	return m, ok
}

// c18Normalize3 additionally reports invalidCode: the value is a string-valued primitive
// offered for an enum-backed code and its text is not a code of that value set - the
// tree would gain that very text, which the element cannot hold, so the operation must fail.
func c18Normalize3(want protoreflect.MessageDescriptor, v proto.Message) (_ protoreflect.Message, _ bool, invalidCode bool) {
	m, ok := c18normalize(want, v)
	if !ok && v.ProtoReflect().Descriptor() != want {
		if vf := want.Fields().ByName("value"); vf != nil && vf.Kind() == protoreflect.EnumKind {
			if _, isStr := v.(interface{ GetValue() string }); isStr {
				return nil, false, true
			}
		}
	}
	return m, ok, false
}

func c18normalize(want protoreflect.MessageDescriptor, v proto.Message) (protoreflect.Message, bool) {
	if v.ProtoReflect().Descriptor() == want {
		return proto.Clone(v).ProtoReflect(), true
	}
	vf := want.Fields().ByName("value")
	if vf == nil {
		return nil, false
	}
	switch vf.Kind() {
	case protoreflect.EnumKind:
		if c, ok := v.(interface{ GetValue() string }); ok {
			vals := vf.Enum().Values()
			for i := 1; i < vals.Len(); i++ {
				ev := vals.Get(i)
				code := proto.GetExtension(ev.Options(), apb.E_FhirOriginalCode).(string)
				if code == "" {
					code = strings.ReplaceAll(strings.ToLower(string(ev.Name())), "_", "-")
				}
				if code == c.GetValue() {
					m := dynamicNew(want)
					if m == nil {
						return nil, false
					}
					m.Set(vf, protoreflect.ValueOfEnum(ev.Number()))
					return m, true
				}
			}
		}
	case protoreflect.Uint32Kind:
		if c, ok := v.(interface{ GetValue() int32 }); ok && c.GetValue() >= 0 {
			m := dynamicNew(want)
			if m == nil {
				return nil, false
			}
			m.Set(vf, protoreflect.ValueOfUint32(uint32(c.GetValue())))
			return m, true
		}
	case protoreflect.Int32Kind:
		if c, ok := v.(interface{ GetValue() int32 }); ok {
			m := dynamicNew(want)
			if m == nil {
				return nil, false
			}
			m.Set(vf, protoreflect.ValueOfInt32(c.GetValue()))
			return m, true
		}
	}
	return nil, false
}

// setElem writes element e into (parent, field[, choice]) of the model.
func setElem(parent protoreflect.Message, f protoreflect.FieldDescriptor, e protoreflect.Message) bool {
	fm := f.Message()
	if isChoiceMD(fm) {
		od := fm.Oneofs().Get(0)
		for i := 0; i < od.Fields().Len(); i++ {
			cf := od.Fields().Get(i)
			if cf.Message() == e.Descriptor() {
				w := parent.NewField(f).Message()
				w.Set(cf, protoreflect.ValueOfMessage(e))
				parent.Set(f, protoreflect.ValueOfMessage(w))
				return true
			}
		}
		return false
	}
	if fm.FullName() == "google.fhir.r4.core.ContainedResource" {
		od := fm.Oneofs().Get(0)
		for i := 0; i < od.Fields().Len(); i++ {
			cf := od.Fields().Get(i)
			if cf.Message() == e.Descriptor() {
				w := parent.NewField(f).Message()
				w.Set(cf, protoreflect.ValueOfMessage(e))
				parent.Set(f, protoreflect.ValueOfMessage(w))
				return true
			}
		}
		return false
	}
	parent.Set(f, protoreflect.ValueOfMessage(e))
	return true
}

func wrapForList(f protoreflect.FieldDescriptor, list protoreflect.List, e protoreflect.Message) (protoreflect.Value, bool) {
	fm := f.Message()
	if isChoiceMD(fm) || fm.FullName() == "google.fhir.r4.core.ContainedResource" {
		od := fm.Oneofs().Get(0)
		for i := 0; i < od.Fields().Len(); i++ {
			cf := od.Fields().Get(i)
			if cf.Message() == e.Descriptor() {
				w := list.NewElement().Message()
				w.Set(cf, protoreflect.ValueOfMessage(e))
				return protoreflect.ValueOfMessage(w), true
			}
		}
		return protoreflect.Value{}, false
	}
	if fm != e.Descriptor() {
		return protoreflect.Value{}, false
	}
	return protoreflect.ValueOfMessage(e), true
}

// fieldElemDesc: the message type an element of field f has in FHIR terms (the
// wrapper itself for choice / contained fields).
func c18ApplyModel(model proto.Message, root *Node, op c18Op, targets []*Node, value fhir.Base) c18Outcome {
	switch op.Op {
	case "move":
		return c18Outcome{mustFail: true, why: "move"}
	case "delete":
		if len(targets) == 0 {
			return c18Outcome{modelled: true, why: "delete-absent"}
		}
		if len(targets) > 1 {
			// a whole list of ≤ 1 … handled above; several elements cannot be deleted
			return c18Outcome{why: "delete-several"}
		}
		n := targets[0]
		if n == root {
			return c18Outcome{why: "delete-root"}
		}
		sl := c18Locate(model, n)
		if !sl.ok {
			return c18Outcome{why: "delete-unlocatable"}
		}
		if sl.idx >= 0 {
			l := sl.parent.Get(sl.field).List()
			nl := sl.parent.NewField(sl.field).List()
			for i := 0; i < l.Len(); i++ {
				if i != sl.idx {
					nl.Append(l.Get(i))
				}
			}
			if nl.Len() == 0 {
				sl.parent.Clear(sl.field)
			} else {
				sl.parent.Set(sl.field, protoreflect.ValueOfList(nl))
			}
		} else {
			sl.parent.Clear(sl.field)
		}
		return c18Outcome{modelled: true, why: "delete-one"}
	case "replace":
		if value == nil {
			return c18Outcome{mustFail: true, why: "nil-value"}
		}
		if len(targets) != 1 {
			return c18Outcome{mustFail: true, why: "replace-non-singleton"}
		}
		n := targets[0]
		if n == root {
			return c18Outcome{why: "replace-root"}
		}
		sl := c18Locate(model, n)
		if !sl.ok {
			return c18Outcome{why: "replace-unlocatable"}
		}
		wantMD := n.Msg.ProtoReflect().Descriptor()
		var e protoreflect.Message
		if isChoiceMD(sl.field.Message()) || sl.field.Message().FullName() == "google.fhir.r4.core.ContainedResource" {
			// a choice (or contained) slot takes the value as the member of its own type
			e = proto.Clone(value).ProtoReflect()
		} else {
			var ok, badCode bool
			e, ok, badCode = c18Normalize3(wantMD, value)
			if badCode {
				return c18Outcome{mustFail: true, why: "replace-invalid-code"}
			}
			if !ok {
				return c18Outcome{why: "replace-wrong-type"}
			}
		}
		if sl.idx >= 0 {
			l := sl.parent.Get(sl.field).List()
			nl := sl.parent.NewField(sl.field).List()
			for i := 0; i < l.Len(); i++ {
				if i == sl.idx {
					v, ok := wrapForList(sl.field, nl, e)
					if !ok {
						return c18Outcome{why: "replace-wrong-type"}
					}
					nl.Append(v)
				} else {
					nl.Append(l.Get(i))
				}
			}
			sl.parent.Set(sl.field, protoreflect.ValueOfList(nl))
		} else if !setElem(sl.parent, sl.field, e) {
			return c18Outcome{why: "replace-wrong-type"}
		}
		return c18Outcome{modelled: true, why: "replace-one"}
	case "insert":
		if value == nil {
			return c18Outcome{mustFail: true, why: "nil-value"}
		}
		if len(targets) == 0 {
			return c18Outcome{mustFail: true, why: "insert-empty-target"}
		}
		// the path must select all items of one repeated field of one parent
		first := targets[0]
		if first == root || !first.IsList {
			return c18Outcome{mustFail: true, why: "insert-not-a-list"}
		}
		sl := c18Locate(model, first)
		if !sl.ok {
			return c18Outcome{why: "insert-unlocatable"}
		}
		l := sl.parent.Get(sl.field).List()
		for i, t := range targets {
			if t.Parent != first.Parent || t.Name != first.Name || t.Index != i {
				return c18Outcome{why: "insert-partial-list"}
			}
		}
		if len(targets) != l.Len() {
			return c18Outcome{why: "insert-partial-list"}
		}
		if op.Index < 0 || op.Index > l.Len() {
			return c18Outcome{mustFail: true, why: "insert-index-out-of-range"}
		}
		nl := sl.parent.NewField(sl.field).List()
		e := proto.Clone(value).ProtoReflect()
		for i := 0; i <= l.Len(); i++ {
			if i == op.Index {
				v, ok := wrapForList(sl.field, nl, e)
				if !ok {
					return c18Outcome{why: "insert-wrong-type"}
				}
				nl.Append(v)
			}
			if i < l.Len() {
				nl.Append(l.Get(i))
			}
		}
		sl.parent.Set(sl.field, protoreflect.ValueOfList(nl))
		return c18Outcome{modelled: true, why: "insert-at"}
	case "add":
		if value == nil {
			return c18Outcome{mustFail: true, why: "nil-value"}
		}
		if len(targets) != 1 {
			return c18Outcome{mustFail: true, why: "add-non-singleton"}
		}
		n := targets[0]
		var pm protoreflect.Message
		if n == root {
			pm = model.ProtoReflect()
		} else {
			sl := c18Locate(model, n)
			if !sl.ok {
				return c18Outcome{why: "add-unlocatable"}
			}
			if sl.idx >= 0 {
				pm = sl.parent.Get(sl.field).List().Get(sl.idx).Message()
			} else {
				pm = sl.parent.Get(sl.field).Message()
			}
			if isChoiceMD(pm.Descriptor()) {
				pm = pm.Get(sl.choice).Message()
			}
			if pm.Descriptor().FullName() == "google.fhir.r4.core.ContainedResource" {
				pm = pm.Get(pm.WhichOneof(pm.Descriptor().Oneofs().Get(0))).Message()
			}
		}
		f := fieldByJSON(pm.Descriptor(), op.Name)
		if f == nil {
			return c18Outcome{mustFail: true, why: "add-unknown-name"}
		}
		if f.Message().FullName() == "google.protobuf.Any" {
			return c18Outcome{why: "add-into-any"}
		}
		fm := f.Message()
		var e protoreflect.Message
		if isChoiceMD(fm) || fm.FullName() == "google.fhir.r4.core.ContainedResource" {
			e = proto.Clone(value).ProtoReflect()
		} else {
			var ok, badCode bool
			e, ok, badCode = c18Normalize3(fm, value)
			if badCode {
				return c18Outcome{mustFail: true, why: "add-invalid-code"}
			}
			if !ok {
				return c18Outcome{why: "add-wrong-type"}
			}
		}
		if f.IsList() {
			l := pm.Mutable(f).List()
			v, ok := wrapForList(f, l, e)
			if !ok {
				return c18Outcome{why: "add-wrong-type"}
			}
			l.Append(v)
			return c18Outcome{modelled: true, why: "add-to-list"}
		}
		if pm.Has(f) {
			return c18Outcome{mustFail: true, why: "add-populated-scalar"}
		}
		if !setElem(pm, f, e) {
			return c18Outcome{why: "add-wrong-type"}
		}
		return c18Outcome{modelled: true, why: "add-scalar"}
	}
	return c18Outcome{}
}

// --- execution -------------------------------------------------------------------------

func c18Exec(res fhir.Resource, path string, op c18Op, value fhir.Base) (err error, pan outcome) {
	pan = guard(func() {
		// every operation gets the same evaluate options: a pinned clock and a variable
		eopts := []fhirpath.EvaluateOption{evalopts.OverrideTime(time.Date(2024, 2, 29, 12, 34, 56, 0, time.UTC)), evalopts.EnvVariable("keep", system.Boolean(true))}
		usesOpts := strings.HasPrefix(op.Filter, "where-now") || op.Filter == "where-not-now" || op.Filter == "where-var"
		if op.Pkg && (op.Op == "add" || !usesOpts) {
			switch op.Op {
			case "add":
				err = patch.Add(res, path, op.Name, value, &patch.Options{EvalOpts: eopts})
			case "insert":
				err = patch.Insert(res, path, value, op.Index)
			case "delete":
				err = patch.Delete(res, path)
			case "replace":
				err = patch.Replace(res, path, value)
			case "move":
				err = patch.Move(res, path, op.Index, 0)
			}
			return
		}
		e, cerr := patch.Compile(path)
		if cerr != nil {
			err = cerr
			return
		}
		switch op.Op {
		case "add":
			err = e.Add(res, op.Name, value, eopts...)
		case "insert":
			err = e.Insert(res, value, op.Index, eopts...)
		case "delete":
			err = e.Delete(res, eopts...)
		case "replace":
			err = e.Replace(res, value, eopts...)
		case "move":
			err = e.Move(res, op.Index, 0, eopts...)
		}
	})
	return
}

// jsonLeaves: the multiset of (path without indexes, scalar) pairs of a JSON document.
func jsonLeaves(js string) map[string]int {
	out := map[string]int{}
	var v any
	if json.Unmarshal([]byte(js), &v) != nil {
		return out
	}
	var walk func(path string, x any)
	walk = func(path string, x any) {
		switch t := x.(type) {
		case map[string]any:
			for k, y := range t {
				walk(path+"."+k, y)
			}
		case []any:
			for _, y := range t {
				walk(path, y)
			}
		default:
			out[fmt.Sprintf("%s=%v", path, t)]++
		}
	}
	walk("", v)
	return out
}

func jsonOf(res proto.Message) string {
	_, b, err := resJSON(res)
	if err != nil {
		return "marshal error: " + err.Error()
	}
	return string(b)
}

func c18Run(ctx *Ctx, c c18Case) {
	m, err := resFromText(c.Res)
	if err != nil {
		ctx.Fail("harness: cannot decode case", err.Error())
		return
	}
	res := m.(fhir.Resource)
	typ := string(res.ProtoReflect().Descriptor().Name())
	original := proto.Clone(res)
	var history []string
	anyNontrivial := false
	var classes []string
	for oi, op := range c.Ops {
		root, _, terr := buildTree(res)
		if terr != nil {
			ctx.Count("marshal_errors")
			break
		}
		path := c18Path(typ, op)
		targets, predictable := c18Targets(root, op)
		// the value
		var fdesc protoreflect.MessageDescriptor
		var targetMsg proto.Message
		if len(targets) > 0 && targets[0].Msg != nil {
			targetMsg = targets[0].Msg
			fdesc = targetMsg.ProtoReflect().Descriptor()
			if op.Op == "add" {
				if f := fieldByJSON(fdesc, op.Name); f != nil {
					fdesc = f.Message()
					if isChoiceMD(fdesc) {
						od := fdesc.Oneofs().Get(0)
						fdesc = od.Fields().Get((op.Index + 7) % od.Fields().Len()).Message()
					}
					targetMsg = nil
				} else {
					fdesc = nil
				}
			}
		}
		if fdesc != nil && (fdesc.FullName() == "google.protobuf.Any" || fdesc.FullName() == "google.fhir.r4.core.ContainedResource") {
			fdesc = (&dtpb.String{}).ProtoReflect().Descriptor()
		}
		vseed := op.Index + oi*7 + len(path)
		if op.Seed != 0 {
			vseed = op.Seed
		}
		value, vclass := c18Value(op.Value, fdesc, targetMsg, vseed)
		var valueSnap snap
		if value != nil {
			valueSnap = snapshot(value)
		}
		before := snapshot(res)
		beforeJSON := jsonOf(res)
		// the model, on a clone
		model := proto.Clone(res)
		mroot, _, _ := buildTree(model)
		var out c18Outcome
		if predictable && mroot != nil {
			mt, _ := c18Targets(mroot, op)
			out = c18ApplyModel(model, mroot, op, mt, value)
		} else {
			out = c18Outcome{why: "unpredictable-selection"}
		}
		perr, pan := c18Exec(res, path, op, value)
		desc := fmt.Sprintf("op %d: %s(path=%q name=%q value=%s index=%d pkg=%v) → err=%v [model: %s, %d target(s)]", oi, op.Op, path, op.Name, vclass, op.Index, op.Pkg, perr, out.why, len(targets))
		history = append(history, desc)
		changed := before.changed(res)
		classes = append(classes, "op:"+op.Op, "model:"+out.why)
		if perr == nil && changed != "" {
			classes = append(classes, "success:"+op.Op)
			anyNontrivial = true
		}
		if perr != nil && len(targets) >= 1 {
			anyNontrivial = true
		}
		if op.Filter != "" {
			classes = append(classes, "filtered-target")
		}
		if strings.HasPrefix(op.Filter, "select-") {
			classes = append(classes, fmt.Sprintf("computed-last-step:%s:success=%v", op.Op, perr == nil))
		}
		full := func() string { return strings.Join(history, "\n") + "\nresource before: " + clip(beforeJSON, 700) }
		if pan.Panic != "" {
			ctx.Fail("patch "+op.Op+": panic@"+pan.Panic, full())
			break
		}
		if op.Op == "move" {
			if !errors.Is(perr, patch.ErrNotImplemented) || changed != "" {
				ctx.Fail("patch move: does not report not-implemented / changes the resource", full())
			}
			continue
		}
		if perr != nil {
			// an error leaves resource and value exactly as they were
			if changed != "" {
				ctx.Fail("patch "+op.Op+": returned an error but changed the resource ("+changed+") ["+out.why+"]", full()+"\nafter: "+clip(jsonOf(res), 700))
				break
			}
			if value != nil {
				if why := valueSnap.changed(value); why != "" {
					ctx.Fail("patch "+op.Op+": returned an error but changed the supplied value", full())
					break
				}
			}
			continue
		}
		// success
		if value != nil {
			// the supplied value itself may be adopted into the resource, but must not be altered
			if why := valueSnap.changed(value); why != "" {
				ctx.Fail("patch "+op.Op+": succeeded but altered the supplied value ("+why+")", full())
				break
			}
		}
		if out.mustFail {
			if changed == "" && op.Op == "delete" {
				continue
			}
			ctx.Fail("patch "+op.Op+": succeeded where the statement requires an error ["+out.why+"]", full()+"\nafter: "+clip(jsonOf(res), 700))
			break
		}
		if out.modelled {
			afterJSON, modelJSON := jsonOf(res), jsonOf(model)
			if !proto.Equal(res, model) || afterJSON != modelJSON {
				ctx.Fail("patch "+op.Op+": successful operation differs from the same operation on the tree ["+out.why+", value "+vclass+"]", full()+"\nafter : "+clip(afterJSON, 900)+"\nmodel : "+clip(modelJSON, 900))
				break
			}
			continue
		}
		// success the model does not predict: frame rule — everything outside the targeted parent is unchanged
		if predictable && len(targets) == 0 && changed != "" {
			ctx.Fail("patch "+op.Op+": changed the resource although the path selects nothing ["+out.why+"]", full()+"\nafter: "+clip(jsonOf(res), 700))
			break
		}
		if op.Op == "insert" {
			// an insert only ever adds: every leaf of the JSON tree before is still there after
			after := jsonLeaves(jsonOf(res))
			lost := ""
			for k, n := range jsonLeaves(beforeJSON) {
				if after[k] < n && (lost == "" || k < lost) {
					lost = k
				}
			}
			if lost != "" {
				ctx.Fail("patch insert: a successful insert removed or changed another element ["+out.why+"]", full()+"\nlost: "+clip(lost, 200)+"\nafter: "+clip(jsonOf(res), 700))
				break
			}
		}
		ctx.Count("unmodelled_success:" + out.why)
	}
	// inverse pair: whatever happened, replaying nothing must keep determinism; and after the history an
	// add followed by a delete of the added node restores the resource (checked when the last op was a modelled add)
	_ = original
	ctx.Eval(c.Res+fmt.Sprint(c.Ops), anyNontrivial, classes...)
}

// --- inverse pairs ---------------------------------------------------------------------

type c18InvCase struct {
	Res  string `json:"res"`
	Kind string `json:"kind"` // add-delete | replace-back | insert-delete
	Pick int    `json:"pick"`
	Seed int    `json:"seed"`
}

func c18GenInv(s Src) c18InvCase {
	var res proto.Message
	if s.Prob(30) {
		res = fixturePatient()
	} else {
		o := defaultGen
		o.Contained = false
		res = genAnyResource(s, o)
	}
	return c18InvCase{Res: resToText(res), Kind: pickOne(s, []string{"add-delete", "replace-back", "insert-delete"}), Pick: s.Intn(1000), Seed: s.Intn(1000)}
}

func c18RunInv(ctx *Ctx, c c18InvCase) {
	m, err := resFromText(c.Res)
	if err != nil {
		ctx.Fail("harness: cannot decode case", err.Error())
		return
	}
	res := m.(fhir.Resource)
	typ := string(res.ProtoReflect().Descriptor().Name())
	root, _, terr := buildTree(res)
	if terr != nil {
		ctx.Eval(c.Res, false)
		return
	}
	var cands []*Node
	root.walk(func(n *Node) {
		if n.ViaAny || n.Synth || n.Msg == nil || n.Choice || strings.Contains(strings.Join(n.pathNames(), "."), "div") {
			return
		}
		switch c.Kind {
		case "replace-back":
			cands = append(cands, n)
		default:
			if n.IsList {
				cands = append(cands, n)
			}
		}
	})
	if len(cands) == 0 {
		ctx.Eval(c.Res+c.Kind, false, "inverse:no-candidate")
		return
	}
	n := cands[c.Pick%len(cands)]
	full := renderSteps(typ, c02IndexedSteps(n, 0xffff))
	listPath := full
	if i := strings.LastIndex(full, "["); i >= 0 && strings.HasSuffix(full, "]") {
		listPath = full[:i]
	}
	before := snapshot(res)
	value, _ := c18Value("same", n.Msg.ProtoReflect().Descriptor(), nil, c.Seed)
	var steps []string
	fail := func(what string) {
		ctx.Fail("patch inverse pair "+c.Kind+": "+what, strings.Join(steps, "\n")+"\nresource: "+clip(jsonOf(m), 600))
	}
	run := func(desc string, f func() error) (error, bool) {
		var e error
		g := guard(func() { e = f() })
		steps = append(steps, fmt.Sprintf("%s → %v", desc, e))
		if g.Panic != "" {
			fail("panic@" + g.Panic)
			return nil, false
		}
		return e, true
	}
	ok := true
	var e1, e2 error
	switch c.Kind {
	case "replace-back":
		orig := proto.Clone(n.Msg).(fhir.Base)
		e1, ok = run("replace "+full, func() error { return patch.Replace(res, full, value) })
		if ok && e1 == nil {
			e2, ok = run("replace back "+full, func() error { return patch.Replace(res, full, orig) })
		}
	case "insert-delete":
		idx := n.Index
		at := fmt.Sprintf("%s[%d]", listPath, idx)
		e1, ok = run(fmt.Sprintf("insert %s at %d", listPath, idx), func() error { return patch.Insert(res, listPath, value, idx) })
		if ok && e1 == nil {
			e2, ok = run("delete "+at, func() error { return patch.Delete(res, at) })
		}
	case "add-delete":
		parent := full[:strings.LastIndex(full, ".")]
		cnt := len(n.Parent.Kids[n.Name])
		at := fmt.Sprintf("%s[%d]", listPath, cnt)
		e1, ok = run(fmt.Sprintf("add %s name=%s", parent, n.Name), func() error { return patch.Add(res, parent, n.Name, value, &patch.Options{}) })
		if ok && e1 == nil {
			e2, ok = run("delete "+at, func() error { return patch.Delete(res, at) })
		}
	}
	ctx.Eval(c.Res+c.Kind+fmt.Sprint(c.Pick, c.Seed), ok && e1 == nil && e2 == nil, "inverse:"+c.Kind, fmt.Sprintf("inverse-completed:%v", e1 == nil && e2 == nil))
	if !ok {
		return
	}
	if e1 != nil {
		if why := before.changed(res); why != "" {
			fail("first operation failed but changed the resource (" + why + ")")
		}
		return
	}
	if e2 != nil {
		ctx.Count("inverse_second_step_refused")
		return
	}
	if !bytes.Equal(before.bytes, detBytes(res)) || !proto.Equal(before.clone, res) {
		fail("the resource is not restored")
	}
}

var _ = reflect.TypeOf

// --- histories over several resources ------------------------------------------------------

// A patch call names one resource.  Here a Bundle, a free-standing resource P and (once P has
// been placed into an entry) the Bundle *containing* P are patched in turn, with ordinary
// paths, with root-only paths (just the type name) and with paths that select nothing.  After
// every call: an error leaves every resource of the history as it was; a call that did not
// change the resource it names did not change any other either; and a resource that neither
// contains the named one nor is contained in it is never changed.
type c18XStep struct {
	On    string `json:"on"`   // bundle | p | entry
	Op    string `json:"op"`   // replace-entry-resource delete-entry root-delete root-replace leaf-delete leaf-replace absent-delete add-entry-link
	Index int    `json:"index"`
}

type c18XCase struct {
	P       string     `json:"p"`
	Entries []string   `json:"entries"`
	Steps   []c18XStep `json:"steps"`
}

func c18GenX(s Src) c18XCase {
	c := c18XCase{P: resToText(genResource(s, pickOne(s, []string{"Patient", "Patient", "Observation", "Organization"}), smallGen))}
	for i := 0; i < s.Range(1, 3); i++ {
		c.Entries = append(c.Entries, resToText(genAnyResource(s, smallGen)))
	}
	for i := 0; i < s.Range(2, 6); i++ {
		c.Steps = append(c.Steps, c18XStep{On: pickOne(s, []string{"bundle", "p", "p", "entry"}), Op: pickOne(s, []string{"replace-entry-resource", "replace-entry-resource", "delete-entry", "root-delete", "root-delete", "root-replace", "leaf-delete", "leaf-replace", "absent-delete"}), Index: s.Intn(3)})
	}
	return c
}

func c18RunX(ctx *Ctx, c c18XCase) {
	pm, err := resFromText(c.P)
	if err != nil {
		ctx.Fail("harness: cannot decode case", err.Error())
		return
	}
	p := pm.(fhir.Resource)
	b := &bcrpb.Bundle{Type: &bcrpb.Bundle_TypeCode{Value: cpb.BundleTypeCode_COLLECTION}}
	var entryRes []fhir.Resource
	for _, t := range c.Entries {
		m, err := resFromText(t)
		if err != nil {
			ctx.Fail("harness: cannot decode case", err.Error())
			return
		}
		r := m.(fhir.Resource)
		entryRes = append(entryRes, r)
		b.Entry = append(b.Entry, &bcrpb.Bundle_Entry{Resource: wrapCR(r)})
	}
	all := append([]fhir.Resource{b, p}, entryRes...)
	ser := func(r fhir.Resource) string {
		out, _ := proto.MarshalOptions{Deterministic: true}.Marshal(r)
		return string(out)
	}
	contains := func(outer, inner fhir.Resource) bool {
		set := map[any]bool{}
		ownNodes(outer.ProtoReflect(), set, 0)
		return set[any(inner)]
	}
	rootOnly := false
	var history []string
	for _, st := range c.Steps {
		var on fhir.Resource
		switch st.On {
		case "bundle":
			on = b
		case "p":
			on = p
		default:
			on = entryRes[st.Index%len(entryRes)]
		}
		typ := string(on.ProtoReflect().Descriptor().Name())
		op := c18Op{Op: "delete"}
		path := typ
		var value fhir.Base
		switch st.Op {
		case "replace-entry-resource":
			if len(b.Entry) == 0 {
				continue
			}
			on, typ = b, "Bundle"
			path, op.Op, value = fmt.Sprintf("Bundle.entry[%d].resource", st.Index%len(b.Entry)), "replace", p
		case "delete-entry":
			on, typ = b, "Bundle"
			path = fmt.Sprintf("Bundle.entry[%d]", st.Index)
		case "root-delete":
			rootOnly = true
		case "root-replace":
			rootOnly = true
			op.Op, value = "replace", proto.Clone(on).(fhir.Base)
		case "leaf-delete":
			path = typ + ".id"
		case "leaf-replace":
			path, op.Op, value = typ+".id", "replace", &dtpb.Id{Value: "x" + fmt.Sprint(st.Index)}
		case "absent-delete":
			path = typ + ".implicitRules"
		}
		before := make([]string, len(all))
		for i, r := range all {
			before[i] = ser(r)
		}
		perr, pan := c18Exec(on, path, op, value)
		history = append(history, fmt.Sprintf("%s(%s[%s], %q) → %v", op.Op, st.On, typ, path, perr))
		if pan.Panic != "" {
			ctx.Fail("patch "+op.Op+": panic@"+pan.Panic, strings.Join(history, "\n"))
			return
		}
		onChanged := false
		for i, r := range all {
			if r == on && ser(r) != before[i] {
				onChanged = true
			}
		}
		for i, r := range all {
			changed := ser(r) != before[i]
			switch {
			case !changed:
			case perr != nil:
				ctx.Fail("patch "+op.Op+": returned an error but changed a resource of the history", strings.Join(history, "\n"))
				return
			case r != on && !onChanged:
				ctx.Fail("patch "+op.Op+": the call left the resource it names unchanged but changed another resource", strings.Join(history, "\n")+fmt.Sprintf("\nchanged: resource %d (%T)", i, r))
				return
			case r != on && !contains(r, on) && !contains(on, r):
				ctx.Fail("patch "+op.Op+": the call changed a resource that neither contains the named one nor is contained in it", strings.Join(history, "\n")+fmt.Sprintf("\nchanged: resource %d (%T)", i, r))
				return
			}
		}
	}
	ctx.Eval(fmt.Sprint(c.Steps)+c.P, rootOnly && len(c.Steps) >= 2, "stage:cross-resource-histories")
}

func TestC18(t *testing.T) {
	r := newRec("C18",
		"a history case is one resource (the fixture Patient or a generated resource of any R4 type) and 1..5 operations; each operation targets a node of the current JSON tree (un-indexed, fully or partly indexed) optionally filtered by criteria computed from an empty sub-collection (where(id.empty()), where(id.exists().not()), where(id.count() = 0), where(extension.count() < 1)), for inserts optionally with the last step computed inside select() on the parent (the whole list, take(2), first(), tail(): judged by the frame rule that an insert removes no leaf of the JSON tree), or by first()/last()/tail()/where(true|false)/[0]/extension(url)/where(id.exists()) or by a criterion that depends on the evaluate options every operation receives (where(now() = <the pinned instant>), where(%keep)), with op ∈ {add, insert, delete, replace, move}, an element name (valid, unknown, snake_case), an index in [-1,4] and a value that is a fresh element of the target's type, a sibling type (Code for an enum code, Integer for unsigned, …), a wrong type, a clone of the target or nil; method and package-level entry points.  Oracle after every step: error ⇒ resource and value bit-identical (deterministic serialisation, presence bits, proto.Equal); nil ⇒ the resource equals M-PATCH applied to a clone (independent protoreflect implementation on the target located by tree semantics; proto.Equal and google/fhir JSON), or, where the model does not predict the success, nothing changes when the path selects nothing; Move ⇒ ErrNotImplemented and unchanged.  Inverse-pair cases: add→delete, insert→delete, replace→replace-back restore the resource.  Populated-scalar cases: a densely populated resource of a drawn type and up to 12 add operations that each name an already populated scalar element: all must be refused.  Code cases: one add/replace of a plain Code on an enum-backed code element with a valid code or an invalid spelling of one (foreign, `_`/space/`.` for `-`, upper case, proto enum name, camelCase, padded): a code outside the value set must be refused (the tree would gain a text the element cannot hold).  non-trivial = an operation succeeded and changed the tree, or failed on a path selecting ≥ 1 node (histories); both steps succeeded (inverse pairs); distinct = FNV-64 of the case",
		"the statement is conditional on success: which well-typed operations succeed is reported (success:* classes) but not asserted", "google/fhir jsonformat defines the JSON rendering")
	runProperty(t, r,
		Stage[c18Case]{Name: "histories", Gen: c18Gen, Run: c18Run, N: pick(2500, 25000)},
		Stage[c18InvCase]{Name: "inverse-pairs", Gen: c18GenInv, Run: c18RunInv, N: pick(1500, 12000)},
		Stage[c18Case]{Name: "codes", Gen: c18GenCodes, Run: c18Run, N: pick(1500, 15000)},
		Stage[c18Case]{Name: "populated-scalars", Gen: c18GenPopulated, Run: c18Run, N: pick(500, 8000)},
		Stage[c18XCase]{Name: "cross-resource-histories", Gen: c18GenX, Run: c18RunX, N: pick(1500, 20000)},
	)
}

// --- the model -----------------------------------------------------------------------

type c18Outcome struct {
	modelled bool   // the harness computed the expected resource
	mustFail bool   // the statement requires an error
	why      string // class for signatures / histogram
}
