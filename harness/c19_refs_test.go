package zzverif

// C19 — reference and identity parsing and formatting are mutual inverses.

import (
	"fmt"
	"slices"
	"strings"
	"testing"

	dtpb "github.com/google/fhir/go/proto/google/fhir/proto/r4/core/datatypes_go_proto"
	"github.com/verily-src/fhirpath-go/internal/element/canonical"
	"github.com/verily-src/fhirpath-go/internal/element/reference"
	"github.com/verily-src/fhirpath-go/internal/fhir"
	"github.com/verily-src/fhirpath-go/internal/resource"
)

var idAlphabet = strings.Split("ABCXYZabcxyz0189-.", "")

func genID(s Src) string {
	switch s.Intn(8) {
	case 0:
		return s.Str(idAlphabet, 64, 64)
	case 1:
		return s.Str(idAlphabet, 1, 1)
	case 2:
		return pickOne(s, []string{"1", "p1", "123e4567-e89b-12d3-a456-426614174000", "A-1.b", "history", "-", ".", "..", "a.b-c"})
	}
	return s.Str(idAlphabet, 1, 20)
}

var c19Bases = []string{"", "http://example.org/fhir", "https://example.org", "http://localhost:8080/fhir", "https://a.b.c/x/y/z", "http://example.org/fhir/R4", "https://h/%24x/$y", "http://h/Patient", "http://h/_history"}

type c19IDCase struct {
	Type    string `json:"type"`
	ID      string `json:"id"`
	Version string `json:"version"`
	Base    string `json:"base"`
	// Maybe: the base was generated over a wider alphabet than the documented one; it may be
	// refused, but if WithServiceBaseURL accepts it the whole round trip applies
	Maybe bool `json:"maybe,omitempty"`
}

var c19BaseAlphabet = strings.Split("abcdefghijklmnopqrstuvwxyzABCDEFGHIJKLMNOPQRSTUVWXYZ0123456789-.:%$_", "")
var c19BaseExtra = []string{"~", "@", "+", "=", ";", ",", "!", "*", "'", "(", ")", "&", " ", "é", "?", "#", "|", "[", "]", "\\", "^", "\""}

// c19GenBase: scheme://segment(/segment)* over the documented alphabet of a service base URL;
// ext: some characters from outside it
func c19GenBase(s Src, ext bool) string {
	b := pickOne(s, []string{"http", "https"}) + "://"
	n := s.Range(1, 4)
	for i := 0; i < n; i++ {
		if i > 0 {
			b += "/"
		}
		if i > 0 && s.Prob(12) {
			b += pickOne(s, []string{"Patient", "_history", "Observation", "fhir", "R4"})
			continue
		}
		for j, m := 0, s.Range(1, 10); j < m; j++ {
			if ext && s.Prob(15) {
				b += pickOne(s, c19BaseExtra)
			} else {
				b += pickOne(s, c19BaseAlphabet)
			}
		}
	}
	return b
}

func c19GenID(s Src) c19IDCase {
	c := c19IDCase{Type: allResTypes[s.Intn(len(allResTypes))].Name, ID: genID(s), Base: pickOne(s, c19Bases)}
	switch s.Intn(4) {
	case 0:
		c.Base = c19GenBase(s, false)
	case 1:
		c.Base, c.Maybe = c19GenBase(s, true), true
	}
	if s.Bool() {
		c.Version = genID(s)
	}
	return c
}

func sameIdentity(i *resource.Identity, t, id, v string) string {
	if i == nil {
		return "nil identity"
	}
	gv, _ := i.VersionID()
	if string(i.Type()) != t || i.ID() != id || gv != v {
		return fmt.Sprintf("got (%s, %s, %s)", i.Type(), i.ID(), gv)
	}
	return ""
}

func c19RunID(ctx *Ctx, c c19IDCase) {
	ctx.Eval(fmt.Sprintf("%s|%s|%s|%s", c.Type, c.ID, c.Version, c.Base), c.Version != "" || c.Base != "", "stage:identity")
	fail := func(what, detail string) {
		if c.Type == "Parameters" {
			what += " (type Parameters is absent from the REST URL pattern)"
		}
		ctx.Fail("identity round trip: "+what, fmt.Sprintf("(%s, %s, %s) base=%q: %s", c.Type, c.ID, c.Version, c.Base, detail))
	}
	g := guard(func() {
		ident, err := resource.NewIdentity(c.Type, c.ID, c.Version)
		if err != nil {
			fail("NewIdentity rejects a valid type/id", err.Error())
			return
		}
		if why := sameIdentity(ident, c.Type, c.ID, c.Version); why != "" {
			fail("NewIdentity accessors", why)
			return
		}
		rel := c.Type + "/" + c.ID
		relv := rel
		if c.Version != "" {
			relv += "/_history/" + c.Version
		}
		if ident.RelativeURIString() != rel || ident.PreferRelativeVersionedURIString() != relv || ident.String() != relv {
			fail("formatting", fmt.Sprintf("RelativeURIString=%q Prefer=%q String=%q", ident.RelativeURIString(), ident.PreferRelativeVersionedURIString(), ident.String()))
			return
		}
		if s, ok := ident.RelativeVersionedURIString(); ok != (c.Version != "") || (ok && s != relv) {
			fail("RelativeVersionedURIString", s)
			return
		}
		// identities derived from an identity that has already been formatted
		v2 := c.Version + "2"
		if len(v2) > 64 {
			v2 = "2"
		}
		nv, un := ident.WithNewVersion(v2), ident.Unversioned()
		relv2 := rel + "/_history/" + v2
		if why := sameIdentity(nv, c.Type, c.ID, v2); why != "" {
			fail("WithNewVersion accessors", why)
			return
		}
		if s, ok := nv.RelativeVersionedURIString(); !ok || s != relv2 || nv.String() != relv2 || nv.PreferRelativeVersionedURIString() != relv2 || nv.RelativeURIString() != rel {
			fail("WithNewVersion: formatting does not show the new version", fmt.Sprintf("versioned=%q String=%q Prefer=%q, want %q", s, nv.String(), nv.PreferRelativeVersionedURIString(), relv2))
			return
		}
		if u, ok := nv.RelativeVersionedURI(); !ok || u.GetValue() != relv2 || nv.PreferRelativeVersionedURI().GetValue() != relv2 {
			fail("WithNewVersion: formatting does not show the new version (Uri)", fmt.Sprintf("%q", u.GetValue()))
			return
		}
		if why := sameIdentity(un, c.Type, c.ID, ""); why != "" || un.String() != rel || un.PreferRelativeVersionedURIString() != rel {
			fail("Unversioned", fmt.Sprintf("%s String=%q", why, un.String()))
			return
		}
		if _, ok := un.RelativeVersionedURIString(); ok {
			fail("Unversioned: still formats a versioned URI", "")
			return
		}
		if why := sameIdentity(ident, c.Type, c.ID, c.Version); why != "" || ident.String() != relv {
			fail("deriving an identity changed the original", why+" String="+ident.String())
			return
		}
		if c.Type != "Parameters" {
			if back, err := reference.IdentityOf(reference.TypedFromIdentity(nv)); err != nil || sameIdentity(back, c.Type, c.ID, v2) != "" {
				fail("TypedFromIdentity(WithNewVersion(..)) does not carry the new version", fmt.Sprintf("%v %s", err, sameIdentity(back, c.Type, c.ID, v2)))
				return
			}
		}
		// every formatted string parses back to the same components
		for _, s := range []string{rel, relv} {
			wantV := ""
			if s == relv {
				wantV = c.Version
			}
			lit, err := reference.LiteralInfoFromURI(s)
			if err != nil {
				fail("LiteralInfoFromURI rejects a formatted identity", s+": "+err.Error())
				return
			}
			li, ok := lit.Identity()
			if !ok || sameIdentity(li, c.Type, c.ID, wantV) != "" {
				fail("LiteralInfoFromURI(format(identity)) differs", s+": "+sameIdentity(li, c.Type, c.ID, wantV))
				return
			}
			if t, ok := lit.Type(); !ok || string(t) != c.Type || lit.ServiceBaseURL() != "" || lit.URIString() != s {
				fail("LiteralInfo accessors of a relative reference", fmt.Sprintf("%s: type=%v base=%q uri=%q", s, t, lit.ServiceBaseURL(), lit.URIString()))
				return
			}
			if i2, err := reference.IdentityFromURL(s); err != nil || sameIdentity(i2, c.Type, c.ID, wantV) != "" {
				fail("IdentityFromURL(format(identity)) differs", fmt.Sprintf("%s: %v %s", s, err, sameIdentity(i2, c.Type, c.ID, wantV)))
				return
			}
			if i3, err := reference.IdentityFromRelativeURI(s); err != nil || sameIdentity(i3, c.Type, c.ID, wantV) != "" {
				fail("IdentityFromRelativeURI(format(identity)) differs", fmt.Sprintf("%s: %v %s", s, err, sameIdentity(i3, c.Type, c.ID, wantV)))
				return
			}
			// with a service base URL
			if c.Base != "" {
				wb, err := lit.WithServiceBaseURL(c.Base)
				if err != nil && c.Maybe {
					ctx.Count("generated_base_outside_the_documented_alphabet_refused")
					continue
				}
				if err != nil {
					fail("WithServiceBaseURL rejects a valid base", err.Error())
					return
				}
				if c.Maybe {
					ctx.Count("generated_base_outside_the_documented_alphabet_accepted")
				}
				abs := wb.URIString()
				if abs != c.Base+"/"+s {
					fail("absolute formatting", abs)
					return
				}
				back, err := reference.LiteralInfoFromURI(abs)
				if err != nil {
					fail("LiteralInfoFromURI rejects a formatted absolute reference", abs+": "+err.Error())
					return
				}
				bi, _ := back.Identity()
				if sameIdentity(bi, c.Type, c.ID, wantV) != "" || back.ServiceBaseURL() != c.Base || back.URIString() != abs {
					fail("parse(format(absolute)) differs", fmt.Sprintf("%s → identity %s base %q uri %q", abs, sameIdentity(bi, c.Type, c.ID, wantV), back.ServiceBaseURL(), back.URIString()))
					return
				}
				// re-basing an absolute reference: onto a longer base, onto one that differs only in the
				// case of a path letter (paths are case-sensitive), and back to relative
				for _, b2 := range []string{c.Base + "/v2", c19FlipPathCase(c.Base), c.Base} {
					rb, err := back.WithServiceBaseURL(b2)
					if err != nil {
						if b2 == c.Base+"/v2" || b2 == c.Base {
							fail("WithServiceBaseURL rejects a valid base when re-basing", b2+": "+err.Error())
							return
						}
						continue
					}
					if rb.ServiceBaseURL() != b2 || rb.URIString() != b2+"/"+s {
						fail("re-basing an absolute reference does not take the new base", fmt.Sprintf("%q → %q: base %q uri %q", abs, b2, rb.ServiceBaseURL(), rb.URIString()))
						return
					}
				}
				if rel0, err := back.WithServiceBaseURL(""); err == nil && (rel0.ServiceBaseURL() != "" || rel0.URIString() != s) {
					fail("clearing the base does not give the relative reference", fmt.Sprintf("%q → %q", abs, rel0.URIString()))
					return
				}
				if ia, err := reference.IdentityFromAbsoluteURL(abs); err != nil || sameIdentity(ia, c.Type, c.ID, wantV) != "" {
					fail("IdentityFromAbsoluteURL differs", fmt.Sprintf("%s: %v", abs, err))
					return
				}
				if wantV == "" {
					if iu, err := resource.NewIdentityFromURL(abs); err != nil || sameIdentity(iu, c.Type, c.ID, "") != "" {
						fail("resource.NewIdentityFromURL differs", fmt.Sprintf("%s: %v %s", abs, err, sameIdentity(iu, c.Type, c.ID, "")))
						return
					}
				} else if ih, err := resource.NewIdentityFromHistoryURL(abs); err != nil || sameIdentity(ih, c.Type, c.ID, wantV) != "" {
					fail("resource.NewIdentityFromHistoryURL differs", fmt.Sprintf("%s: %v %s", abs, err, sameIdentity(ih, c.Type, c.ID, wantV)))
					return
				}
			}
		}
		// strong vs weak
		strong := reference.TypedFromIdentity(ident)
		weak := reference.Weak(resource.Type(c.Type), relv)
		ls, err1 := reference.LiteralInfoOf(strong)
		lw, err2 := reference.LiteralInfoOf(weak)
		if err1 != nil || err2 != nil {
			fail("LiteralInfoOf fails for a strong or weak reference", fmt.Sprint(err1, err2))
			return
		}
		is, _ := ls.Identity()
		iw, _ := lw.Identity()
		ts, _ := ls.Type()
		tw, _ := lw.Type()
		if !is.Equal(iw) || ts != tw || ls.URIString() != lw.URIString() || ls.ServiceBaseURL() != lw.ServiceBaseURL() {
			fail("strong and weak reference parse to different information", fmt.Sprintf("strong=%v/%q weak=%v/%q", is, ls.URIString(), iw, lw.URIString()))
			return
		}
		i1, e1 := reference.IdentityOf(strong)
		i2, e2 := reference.IdentityOf(weak)
		if e1 != nil || e2 != nil || !i1.Equal(i2) || sameIdentity(i1, c.Type, c.ID, c.Version) != "" {
			fail("IdentityOf(strong) and IdentityOf(weak) differ", fmt.Sprint(i1, e1, i2, e2))
			return
		}
		if !reference.Is(strong, weak) || !reference.Is(weak, strong) || !reference.Is(strong, strong) || !reference.Is(weak, weak) {
			fail("reference.Is(strong, weak) is not true both ways", "")
			return
		}
		if c.Version == "" {
			if t, err := reference.Typed(resource.Type(c.Type), c.ID); err != nil || !reference.Is(t, weak) {
				fail("reference.Typed differs from the weak reference", fmt.Sprint(err))
				return
			}
		}
		// the FHIRPath `reference` element reads both back as the same string
		a := evalWith("%r.reference", nil, map[string]any{"r": strong})
		b := evalWith("%r.reference", nil, map[string]any{"r": weak})
		want := fmt.Sprintf(`[String{value:"%s"}]`, relv)
		if a.failed() || b.failed() || renderColl(a.Coll) != want || renderColl(b.Coll) != want {
			fail("FHIRPath `reference` differs between the strong and the weak reference", fmt.Sprintf("strong → %s, weak → %s, want %s", a, b, want))
		}
	})
	if g.Panic != "" {
		fail("panic@"+g.Panic, clip(g.Stack, 1500))
	}
}

// --- any string: accepted ⇒ parse-format-parse stable; rejected ⇒ error --------------

type c19StrCase struct {
	S string `json:"s"`
}

var c19Hostile = []string{"", "#", "##", "#a", "/", "//", "|", "|1", "#|", "_history", "/_history/", "http://", "https://", "http:/", "urn:", "urn:uuid:", "urn:oid:1.2", "%", "%zz", " ", "\x00", "é", "Patient", "Patient/", "/Patient/1", "Patient//1", "Patient/1/", "Patient/1/_history", "Patient/1/_history/", "patient/1", "Patient?x=1", ":", "a:b", "://", "http://[::1]/Patient/1", "http://h:99999/Patient/1"}

func c19GenStr(s Src) c19StrCase {
	t := allResTypes[s.Intn(len(allResTypes))].Name
	id, v := genID(s), genID(s)
	base := pickOne(s, c19Bases)
	forms := []string{t + "/" + id, t + "/" + id + "/_history/" + v, base + "/" + t + "/" + id, base + "/" + t + "/" + id + "/_history/" + v, "#" + id, "#", "urn:uuid:123e4567-e89b-12d3-a456-426614174000", "urn:oid:1.2.3", "http://example.org/fhir/ValueSet/x|1.0", "http://example.org/fhir/ValueSet/x#frag", base + "//" + t + "/" + id, base + "/" + t + "/" + id + "/", ""}
	str := pickOne(s, forms)
	if s.Prob(60) {
		b := []byte(str)
		for i := 0; i < s.Range(1, 4); i++ {
			pos := 0
			if len(b) > 0 {
				pos = s.Intn(len(b) + 1)
			}
			switch s.Intn(4) {
			case 0:
				if pos < len(b) {
					b = append(b[:pos:pos], b[pos+1:]...)
				}
			case 1:
				if pos < len(b) {
					b[pos] = pickOne(s, []byte("/_#|%:. aZ0-\x00"))
				}
			default:
				t := pickOne(s, c19Hostile)
				nb := append([]byte{}, b[:pos]...)
				nb = append(nb, t...)
				b = append(nb, b[pos:]...)
			}
		}
		str = string(b)
	}
	if s.Prob(5) {
		str = pickOne(s, c19Hostile)
	}
	return c19StrCase{S: str}
}

func c19RunStr(ctx *Ctx, c c19StrCase) {
	accepted := false
	g := guard(func() {
		lit, err := reference.LiteralInfoFromURI(c.S)
		if err == nil {
			if lit == nil {
				ctx.Fail("parse any string: LiteralInfoFromURI returned (nil, nil)", fmt.Sprintf("%q", c.S))
				return
			}
			accepted = true
			f := lit.URIString()
			lit2, err2 := reference.LiteralInfoFromURI(f)
			if err2 != nil {
				ctx.Fail("parse any string: the formatted form of an accepted reference is rejected", fmt.Sprintf("%q → %q: %v", c.S, f, err2))
				return
			}
			i1, ok1 := lit.Identity()
			i2, ok2 := lit2.Identity()
			t1, _ := lit.Type()
			t2, _ := lit2.Type()
			f1, _ := lit.FragmentID()
			f2, _ := lit2.FragmentID()
			n1, _ := lit.NonRESTURI()
			n2, _ := lit2.NonRESTURI()
			if ok1 != ok2 || !i1.Equal(i2) || t1 != t2 || f1 != f2 || n1 != n2 || lit.ServiceBaseURL() != lit2.ServiceBaseURL() || lit2.URIString() != f {
				ctx.Fail("parse any string: parse-format-parse changes the information", fmt.Sprintf("%q → %q → %q", c.S, f, lit2.URIString()))
				return
			}
			if !strings.Contains(strings.TrimPrefix(strings.TrimPrefix(c.S, "http://"), "https://"), "//") && f != c.S {
				ctx.Fail("parse any string: formatting an accepted reference without redundant slashes does not return the input", fmt.Sprintf("%q → %q", c.S, f))
				return
			}
		}
		// the other parsers: value or error, never a crash; identities they return are well formed
		reference.IdentityFromURL(c.S)
		reference.IdentityFromAbsoluteURL(c.S)
		reference.IdentityFromRelativeURI(c.S)
		resource.NewIdentityFromURL(c.S)
		resource.NewIdentityFromHistoryURL(c.S)
		canonical.IdentityFromReference(&dtpb.Canonical{Value: c.S})
		weak := &dtpb.Reference{Reference: &dtpb.Reference_Uri{Uri: &dtpb.String{Value: c.S}}}
		reference.LiteralInfoOf(weak)
		reference.IdentityOf(weak)
		reference.Is(weak, weak)
		frag := &dtpb.Reference{Reference: &dtpb.Reference_Fragment{Fragment: &dtpb.String{Value: c.S}}, Type: &dtpb.Uri{Value: "Patient"}}
		reference.LiteralInfoOf(frag)
		reference.IdentityOf(frag)
		evalWith("%r.reference", nil, map[string]any{"r": weak})
	})
	ctx.Eval(c.S, accepted && strings.Count(c.S, "/") >= 2 || !accepted && len(c.S) > 3, "stage:strings", fmt.Sprintf("accepted:%v", accepted))
	if g.Panic != "" {
		ctx.Fail("parse any string: panic@"+g.Panic, fmt.Sprintf("%q\n%s", c.S, clip(g.Stack, 1500)))
	}
}

// --- reference.Is laws on a small identity space --------------------------------------

type c19RefSpec struct {
	Form string `json:"form"` // strong weak weak-abs frag ident display empty
	T    int    `json:"t"`
	ID   int    `json:"id"`
	V    int    `json:"v"`
	// the members of Reference are not exclusive: any literal form may also carry a logical
	// identifier (1, 2: two different ones) and a display text
	Ident int  `json:"ident,omitempty"`
	Disp  bool `json:"disp,omitempty"`
	// Reference.type is an element of its own: 0 = as the constructor left it, 1 = absent, 2 = the
	// type's StructureDefinition URL, 3 = the short name again, 4 = another type's name (the literal
	// reference decides which resource is named; only the laws are asserted then)
	Decl int `json:"decl,omitempty"`
}

type c19IsCase struct {
	A, B, C c19RefSpec
}

var c19SmallTypes = []string{"Patient", "Observation"}
var c19SmallIDs = []string{"1", "2"}
var c19SmallVers = []string{"", "7"}

func c19GenSpec(s Src) c19RefSpec {
	r := c19RefSpec{Form: pickOne(s, []string{"strong", "strong", "weak", "weak", "weak-abs", "frag", "ident", "display", "weak-urn"}), T: s.Intn(2), ID: s.Intn(2), V: s.Intn(2)}
	if s.Prob(40) {
		r.Ident = 1 + s.Intn(2)
	}
	r.Disp = s.Prob(15)
	if s.Prob(45) {
		r.Decl = 1 + s.Intn(4)
	}
	return r
}

func (r c19RefSpec) build() *dtpb.Reference {
	ref := r.buildForm()
	if r.Ident > 0 {
		ref.Identifier = &dtpb.Identifier{System: &dtpb.Uri{Value: "http://example.org/ids"}, Value: &dtpb.String{Value: []string{"", "idA", "idB"}[r.Ident%3]}}
	}
	if r.Disp {
		ref.Display = &dtpb.String{Value: "shown"}
	}
	if r.Form != "frag" && r.Form != "ident" && r.Form != "display" {
		switch r.Decl {
		case 1:
			ref.Type = nil
		case 2:
			ref.Type = &dtpb.Uri{Value: "http://hl7.org/fhir/StructureDefinition/" + c19SmallTypes[r.T]}
		case 3:
			ref.Type = &dtpb.Uri{Value: c19SmallTypes[r.T]}
		case 4:
			ref.Type = &dtpb.Uri{Value: c19SmallTypes[1-r.T]}
		}
	}
	return ref
}

func (r c19RefSpec) buildForm() *dtpb.Reference {
	t, id, v := c19SmallTypes[r.T], c19SmallIDs[r.ID], c19SmallVers[r.V]
	rel := t + "/" + id
	if v != "" {
		rel += "/_history/" + v
	}
	switch r.Form {
	case "strong":
		i, _ := resource.NewIdentity(t, id, v)
		return reference.TypedFromIdentity(i)
	case "weak":
		return reference.Weak(resource.Type(t), rel)
	case "weak-abs":
		return reference.Weak(resource.Type(t), "http://example.org/fhir/"+rel)
	case "weak-urn":
		return &dtpb.Reference{Reference: &dtpb.Reference_Uri{Uri: &dtpb.String{Value: "urn:uuid:123e4567-e89b-12d3-a456-42661417400" + id}}}
	case "frag":
		return &dtpb.Reference{Type: &dtpb.Uri{Value: t}, Reference: &dtpb.Reference_Fragment{Fragment: &dtpb.String{Value: id}}}
	case "ident":
		return &dtpb.Reference{Identifier: &dtpb.Identifier{Value: &dtpb.String{Value: id}}}
	}
	return &dtpb.Reference{Display: &dtpb.String{Value: id}}
}

func c19RunIs(ctx *Ctx, c c19IsCase) {
	a, b, cc := c.A.build(), c.B.build(), c.C.build()
	var ab, ba, bc, ac, aa bool
	g := guard(func() {
		ab, ba, bc, ac, aa = reference.Is(a, b), reference.Is(b, a), reference.Is(b, cc), reference.Is(a, cc), reference.Is(a, a)
	})
	ctx.Eval(fmt.Sprint(c), ab || bc, "stage:is-laws", fmt.Sprintf("a-is-b:%v", ab))
	desc := fmt.Sprintf("a=%v b=%v c=%v: a~b %v, b~a %v, b~c %v, a~c %v", c.A, c.B, c.C, ab, ba, bc, ac)
	if g.Panic != "" {
		ctx.Fail("reference.Is panics: "+g.Panic, desc)
		return
	}
	if !aa {
		ctx.Fail("reference.Is is not reflexive", desc)
		return
	}
	if ab != ba {
		ctx.Fail("reference.Is is not symmetric", desc)
		return
	}
	// transitivity within the statement's scope: references that resolve to an identity or are proto-equal
	resolves := func(r *dtpb.Reference) bool { _, err := reference.IdentityOf(r); return err == nil }
	if ab && bc && !ac && resolves(a) && resolves(b) && resolves(cc) {
		ctx.Fail("reference.Is is not transitive", desc)
		return
	}
	if ab && bc && !ac {
		ctx.Fail("reference.Is is not transitive (a reference without a resolvable target is involved)", desc)
		return
	}
	// model: two references that resolve compare equal iff their identities are equal
	if resolves(a) && resolves(b) && a.GetIdentifier() == nil && b.GetIdentifier() == nil && c.A.Decl != 4 && c.B.Decl != 4 {
		ia, _ := reference.IdentityOf(a)
		ib, _ := reference.IdentityOf(b)
		va, vb := c.A.V, c.B.V
		if c.A.Form == "frag" { // a fragment reference names no version
			va = 0
		}
		if c.B.Form == "frag" {
			vb = 0
		}
		wantSame := c.A.T == c.B.T && c.A.ID == c.B.ID && va == vb
		if ia.Equal(ib) != wantSame && c.A.Form != "weak-urn" && c.B.Form != "weak-urn" {
			ctx.Fail("reference identities: equality differs from (type, id, version) equality", desc)
			return
		}
		if ab != wantSame && c.A.Form != "weak-urn" && c.B.Form != "weak-urn" {
			ctx.Fail("reference.Is differs from identity equality for resolvable references", desc)
		}
	}
}

// --- canonicals ---------------------------------------------------------------------

type c19CanonCase struct {
	URL, Version, Fragment string
	// the components are given as options; their order is the caller's choice
	FragFirst bool `json:"frag_first,omitempty"`
}

var c19CanonURLAlpha = strings.Split("abcXYZ019-._~:/?@!$&'()*+,;=%", "")
var c19CanonVerAlpha = strings.Split("abcXYZ019-._", "")

func c19GenCanon(s Src) c19CanonCase {
	c := c19CanonCase{URL: pickOne(s, []string{"http://example.org/fhir/ValueSet/", "http://hl7.org/fhir/StructureDefinition/", "urn:oid:", "https://x/", "a"}) + s.Str(c19CanonURLAlpha, 0, 12)}
	if s.Bool() {
		c.Version = s.Str(c19CanonVerAlpha, 1, 10)
	}
	if s.Bool() {
		c.Fragment = s.Str(c19CanonVerAlpha, 1, 10)
	}
	c.FragFirst = s.Prob(40)
	return c
}

func c19RunCanon(ctx *Ctx, c c19CanonCase) {
	ctx.Eval(fmt.Sprint(c), c.Version != "" || c.Fragment != "", "stage:canonical", fmt.Sprintf("options-reversed:%v", c.FragFirst && c.Version != "" && c.Fragment != ""))
	g := guard(func() {
		var opts []canonical.Option
		want := c.URL
		if c.Version != "" {
			opts = append(opts, canonical.WithVersion(c.Version))
			want += "|" + c.Version
		}
		if c.Fragment != "" {
			opts = append(opts, canonical.WithFragment(c.Fragment))
			want += "#" + c.Fragment
		}
		if c.FragFirst {
			slices.Reverse(opts)
		}
		can := canonical.New(c.URL, opts...)
		if can.GetValue() != want {
			ctx.Fail("canonical: New does not assemble url|version#fragment", fmt.Sprintf("%q vs %q", can.GetValue(), want))
			return
		}
		id, err := canonical.IdentityFromReference(can)
		if err != nil {
			ctx.Fail("canonical: a well-formed canonical is rejected", fmt.Sprintf("%q: %v", want, err))
			return
		}
		if id.Url != c.URL || id.Version != c.Version || id.Fragment != c.Fragment {
			ctx.Fail("canonical: split into url|version#fragment differs", fmt.Sprintf("%q → (%q, %q, %q)", want, id.Url, id.Version, id.Fragment))
			return
		}
		if id.String() != want {
			ctx.Fail("canonical: String() does not reassemble the input", fmt.Sprintf("%q → %q", want, id.String()))
			return
		}
		// the parts belong to the caller: overwriting them must not change what the same
		// canonical (the same element, and an equal fresh one) splits into afterwards
		id.Url, id.Version, id.Fragment = "scribble", "s", "f"
		for i, again := range []*dtpb.Canonical{can, {Value: want}} {
			id2, err := canonical.IdentityFromReference(again)
			if err != nil || id2.Url != c.URL || id2.Version != c.Version || id2.Fragment != c.Fragment || id2.String() != want {
				ctx.Fail("canonical: the split of a canonical depends on what a caller did with an earlier result", fmt.Sprintf("%q parsed again (%d) after the first result was overwritten → %+v, %v", want, i, id2, err))
				return
			}
		}
	})
	if g.Panic != "" {
		ctx.Fail("canonical: panic@"+g.Panic, fmt.Sprint(c))
	}
}

var _ = fhir.IsID

func TestC19(t *testing.T) {
	r := newRec("C19",
		"four generators: (identity) all 146 resource type names × ids/versions over the FHIR id alphabet (length 1..64, special ids such as '_history', '.', '-') × base URLs {none, http/https, port, nested path, %/$ characters, base ending in a type name, generated scheme://segment(/segment)* over the documented alphabet, and the same with characters from outside it - those may be refused, but an accepted base must round-trip}; in the Is-laws stage every literal form may also carry one of two logical identifiers and a display text: every formatter of resource.Identity / LiteralInfo and every parser (LiteralInfoFromURI, IdentityFromURL/AbsoluteURL/RelativeURI, resource.NewIdentityFrom[History]URL) must round-trip, strong (TypedFromIdentity/Typed) and weak references must parse to equal information, compare as the same reference and read back through FHIRPath `reference` as the same string; (strings) valid forms {relative, versioned, absolute, fragment, '#', URN, canonical |version #fragment, redundant slashes, ''} with 0..4 byte edits incl. hostile tokens: every parser returns a value or an error, accepted strings are parse-format-parse stable and format back to themselves when they have no redundant slashes; (is-laws) triples over a 2×2×2 identity space × forms {strong, weak, absolute weak, fragment+type, identifier, display, URN}: reflexive, symmetric, transitive on resolvable references, equal to identity equality; (canonical) url|version#fragment over the documented alphabets.  non-trivial = ≥ 2 components (version/base/fragment), an accepted string with ≥ 2 slashes or a rejected one longer than 3 bytes, a triple with at least one equal pair; distinct = FNV-64 of the case",
		"TypedFromIdentity is documented to panic on identities that jsonformat cannot normalise; only valid identities are passed to it")
	runProperty(t, r,
		Stage[c19IDCase]{Name: "identity", Gen: c19GenID, Run: c19RunID, N: pick(18000, 200000)},
		Stage[c19StrCase]{Name: "strings", Gen: c19GenStr, Run: c19RunStr, N: pick(30000, 300000)},
		Stage[c19IsCase]{Name: "is-laws", Gen: func(s Src) c19IsCase { return c19IsCase{c19GenSpec(s), c19GenSpec(s), c19GenSpec(s)} }, Run: c19RunIs, N: pick(18000, 150000)},
		Stage[c19CanonCase]{Name: "canonical", Gen: c19GenCanon, Run: c19RunCanon, N: pick(12000, 100000)},
	)
}

// FuzzC19: coverage-guided search over reference/identity/canonical strings; thorough tier only.
func FuzzC19(f *testing.F) {
	for _, s := range c19Hostile {
		f.Add(s)
	}
	for _, s := range []string{"Patient/1", "Patient/1/_history/2", "http://example.org/fhir/Patient/1", "https://a.b/x/Observation/o-1/_history/v.2", "#frag", "urn:uuid:123e4567-e89b-12d3-a456-426614174000", "http://example.org/fhir/ValueSet/x|1.0#f", "http://h//Patient/1", "http://h/Patient/1/"} {
		f.Add(s)
	}
	f.Fuzz(func(t *testing.T, s string) {
		if len(s) > 200 {
			return
		}
		fuzzCase(t, "C19", "strings", c19StrCase{S: s}, c19RunStr)
	})
}

// c19FlipPathCase changes the case of the last letter of the base URL's path (not of the
// scheme or host); the base itself when it has no path letter.
func c19FlipPathCase(base string) string {
	i := strings.Index(base, "://")
	if i < 0 {
		return base
	}
	j := strings.Index(base[i+3:], "/")
	if j < 0 {
		return base
	}
	start := i + 3 + j
	b := []byte(base)
	for k := len(b) - 1; k > start; k-- {
		switch {
		case b[k] >= 'a' && b[k] <= 'z':
			b[k] -= 32
			return string(b)
		case b[k] >= 'A' && b[k] <= 'Z':
			b[k] += 32
			return string(b)
		}
	}
	return base
}
