package zzverif

// Fixed fixtures: a rich Patient and the standard variable set for generated programs.

import (
	"time"

	cpb "github.com/google/fhir/go/proto/google/fhir/proto/r4/core/codes_go_proto"
	dtpb "github.com/google/fhir/go/proto/google/fhir/proto/r4/core/datatypes_go_proto"
	ppb "github.com/google/fhir/go/proto/google/fhir/proto/r4/core/resources/patient_go_proto"
	"github.com/verily-src/fhirpath-go/fhirpath/system"
	"github.com/verily-src/fhirpath-go/internal/fhir"
)

func fixturePatient() *ppb.Patient {
	bd := time.Date(1980, 2, 29, 0, 0, 0, 0, time.UTC)
	lu := time.Date(2020, 2, 29, 10, 30, 0, 500e6, time.FixedZone("+05:30", 19800))
	return &ppb.Patient{
		Id:     &dtpb.Id{Value: "p1"},
		Meta:   &dtpb.Meta{LastUpdated: &dtpb.Instant{ValueUs: lu.UnixMicro(), Timezone: "+05:30", Precision: dtpb.Instant_MILLISECOND}, VersionId: &dtpb.Id{Value: "3"}},
		Active: &dtpb.Boolean{Value: true},
		Name: []*dtpb.HumanName{
			{Use: &dtpb.HumanName_UseCode{Value: cpb.NameUseCode_OFFICIAL}, Family: &dtpb.String{Value: "Smith"}, Given: []*dtpb.String{{Value: "John"}, {Value: "Quincy"}}},
			{Use: &dtpb.HumanName_UseCode{Value: cpb.NameUseCode_NICKNAME}, Given: []*dtpb.String{{Value: "Johnny"}}},
			{Use: &dtpb.HumanName_UseCode{Value: cpb.NameUseCode_OFFICIAL}, Family: &dtpb.String{Value: "Smith"}, Given: []*dtpb.String{{Value: "John"}, {Value: "Quincy"}}},
			{Family: &dtpb.String{Value: "Zoë"}, Given: []*dtpb.String{{Value: "É"}}},
		},
		Telecom: []*dtpb.ContactPoint{
			{System: &dtpb.ContactPoint_SystemCode{Value: cpb.ContactPointSystemCode_PHONE}, Value: &dtpb.String{Value: "555-1234"}, Rank: &dtpb.PositiveInt{Value: 1}},
			{System: &dtpb.ContactPoint_SystemCode{Value: cpb.ContactPointSystemCode_EMAIL}, Value: &dtpb.String{Value: "j@example.org"}, Rank: &dtpb.PositiveInt{Value: 2}},
		},
		Gender:        &ppb.Patient_GenderCode{Value: cpb.AdministrativeGenderCode_MALE},
		BirthDate:     &dtpb.Date{ValueUs: bd.UnixMicro(), Timezone: "Z", Precision: dtpb.Date_DAY},
		Deceased:      &ppb.Patient_DeceasedX{Choice: &ppb.Patient_DeceasedX_Boolean{Boolean: &dtpb.Boolean{Value: false}}},
		MultipleBirth: &ppb.Patient_MultipleBirthX{Choice: &ppb.Patient_MultipleBirthX_Integer{Integer: &dtpb.Integer{Value: 2}}},
		Address:       []*dtpb.Address{{City: &dtpb.String{Value: "Springfield"}, Line: []*dtpb.String{{Value: "1 Main St"}, {Value: "Apt 2"}}}},
		Contact: []*ppb.Patient_Contact{
			{Name: &dtpb.HumanName{Family: &dtpb.String{Value: "Doe"}, Given: []*dtpb.String{{Value: "Jane"}}}},
			{Name: &dtpb.HumanName{Given: []*dtpb.String{{Value: "Jim"}, {Value: "Bo"}}}},
		},
		Identifier: []*dtpb.Identifier{{System: &dtpb.Uri{Value: "http://example.org/mrn"}, Value: &dtpb.String{Value: "12345"}}, {Value: &dtpb.String{Value: "12345"}}},
		Extension: []*dtpb.Extension{
			{Url: &dtpb.Uri{Value: "http://example.org/a"}, Value: &dtpb.Extension_ValueX{Choice: &dtpb.Extension_ValueX_StringValue{StringValue: &dtpb.String{Value: "ext-a"}}}},
			{Url: &dtpb.Uri{Value: "http://example.org/b"}, Value: &dtpb.Extension_ValueX{Choice: &dtpb.Extension_ValueX_Integer{Integer: &dtpb.Integer{Value: 7}}}},
			{Url: &dtpb.Uri{Value: "http://example.org/a"}, Value: &dtpb.Extension_ValueX{Choice: &dtpb.Extension_ValueX_Boolean{Boolean: &dtpb.Boolean{Value: true}}}},
		},
		ManagingOrganization: &dtpb.Reference{Reference: &dtpb.Reference_OrganizationId{OrganizationId: &dtpb.ReferenceId{Value: "org1", History: &dtpb.Id{Value: "2"}}}},
		Link:                 []*ppb.Patient_Link{{Other: &dtpb.Reference{Reference: &dtpb.Reference_PatientId{PatientId: &dtpb.ReferenceId{Value: "p2"}}}, Type: &ppb.Patient_Link_TypeCode{Value: cpb.LinkTypeCode_SEEALSO}}},
	}
}

// progVarsFor returns the standard variables; elements alias the given patient.
func progVarsFor(p *ppb.Patient) map[string]any {
	return map[string]any{
		"i": system.Integer(3), "j": system.Integer(-2147483648), "d": system.MustParseDecimal("2.50"), "s": system.String("héllo wörld"), "b": system.Boolean(true),
		"da": system.MustParseDate("2020-02-29"), "dt": system.MustParseDateTime("2020-02-29T10:30:00.000+05:30"), "t": system.MustParseTime("23:30:00"), "q": system.MustParseQuantity("45", "minutes"),
		"ints":  system.Collection{system.Integer(3), system.Integer(1), system.Integer(3), system.MustParseDecimal("1.0"), system.Integer(2147483647)},
		"strs":  system.Collection{system.String("b"), system.String("a"), system.String("b"), system.String("é")},
		"mixed": system.Collection{system.Integer(1), system.String("1"), system.Boolean(true), p.Name[0], system.MustParseDate("2020")},
		"none":  system.Collection{},
		"name":  p.Name[0],
		"names": system.Collection{p.Name[0], p.Name[1], p.Name[2]},
		"pat":   p,
	}
}

func fixtureInput(p *ppb.Patient) []fhir.Resource { return []fhir.Resource{p} }
