package zzverif

// G-PROG: expression trees over every grammar alternative, with three renderers
// (minimally parenthesised per the N1 precedence table, fully parenthesised,
// decorated with whitespace/comments) and a typed-ish random generator.

import (
	"sort"
	"strings"

	"github.com/verily-src/fhirpath-go/fhirpath/internal/funcs"
)

// PNode is one node of an expression tree.
//
//	lit   Op = literal text (one or more tokens separated by '\x00' for quantities)
//	var   Op = %name
//	this  $this
//	name  Op = identifier, Recv = receiver (nil: root term)
//	fn    Op = function name, Recv = receiver (nil: root term), Args
//	idx   Recv[Args[0]]
//	pol   Op = + | -, Recv = operand
//	bin   Op = operator, Args = [left, right]
//	typ   Op = is | as, T = type specifier, Recv = operand
//	par   ( Recv )
type PNode struct {
	K    string   `json:"k"`
	Op   string   `json:"op,omitempty"`
	T    string   `json:"t,omitempty"`
	Recv *PNode   `json:"r,omitempty"`
	Args []*PNode `json:"a,omitempty"`
}

// precedence levels, higher binds tighter (alternative order of `expression` in fhirpath.g4)
const (
	lvImplies = iota
	lvOr
	lvAnd
	lvMember
	lvEq
	lvIneq
	lvUnion
	lvType
	lvAdd
	lvMul
	lvPol
	lvIdx
	lvInv
	lvTerm
)

var binLevel = map[string]int{
	"implies": lvImplies, "or": lvOr, "xor": lvOr, "and": lvAnd, "in": lvMember, "contains": lvMember,
	"=": lvEq, "!=": lvEq, "~": lvEq, "!~": lvEq, "<": lvIneq, "<=": lvIneq, ">": lvIneq, ">=": lvIneq,
	"|": lvUnion, "+": lvAdd, "-": lvAdd, "&": lvAdd, "*": lvMul, "/": lvMul, "div": lvMul, "mod": lvMul,
}

var levelNames = []string{"implies", "or/xor", "and", "membership", "equality", "inequality", "union", "type", "additive", "multiplicative", "polarity", "indexer", "invocation", "term"}

func (n *PNode) level() int {
	switch n.K {
	case "lit", "var", "this", "par":
		return lvTerm
	case "name", "fn":
		if n.Recv == nil {
			return lvTerm
		}
		return lvInv
	case "idx":
		return lvIdx
	case "pol":
		return lvPol
	case "typ":
		return lvType
	case "bin":
		return binLevel[n.Op]
	}
	return lvTerm
}

// tokens renders the tree.  full=true parenthesises every operand that is not a
// term; full=false inserts only the parentheses the precedence table requires.
func (n *PNode) tokens(full bool) []string {
	var out []string
	n.emit(&out, full)
	return out
}

func wrap(out *[]string, c *PNode, need bool, full bool) {
	if need {
		*out = append(*out, "(")
		c.emit(out, full)
		*out = append(*out, ")")
		return
	}
	c.emit(out, full)
}

func (n *PNode) emit(out *[]string, full bool) {
	needs := func(c *PNode, minLevel int) bool {
		if full {
			return c.level() != lvTerm
		}
		return c.level() < minLevel
	}
	switch n.K {
	case "lit":
		*out = append(*out, strings.Split(n.Op, "\x00")...)
	case "var", "this":
		*out = append(*out, n.Op)
	case "par":
		*out = append(*out, "(")
		n.Recv.emit(out, full)
		*out = append(*out, ")")
	case "name", "fn":
		if n.Recv != nil {
			// a postfix receiver must be a term, an invocation or an indexer
			wrap(out, n.Recv, needs(n.Recv, lvIdx), full)
			*out = append(*out, ".")
		}
		*out = append(*out, n.Op)
		if n.K == "fn" {
			*out = append(*out, "(")
			for i, a := range n.Args {
				if i > 0 {
					*out = append(*out, ",")
				}
				a.emit(out, full) // arguments are complete expressions: never need parentheses
			}
			*out = append(*out, ")")
		}
	case "idx":
		wrap(out, n.Recv, needs(n.Recv, lvIdx), full)
		*out = append(*out, "[")
		n.Args[0].emit(out, full)
		*out = append(*out, "]")
	case "pol":
		*out = append(*out, n.Op)
		wrap(out, n.Recv, needs(n.Recv, lvPol), full)
	case "typ":
		wrap(out, n.Recv, needs(n.Recv, lvType), full)
		*out = append(*out, n.Op)
		for i, p := range strings.Split(n.T, ".") {
			if i > 0 {
				*out = append(*out, ".")
			}
			*out = append(*out, p)
		}
	case "bin":
		lv := binLevel[n.Op]
		wrap(out, n.Args[0], needs(n.Args[0], lv), full) // left-associative: equal level on the left is fine
		*out = append(*out, n.Op)
		wrap(out, n.Args[1], needs(n.Args[1], lv+1), full) // the right operand must bind tighter
	}
}

func isWordByte(b byte) bool {
	return b == '_' || (b >= '0' && b <= '9') || (b >= 'a' && b <= 'z') || (b >= 'A' && b <= 'Z') || b >= 0x80
}

// tightOK reports whether tokens a and b may be written without a gap.
func tightOK(a, b string) bool {
	switch a {
	case "(", "[", ",", ".":
		return b != "." || a != "." // never ".."
	}
	switch b {
	case ")", "]", ",", ".", "(", "[":
		// a number followed by '.' would lex as a decimal prefix only when digits follow: safe
		return true
	}
	return false
}

// joinTokens renders tokens with a single space wherever a gap is required.
func joinTokens(toks []string) string {
	var sb strings.Builder
	for i, t := range toks {
		if i > 0 && !tightOK(toks[i-1], t) {
			sb.WriteByte(' ')
		}
		sb.WriteString(t)
	}
	return sb.String()
}

var gapChoices = []string{" ", "  ", "\n", "\t", " /* c */ ", "/**/", " // c\n", "\r\n", " /* 'q' ) */ ", "\r", " // c\r", " // + 1\r\n", " //\n"}

// commentFragments: what a comment may hold — anything, including bytes that are not UTF-8
var commentFragments = []string{"c", "é", "日", "\xff", "\xc3", "\xe2\x82", "'", "\"", "`", ")", "(", "+ 1", "*", "/", "@", "$this", "\\", " ", "😀"}

// genGap: one of the fixed gaps, or a generated comment
func genGap(s Src) string {
	if !s.Prob(20) {
		return pickOne(s, gapChoices)
	}
	body := ""
	for i, n := 0, s.Intn(4); i < n; i++ {
		body += pickOne(s, commentFragments)
	}
	if s.Bool() {
		body = strings.ReplaceAll(body, "*/", "* /")
		return " /*" + body + "*/ "
	}
	return " //" + body + pickOne(s, []string{"\n", "\r", "\r\n"})
}

// decorateTokens draws a gap for every token boundary.
func decorateTokens(s Src, toks []string) string {
	var sb strings.Builder
	if s.Prob(30) {
		sb.WriteString(genGap(s))
	}
	for i, t := range toks {
		if i > 0 {
			if tightOK(toks[i-1], t) && s.Prob(50) {
				// no gap
			} else {
				g := genGap(s)
				if toks[i-1] == "/" && strings.HasPrefix(g, "/") {
					g = " " + g // "/" followed by "/*" or "//" would start a comment
				}
				sb.WriteString(g)
			}
		}
		sb.WriteString(t)
	}
	if s.Prob(30) {
		sb.WriteString(genGap(s))
	}
	return sb.String()
}

func (n *PNode) min() string  { return joinTokens(n.tokens(false)) }
func (n *PNode) full() string { return joinTokens(n.tokens(true)) }

// walk visits every node.
func (n *PNode) walk(f func(*PNode)) {
	if n == nil {
		return
	}
	f(n)
	n.Recv.walk(f)
	for _, a := range n.Args {
		a.walk(f)
	}
}

func (n *PNode) size() int {
	c := 0
	n.walk(func(*PNode) { c++ })
	return c
}

// ---------------------------------------------------------------------------
// function table as seen from the tree

type fnInfo struct {
	Name         string
	Min, Max     int
	Experimental bool
}

// tableFuncs returns the names and bounds of the base table plus the experimental
// table (read from the tree at run time).
func tableFuncs() []fnInfo {
	base := funcs.Clone()
	var out []fnInfo
	for k, f := range base {
		out = append(out, fnInfo{k, f.MinArity, f.MaxArity, false})
	}
	exp := funcs.AddExperimentalFuncs(funcs.FunctionTable{})
	for k, f := range exp {
		if _, ok := base[k]; !ok {
			out = append(out, fnInfo{k, f.MinArity, f.MaxArity, true})
		}
	}
	sort.Slice(out, func(i, j int) bool { return out[i].Name < out[j].Name })
	return out
}

// ---------------------------------------------------------------------------
// typed-ish generator

type progGen struct {
	s      Src
	fns    []fnInfo
	illPct int // percentage of sub-expressions drawn with a random type
	budget int
}

func lit(s string) *PNode             { return &PNode{K: "lit", Op: s} }
func pvar(n string) *PNode            { return &PNode{K: "var", Op: "%" + n} }
func pname(r *PNode, n string) *PNode { return &PNode{K: "name", Op: n, Recv: r} }
func pfn(r *PNode, n string, a ...*PNode) *PNode {
	return &PNode{K: "fn", Op: n, Recv: r, Args: a}
}
func pbin(op string, l, r *PNode) *PNode { return &PNode{K: "bin", Op: op, Args: []*PNode{l, r}} }

func valLit(v Val) *PNode {
	l, ok := v.lit()
	if !ok {
		return nil
	}
	if v.K == "Quantity" {
		i := strings.Index(l, " ")
		return lit(l[:i] + "\x00" + l[i+1:])
	}
	return lit(l)
}

var progTypes = []string{"I", "D", "S", "B", "Da", "DT", "T", "Q", "C", "E"}

// the variables every program may reference (supplied by progVars)
var progVarTypes = map[string]string{"i": "I", "j": "I", "d": "D", "s": "S", "b": "B", "da": "Da", "dt": "DT", "t": "T", "q": "Q", "ints": "C", "strs": "C", "mixed": "C", "none": "C", "name": "E", "names": "C", "pat": "E"}

var patientPaths = [][]string{{"name"}, {"name", "given"}, {"name", "family"}, {"active"}, {"birthDate"}, {"deceased"}, {"telecom"}, {"telecom", "value"}, {"address", "city"}, {"contact"}, {"contact", "name", "given"}, {"identifier", "value"}, {"gender"}, {"meta", "lastUpdated"}, {"extension"}, {"managingOrganization", "reference"}, {"multipleBirth"}, {"photo"}, {"id"}, {"contained"}, {"link", "other"}}

func (g *progGen) depthLeft(d int) bool { return d > 0 && g.budget > 0 }

func (g *progGen) gen(t string, d int) *PNode {
	g.budget--
	if g.s.Prob(g.illPct) {
		t = pickOne(g.s, progTypes)
	}
	if g.s.Prob(6) && d > 0 {
		return &PNode{K: "par", Recv: g.gen(t, d-1)}
	}
	switch t {
	case "I":
		return g.genInt(d)
	case "D":
		return g.genDec(d)
	case "S":
		return g.genStr(d)
	case "B":
		return g.genBool(d)
	case "Da":
		return g.genTemporal("Da", d)
	case "DT":
		return g.genTemporal("DT", d)
	case "T":
		return g.genTemporal("T", d)
	case "Q":
		return g.genQty(d)
	case "E":
		return g.genElem(d)
	}
	return g.genColl(d)
}

func (g *progGen) leaf(vals []Val, vars ...string) *PNode {
	if len(vars) > 0 && g.s.Prob(30) {
		return pvar(pickOne(g.s, vars))
	}
	for try := 0; try < 4; try++ {
		if n := valLit(pickOne(g.s, vals)); n != nil {
			return n
		}
	}
	if len(vars) > 0 {
		return pvar(vars[0])
	}
	return lit("{\x00}")
}

func (g *progGen) genInt(d int) *PNode {
	if !g.depthLeft(d) {
		return g.leaf(poolInts, "i", "j")
	}
	switch g.s.Intn(12) {
	case 0, 1:
		return pbin(pickOne(g.s, []string{"+", "-", "*", "div", "mod"}), g.gen("I", d-1), g.gen("I", d-1))
	case 2:
		if g.s.Prob(6) {
			// the magnitude of MinInt32 is not an Integer literal: every rendering must be rejected alike
			return &PNode{K: "pol", Op: "-", Recv: lit(pickOne(g.s, []string{"2147483648", "2147483648", "2147483649", "4294967296"}))}
		}
		return &PNode{K: "pol", Op: pickOne(g.s, []string{"-", "-", "+"}), Recv: g.gen("I", d-1)}
	case 3:
		return pfn(g.gen("S", d-1), "length")
	case 4:
		return pfn(g.gen("C", d-1), "count")
	case 5:
		return pfn(g.gen("S", d-1), "indexOf", g.gen("S", d-1))
	case 6:
		return pfn(g.gen("I", d-1), pickOne(g.s, []string{"abs", "toInteger"}))
	case 7:
		return pfn(g.gen("D", d-1), pickOne(g.s, []string{"floor", "ceiling", "truncate"}))
	case 8:
		return pfn(nil, "iif", g.gen("B", d-1), g.gen("I", d-1), g.gen("I", d-1))
	case 9:
		return &PNode{K: "idx", Recv: pvar("ints"), Args: []*PNode{g.gen("I", d-1)}}
	case 10:
		return pfn(g.gen("S", d-1), "toInteger")
	}
	return g.leaf(poolInts, "i", "j")
}

func (g *progGen) genDec(d int) *PNode {
	if !g.depthLeft(d) {
		return g.leaf(poolDecs, "d")
	}
	switch g.s.Intn(9) {
	case 0, 1:
		return pbin(pickOne(g.s, []string{"+", "-", "*", "/", "mod"}), g.gen("D", d-1), g.gen(pickOne(g.s, []string{"D", "I"}), d-1))
	case 2:
		return pbin("/", g.gen("I", d-1), g.gen("I", d-1))
	case 3:
		return &PNode{K: "pol", Op: "-", Recv: g.gen("D", d-1)}
	case 4:
		return pfn(g.gen("D", d-1), pickOne(g.s, []string{"abs", "sqrt", "exp", "ln", "round", "toDecimal"}))
	case 5:
		return pfn(g.gen("D", d-1), pickOne(g.s, []string{"round", "power", "log"}), g.gen("I", d-1))
	case 6:
		return pfn(g.gen("I", d-1), "toDecimal")
	}
	return g.leaf(poolDecs, "d")
}

func (g *progGen) genStr(d int) *PNode {
	if !g.depthLeft(d) {
		return g.leaf(poolStrs, "s")
	}
	switch g.s.Intn(12) {
	case 0:
		return pbin(pickOne(g.s, []string{"&", "+"}), g.gen("S", d-1), g.gen("S", d-1))
	case 1:
		return pfn(g.gen("S", d-1), pickOne(g.s, []string{"upper", "lower", "toString"}))
	case 2:
		return pfn(g.gen("S", d-1), "substring", g.gen("I", d-1))
	case 3:
		return pfn(g.gen("S", d-1), "substring", g.gen("I", d-1), g.gen("I", d-1))
	case 4:
		return pfn(g.gen("S", d-1), pickOne(g.s, []string{"replace", "replaceMatches"}), g.gen("S", d-1), g.gen("S", d-1))
	case 5:
		return pfn(g.gen(pickOne(g.s, progTypes), d-1), "toString")
	case 6:
		return pfn(pfn(g.gen("S", d-1), "toChars"), pickOne(g.s, []string{"first", "last"}))
	case 7:
		p := pickOne(g.s, [][]string{{"name", "given"}, {"name", "family"}, {"telecom", "value"}, {"id"}, {"gender"}})
		var n *PNode = pname(nil, "Patient")
		for _, x := range p {
			n = pname(n, x)
		}
		return pfn(n, "first")
	case 8:
		return pfn(nil, "iif", g.gen("B", d-1), g.gen("S", d-1))
	case 9:
		return pfn(pvar("strs"), "join", g.gen("S", d-1))
	}
	return g.leaf(poolStrs, "s")
}

func (g *progGen) genBool(d int) *PNode {
	if !g.depthLeft(d) {
		return g.leaf(poolBools, "b")
	}
	switch g.s.Intn(16) {
	case 0, 1:
		t := pickOne(g.s, []string{"I", "D", "S", "Da", "DT", "T", "Q", "I", "S"})
		return pbin(pickOne(g.s, []string{"<", "<=", ">", ">="}), g.gen(t, d-1), g.gen(t, d-1))
	case 2, 3:
		t := pickOne(g.s, progTypes)
		return pbin(pickOne(g.s, []string{"=", "!="}), g.gen(t, d-1), g.gen(t, d-1))
	case 4, 5:
		return pbin(pickOne(g.s, []string{"and", "or", "xor", "implies"}), g.gen("B", d-1), g.gen("B", d-1))
	case 6:
		return pfn(g.gen("B", d-1), "not")
	case 7:
		return pfn(g.gen("C", d-1), pickOne(g.s, []string{"exists", "empty", "isDistinct", "allTrue", "anyTrue", "allFalse", "anyFalse"}))
	case 8:
		return pfn(g.gen("S", d-1), pickOne(g.s, []string{"startsWith", "endsWith", "contains", "matches"}), g.gen("S", d-1))
	case 9:
		return &PNode{K: "typ", Op: "is", T: pickOne(g.s, progTypeNames), Recv: g.gen(pickOne(g.s, progTypes), d-1)}
	case 10:
		return pfn(g.gen("C", d-1), pickOne(g.s, []string{"all", "exists"}), g.genCrit(d-1))
	case 11:
		return pfn(g.gen(pickOne(g.s, progTypes), d-1), pickOne(g.s, []string{"convertsToBoolean", "convertsToInteger", "convertsToDecimal", "convertsToString", "convertsToDate", "convertsToDateTime", "convertsToTime", "convertsToQuantity"}))
	case 12:
		return pfn(g.gen(pickOne(g.s, []string{"S", "I", "D"}), d-1), "toBoolean")
	}
	return g.leaf(poolBools, "b")
}

var progTypeNames = []string{"Integer", "String", "Boolean", "Decimal", "Date", "DateTime", "Time", "Quantity", "System.Integer", "System.String", "FHIR.string", "string", "boolean", "HumanName", "FHIR.HumanName", "Patient", "Element", "Resource", "DomainResource", "code", "uri", "Coding", "integer", "date", "dateTime", "BackboneElement", "Any", "System.Any"}

func (g *progGen) genTemporal(t string, d int) *PNode {
	pool, v, conv := poolDates, "da", "toDate"
	switch t {
	case "DT":
		pool, v, conv = poolDateTimes, "dt", "toDateTime"
	case "T":
		pool, v, conv = poolTimes, "t", "toTime"
	}
	if !g.depthLeft(d) {
		return g.leaf(pool, v)
	}
	switch g.s.Intn(7) {
	case 0, 1:
		return pbin(pickOne(g.s, []string{"+", "-"}), g.gen(t, d-1), g.gen("Q", d-1))
	case 2:
		return pfn(g.gen(pickOne(g.s, []string{"S", t, "DT", "Da"}), d-1), conv)
	case 3:
		switch t {
		case "Da":
			return pfn(nil, "today")
		case "DT":
			return pfn(nil, "now")
		}
		return pfn(nil, "timeOfDay")
	case 4:
		if t == "Da" {
			return pname(pname(nil, "Patient"), "birthDate")
		}
		if t == "DT" {
			return pname(pname(pname(nil, "Patient"), "meta"), "lastUpdated")
		}
	}
	return g.leaf(pool, v)
}

func (g *progGen) genQty(d int) *PNode {
	if !g.depthLeft(d) {
		return g.leaf(poolQtys, "q")
	}
	switch g.s.Intn(6) {
	case 0:
		return pbin(pickOne(g.s, []string{"+", "-"}), g.gen("Q", d-1), g.gen("Q", d-1))
	case 1:
		return pfn(g.gen(pickOne(g.s, []string{"I", "D", "S", "B"}), d-1), "toQuantity")
	case 2:
		return pfn(g.gen(pickOne(g.s, []string{"I", "S"}), d-1), "toQuantity", g.gen("S", d-1))
	case 3:
		return &PNode{K: "pol", Op: "-", Recv: g.gen("Q", d-1)}
	case 4:
		return pfn(g.gen("Q", d-1), "abs")
	}
	return g.leaf(poolQtys, "q")
}

func (g *progGen) genElem(d int) *PNode {
	switch g.s.Intn(5) {
	case 0:
		return pvar(pickOne(g.s, []string{"name", "pat"}))
	case 1:
		return pfn(g.genColl(d-1), pickOne(g.s, []string{"first", "last"}))
	case 2:
		return &PNode{K: "idx", Recv: g.genColl(d - 1), Args: []*PNode{g.gen("I", 0)}}
	case 3:
		return &PNode{K: "typ", Op: "as", T: pickOne(g.s, progTypeNames), Recv: g.genElem(d - 1)}
	}
	return pname(pname(nil, "Patient"), pickOne(g.s, []string{"name", "active", "birthDate", "deceased", "managingOrganization", "meta", "text"}))
}

func (g *progGen) genColl(d int) *PNode {
	if !g.depthLeft(d) {
		switch g.s.Intn(5) {
		case 0:
			return lit("{\x00}")
		case 1:
			return pvar(pickOne(g.s, []string{"ints", "strs", "mixed", "none", "names"}))
		}
		p := pickOne(g.s, patientPaths)
		var n *PNode
		if g.s.Prob(80) {
			n = pname(nil, "Patient")
		}
		for _, x := range p {
			n = pname(n, x)
		}
		return n
	}
	switch g.s.Intn(14) {
	case 0, 1:
		return pfn(g.gen("C", d-1), "where", g.genCrit(d-1))
	case 2:
		return pfn(g.gen("C", d-1), "select", g.gen(pickOne(g.s, progTypes), d-1))
	case 3:
		return pfn(g.gen("C", d-1), pickOne(g.s, []string{"first", "last", "tail", "distinct", "children", "descendants"}))
	case 4:
		return pfn(g.gen("C", d-1), pickOne(g.s, []string{"skip", "take"}), g.gen("I", d-1))
	case 5:
		return pfn(g.gen("C", d-1), pickOne(g.s, []string{"intersect", "exclude"}), g.gen("C", d-1))
	case 6:
		return pfn(g.gen("C", d-1), "extension", g.gen("S", d-1))
	case 7:
		return pfn(g.gen("S", d-1), "toChars")
	case 8:
		return pfn(nil, "iif", g.gen("B", d-1), g.gen("C", d-1), g.gen("C", d-1))
	case 9:
		return pname(g.gen("C", d-1), pickOne(g.s, []string{"given", "family", "value", "use", "extension", "id", "url", "period", "start", "coding", "code", "reference", "resource", "zzNope"}))
	case 10:
		return &PNode{K: "typ", Op: "as", T: pickOne(g.s, progTypeNames), Recv: g.gen("C", d-1)}
	case 11:
		return &PNode{K: "this", Op: "$this"}
	}
	return g.genColl(0)
}

// genCrit draws a criterion (uses $this).
func (g *progGen) genCrit(d int) *PNode {
	this := &PNode{K: "this", Op: "$this"}
	switch g.s.Intn(9) {
	case 0:
		return pbin(pickOne(g.s, []string{">", "<", "=", "!=", ">=", "<="}), this, g.gen(pickOne(g.s, []string{"I", "S", "D"}), d))
	case 1:
		return pbin("=", pname(nil, "use"), lit("'official'"))
	case 2:
		return pfn(pname(nil, pickOne(g.s, []string{"family", "given", "value", "url"})), "exists")
	case 3:
		return &PNode{K: "typ", Op: "is", T: pickOne(g.s, progTypeNames), Recv: this}
	case 4:
		return pbin("<=", pfn(this, "length"), g.gen("I", d))
	case 5:
		return lit(pickOne(g.s, []string{"true", "false", "{\x00}", "1", "'x'"}))
	case 6:
		return pvar("ints")
	}
	return g.gen("B", d)
}

// genProgram draws a whole program of a random type.
func genProgram(s Src, depth, illPct int) *PNode {
	return genProgramOf(s, pickOne(s, progTypes), depth, illPct)
}

// genProgramOf draws a program of the given root type.
func genProgramOf(s Src, typ string, depth, illPct int) *PNode {
	g := &progGen{s: s, illPct: illPct, budget: 40}
	return g.gen(typ, depth)
}

// withLeafParens: a copy of the tree in which every literal, variable and $this that
// stands as an operand, receiver or argument is wrapped in an explicit pair of parentheses
// ("-(2147483648)", "(%i) + (1)"): parentheses around a term never change the meaning.
func (n *PNode) withLeafParens() *PNode {
	if n == nil {
		return nil
	}
	wrapLeaf := func(c *PNode) *PNode {
		if c == nil {
			return nil
		}
		switch c.K {
		case "lit", "var", "this":
			cp := *c
			return &PNode{K: "par", Recv: &cp}
		}
		return c.withLeafParens()
	}
	cp := *n
	cp.Recv = wrapLeaf(n.Recv)
	cp.Args = nil
	for _, a := range n.Args {
		cp.Args = append(cp.Args, wrapLeaf(a))
	}
	return &cp
}
