package zzverif

// C01 — Compile, Evaluate, EvaluateAs* and the FHIRPatch calls are total: the
// outcome of every call is a value or an error, never a panic or a hang.

import (
	"fmt"
	ppb "github.com/google/fhir/go/proto/google/fhir/proto/r4/core/resources/patient_go_proto"
	"go/scanner"
	"go/token"
	"os"
	"path/filepath"
	"sort"
	"strconv"
	"strings"
	"sync"
	"testing"
	"time"

	dtpb "github.com/google/fhir/go/proto/google/fhir/proto/r4/core/datatypes_go_proto"
	"github.com/verily-src/fhirpath-go/fhirpath"
	"github.com/verily-src/fhirpath-go/fhirpath/compopts"
	"github.com/verily-src/fhirpath-go/fhirpath/evalopts"
	"github.com/verily-src/fhirpath-go/fhirpath/patch"
	"github.com/verily-src/fhirpath-go/fhirpath/system"
	"github.com/verily-src/fhirpath-go/internal/fhir"
	"google.golang.org/protobuf/proto"
)

// ---------------------------------------------------------------------------
// shared: run one source under an option set on a set of inputs

type c01Opts struct {
	Compile int  `json:"copt"`  // 0 none 1 experimental 2 permissive 3 addfunction 4 experimental twice 5 bad addfunction
	Vars    bool `json:"vars"`  // supply the standard variables
	Time    bool `json:"time"`  // OverrideTime
	Input   int  `json:"input"` // 0 fixture patient 1 nil slice 2 empty slice 3 fixture + generated 4 generated only 5 hostile fixture
}

func c01CompileOpts(k int) []fhirpath.CompileOption {
	good := func(in system.Collection, n system.Integer) (system.Collection, error) {
		return append(system.Collection{n}, in...), nil
	}
	switch k {
	case 1:
		return []fhirpath.CompileOption{compopts.WithExperimentalFuncs()}
	case 2:
		return []fhirpath.CompileOption{compopts.Permissive()}
	case 3:
		return []fhirpath.CompileOption{compopts.AddFunction("myFn", good)}
	case 4:
		return []fhirpath.CompileOption{compopts.WithExperimentalFuncs(), compopts.WithExperimentalFuncs(), compopts.Permissive()}
	case 5:
		return []fhirpath.CompileOption{compopts.AddFunction("bad", 42), compopts.AddFunction("where", good), compopts.AddFunction("v", func(in system.Collection, xs ...system.Any) (system.Collection, error) { return in, nil })}
	}
	return nil
}

// c01Exec compiles and evaluates; returns the panic class ("" if none), the site and
// whether the source compiled.
func c01Exec(src string, o c01Opts, extra []fhir.Resource) (pan, stack string, compiled bool, evalErr bool) {
	var e *fhirpath.Expression
	var err error
	g := guard(func() { e, err = fhirpath.Compile(src, c01CompileOpts(o.Compile)...) })
	if g.Panic != "" {
		return "Compile: " + g.Panic, g.Stack, false, false
	}
	if err != nil {
		return "", "", false, false
	}
	if e == nil {
		return "Compile returned (nil, nil)", "", false, false
	}
	pat := fixturePatient()
	var input []fhir.Resource
	switch o.Input {
	case 0:
		input = []fhir.Resource{pat}
	case 1:
		input = nil
	case 2:
		input = []fhir.Resource{}
	case 3:
		input = append([]fhir.Resource{pat}, extra...)
	case 4:
		input = extra
	case 5:
		input = []fhir.Resource{c01HostilePatient()}
		pat = input[0].(*ppb.Patient)
	}
	var eopts []fhirpath.EvaluateOption
	if o.Vars {
		vars := progVarsFor(pat)
		names := make([]string, 0, len(vars))
		for k := range vars {
			names = append(names, k)
		}
		sort.Strings(names)
		for _, k := range names {
			eopts = append(eopts, evalopts.EnvVariable(k, vars[k]))
		}
	}
	if o.Time {
		eopts = append(eopts, evalopts.OverrideTime(time.Date(2024, 2, 29, 23, 59, 59, 999e6, time.FixedZone("x", 5*3600+1800))))
	}
	var coll system.Collection
	g = guard(func() { coll, err = e.Evaluate(input, eopts...) })
	if g.Panic != "" {
		return "Evaluate: " + g.Panic, g.Stack, true, false
	}
	evalErr = err != nil
	// the helpers: no panic; "a value or an error" - never neither, and never a value for an
	// evaluation that Evaluate itself reports as failed
	helperErr := map[string]error{}
	var canon *dtpb.Canonical
	for _, h := range []struct {
		name string
		f    func()
	}{
		{"EvaluateAsString", func() { _, helperErr["EvaluateAsString"] = e.EvaluateAsString(input, eopts...) }},
		{"EvaluateAsBool", func() { _, helperErr["EvaluateAsBool"] = e.EvaluateAsBool(input, eopts...) }},
		{"EvaluateAsInt32", func() { _, helperErr["EvaluateAsInt32"] = e.EvaluateAsInt32(input, eopts...) }},
		{"EvaluateAsCanonical", func() { canon, helperErr["EvaluateAsCanonical"] = e.EvaluateAsCanonical(input, eopts...) }},
		{"String", func() { _ = e.String() }},
	} {
		if g := guard(h.f); g.Panic != "" {
			return h.name + ": " + g.Panic, g.Stack, true, evalErr
		}
	}
	if helperErr["EvaluateAsCanonical"] == nil && canon == nil {
		return "EvaluateAsCanonical returns neither a canonical nor an error", "", true, evalErr
	}
	if evalErr {
		for _, n := range []string{"EvaluateAsString", "EvaluateAsBool", "EvaluateAsInt32", "EvaluateAsCanonical"} {
			if helperErr[n] == nil {
				return n + " returns a value although Evaluate fails on the same input", "", true, evalErr
			}
		}
	}
	if err == nil {
		for name, f := range map[string]func(){
			"Collection.ToBool":             func() { coll.ToBool() },
			"Collection.ToInt32":            func() { coll.ToInt32() },
			"Collection.ToFloat64":          func() { coll.ToFloat64() },
			"Collection.ToString":           func() { coll.ToString() },
			"Collection.ToSingletonBoolean": func() { coll.ToSingletonBoolean() },
			"Collection.ToCanonical":        func() { coll.ToCanonical() },
			"Collection.TryEqual":           func() { coll.TryEqual(coll) },
		} {
			if g := guard(f); g.Panic != "" {
				return name + ": " + g.Panic, g.Stack, true, evalErr
			}
		}
	}
	return "", "", true, evalErr
}

// c01HostilePatient: the fixture Patient with contents no constructor produces but the wire
// format can carry: enum numbers outside the declared values (proto3 enums are open),
// temporal elements without precision and time zone, empty choice wrappers, an empty
// reference, an extension without a value.  Evaluation may fail on it; it must not crash.
func c01HostilePatient() *ppb.Patient {
	p := fixturePatient()
	p.Gender = &ppb.Patient_GenderCode{Value: 99}
	if len(p.Name) > 1 {
		p.Name[0].Use = &dtpb.HumanName_UseCode{Value: -1}
		p.Name[1].Period = &dtpb.Period{Start: &dtpb.DateTime{ValueUs: 1}, End: &dtpb.DateTime{}}
	}
	if len(p.Telecom) > 0 {
		p.Telecom[0].System = &dtpb.ContactPoint_SystemCode{Value: 1000}
	}
	p.BirthDate = &dtpb.Date{ValueUs: 86400e6 * 365}
	p.Deceased = &ppb.Patient_DeceasedX{}
	p.MultipleBirth = &ppb.Patient_MultipleBirthX{}
	p.ManagingOrganization = &dtpb.Reference{}
	p.Extension = append(p.Extension, &dtpb.Extension{Url: &dtpb.Uri{Value: "http://example.org/empty"}, Value: &dtpb.Extension_ValueX{}}, &dtpb.Extension{})
	p.Meta = &dtpb.Meta{LastUpdated: &dtpb.Instant{}}
	return p
}

func c01GenOpts(s Src) c01Opts {
	return c01Opts{Compile: pickOne(s, []int{0, 0, 0, 1, 2, 3, 4, 5}), Vars: s.Prob(85), Time: s.Prob(30), Input: pickOne(s, []int{0, 0, 0, 0, 1, 2, 3, 4, 5, 5})}
}

// ---------------------------------------------------------------------------
// stage 1: grammar-directed programs

type c01ProgCase struct {
	Src   string   `json:"src"`
	Opts  c01Opts  `json:"opts"`
	Extra []string `json:"extra,omitempty"` // generated resources (prototext)
	nodes int
}

func c01GenExtra(s Src, o c01Opts) []string {
	var out []string
	if o.Input >= 3 {
		n := 1 + s.Intn(2)
		for i := 0; i < n; i++ {
			o := smallGen
			if s.Prob(25) {
				// contained slots, some of them holding something else than a ContainedResource
				o.Contained, o.MisAny, o.Force = true, 50, []string{"contained"}
			}
			out = append(out, resToText(genAnyResource(s, o)))
		}
	}
	return out
}

func c01GenProg(s Src) c01ProgCase {
	p := genProgram(s, s.Range(1, 5), pickOne(s, []int{0, 10, 25, 50}))
	o := c01GenOpts(s)
	src := p.min()
	if s.Prob(15) {
		src = p.full()
	}
	if o.Compile == 3 && s.Prob(50) {
		src = src + ".myFn(" + pickOne(s, []string{"1", "'x'", "{}", "%ints", "2147483647"}) + ")"
	}
	return c01ProgCase{Src: src, Opts: o, Extra: c01GenExtra(s, o), nodes: p.size()}
}

func c01Extras(texts []string) []fhir.Resource {
	var out []fhir.Resource
	for _, t := range texts {
		if r, err := resFromText(t); err == nil {
			out = append(out, r.(fhir.Resource))
		}
	}
	return out
}

func c01RunProg(ctx *Ctx, c c01ProgCase) {
	pan, stack, compiled, evalErr := c01Exec(c.Src, c.Opts, c01Extras(c.Extra))
	cls := "outcome:value"
	switch {
	case pan != "":
		cls = "outcome:panic"
	case !compiled:
		cls = "outcome:compile-error"
	case evalErr:
		cls = "outcome:eval-error"
	}
	ctx.Eval(c.Src+"|"+fmt.Sprint(c.Opts), compiled && strings.ContainsAny(c.Src, "+-*/.<>=&[("), cls)
	if pan != "" {
		ctx.Fail("total "+pan, fmt.Sprintf("%q opts=%+v\n%s", c.Src, c.Opts, clip(stack, 2500)))
	}
}

// ---------------------------------------------------------------------------
// stage 2: every (function, arity) × boundary receiver × boundary arguments

type c01FnCase struct {
	Fn   string   `json:"fn"`
	Recv string   `json:"recv"` // rendered receiver term
	Args []string `json:"args"`
	Opts c01Opts  `json:"opts"`
}

var c01Terms = func() []string {
	out := []string{"{}", "%ints", "%strs", "%mixed", "%none", "%names", "%name", "%pat", "Patient.name", "Patient.name.given", "Patient", "Patient.deceased", "Patient.birthDate", "Patient.telecom.rank", "Patient.extension", "Patient.managingOrganization",
		"(0 - 1)", "(0 - 2147483647 - 1)", "(0 - 1.5)", "%j", "$this", "(1/3)", "'' ", "(%q)", "(0 - 1 'mg')", "name", "1000000000", "0.0000000001", "(0-1000.0)"}
	for _, v := range poolAll {
		if l, ok := v.lit(); ok {
			out = append(out, l)
		}
	}
	return out
}()

var c01FnNames = func() []fnInfo {
	fs := tableFuncs()
	// names outside the table, to exercise resolution failures
	fs = append(fs, fnInfo{Name: "zzNoSuchFunction", Min: 0, Max: 1}, fnInfo{Name: "ofType", Min: 1, Max: 1}, fnInfo{Name: "is", Min: 1, Max: 1}, fnInfo{Name: "as", Min: 1, Max: 1}, fnInfo{Name: "aggregate", Min: 1, Max: 2})
	return fs
}()

func c01GenFn(s Src) c01FnCase {
	f := pickOne(s, c01FnNames)
	lo, hi := f.Min-1, f.Max+1
	if lo < 0 {
		lo = 0
	}
	n := s.Range(lo, hi)
	c := c01FnCase{Fn: f.Name, Recv: pickOne(s, c01Terms), Opts: c01GenOpts(s)}
	c.Opts.Compile = pickOne(s, []int{1, 1, 1, 0, 2})
	c.Opts.Vars = true
	// half the cases are kind-directed: receiver and arguments drawn from the boundary
	// pool of the kind the specification's well-typed example has, so that the body
	// of the function (not only its type checks) sees the boundary values
	spec, known := fnSpecByName[f.Name]
	directed := s.Prob(50) && known
	if directed {
		if ts := c01KindTerms(spec.Recv); ts != nil {
			c.Recv = pickOne(s, ts)
			// strings are the universal input of the conversion functions, whatever kind the
			// specification's example has
			if (spec.Recv[0] == '\'' && s.Prob(40)) || s.Prob(20) {
				c.Recv = quoteFP(genComposedString(s))
			}
		}
	}
	// unit conversion: a quantity written as a string, asked for in every unit word
	if strings.HasSuffix(f.Name, "Quantity") && s.Prob(40) {
		c.Recv = quoteFP(pickOne(s, []string{"14", "1", "0", "1.5", "-3", "1000000", "0.001"}) + pickOne(s, []string{" ", " ", "  ", ""}) + pickOne(s, c01UnitWords))
		for i := 0; i < n; i++ {
			c.Args = append(c.Args, quoteFP(pickOne(s, c01UnitWords)))
		}
		return c
	}
	for i := 0; i < n; i++ {
		a := pickOne(s, c01Terms)
		if directed && i < len(spec.Args) {
			if ts := c01KindTerms(spec.Args[i]); ts != nil {
				if spec.Args[i][0] == '\'' && s.Prob(25) {
					// every unit word of the grammar and of UCUM's time units, singular and plural
					c.Args = append(c.Args, quoteFP(pickOne(s, c01UnitWords)))
					continue
				}
				if spec.Args[i][0] == '\'' && s.Prob(30) {
					c.Args = append(c.Args, quoteFP(genComposedString(s)))
					continue
				}
				c.Args = append(c.Args, pickOne(s, ts))
				continue
			}
		}
		if s.Prob(25) {
			a = pickOne(s, []string{"$this", "$this = 1", "$this.length() > 1", "use = 'official'", "true", "false", "{}", "1", "-1", "2147483647", "(0 - 2147483647 - 1)", "'.'", "'('", "''", "'é'", "given", "Patient.name", "%ints", "1 > 2", "$this > 1", "'mg'", "'days'", "'http://example.org/a'"})
		}
		c.Args = append(c.Args, a)
	}
	return c
}

func c01RunFn(ctx *Ctx, c c01FnCase) {
	src := c.Recv + "." + c.Fn + "(" + strings.Join(c.Args, ", ") + ")"
	pan, stack, compiled, evalErr := c01Exec(src, c.Opts, nil)
	cls := "outcome:value"
	switch {
	case pan != "":
		cls = "outcome:panic"
	case !compiled:
		cls = "outcome:compile-error"
	case evalErr:
		cls = "outcome:eval-error"
	}
	ctx.Eval(src+"|"+fmt.Sprint(c.Opts), compiled, cls, "fn:"+c.Fn)
	if pan != "" {
		ctx.Fail("total "+pan, fmt.Sprintf("%q opts=%+v\n%s", src, c.Opts, clip(stack, 2500)))
	}
}

// ---------------------------------------------------------------------------
// stage 3: byte-mutated sources

type c01MutCase struct {
	Src  string  `json:"src"`
	Opts c01Opts `json:"opts"`
}

var c01Hostile = []string{"`", "'", "\\", "\\u", "\\u00e9", "@", "@T", "@2020", "@2020-13-45T25:61:61.5+99:99", "%", "$", "$this", "$index", "$total", "{", "}", "[", "]", "(", ")", "|", "~", "!~", "!=", "div", "mod", " in ", " contains ", "'x'", "2147483648", "9999999999999999999.9", "99999999999999999999999999999", ".", "..", ",", "/*", "*/", "//", "\n", "\x00", "\xff", "é", "%`x`", "%'x'", "`div`", "1 'mg'", "1 year", "as", "is", "true", "and", "-", "+", "&", "*", "/", "<", "<=", "=", "implies", "xor", "T", "Z", ":", "0", "00", "1e3", "0x10", "_", "Patient", ".first()", ".where(", "$this)", "@T10:00:00.000000000000000000001", "@2020-02-30", "@0000", "@9999-12-31T23:59:59.999+14:00"}

var (
	c01CorpusOnce sync.Once
	c01Corpus     []string
)

// corpus: string literals of the repository's own test files that compile.
func c01LoadCorpus() []string {
	c01CorpusOnce.Do(func() {
		seen := map[string]bool{}
		for _, pat := range []string{"fhirpath/*_test.go", "fhirpath/patch/*_test.go", "fhirpath/internal/*/*_test.go"} {
			files, _ := filepath.Glob(filepath.Join(env.RepoDir, pat))
			sort.Strings(files)
			for _, f := range files {
				b, err := os.ReadFile(f)
				if err != nil {
					continue
				}
				var sc scanner.Scanner
				fset := token.NewFileSet()
				sc.Init(fset.AddFile(f, fset.Base(), len(b)), b, nil, 0)
				for {
					_, tok, l := sc.Scan()
					if tok == token.EOF {
						break
					}
					if tok != token.STRING {
						continue
					}
					str, err := strconv.Unquote(l)
					if err != nil || len(str) < 3 || len(str) > 140 || seen[str] {
						continue
					}
					seen[str] = true
					if e, err, p, _ := compileGuarded(str); err == nil && e != nil && p == "" {
						c01Corpus = append(c01Corpus, str)
					}
				}
			}
		}
		sort.Strings(c01Corpus)
		if len(c01Corpus) == 0 {
			c01Corpus = []string{"Patient.name.given", "1 + 2 = 3", "Patient.name.where(use = 'official').family"}
		}
	})
	return c01Corpus
}

func c01Mutate(s Src, src string) string {
	b := []byte(src)
	n := s.Range(1, 8)
	for i := 0; i < n; i++ {
		pos := 0
		if len(b) > 0 {
			pos = s.Intn(len(b) + 1)
		}
		switch s.Intn(6) {
		case 0: // delete
			if len(b) > 0 && pos < len(b) {
				b = append(b[:pos:pos], b[pos+1:]...)
			}
		case 1: // duplicate a byte
			if pos < len(b) {
				b = append(b[:pos+1:pos+1], b[pos:]...)
			}
		case 2: // flip
			if pos < len(b) {
				b[pos] ^= byte(1 << uint(s.Intn(8)))
			}
		default: // insert a hostile token
			t := pickOne(s, c01Hostile)
			nb := append([]byte{}, b[:pos]...)
			nb = append(nb, t...)
			b = append(nb, b[pos:]...)
		}
	}
	return string(b)
}

func c01GenMut(s Src) c01MutCase {
	var base string
	if s.Prob(50) {
		base = pickOne(s, c01LoadCorpus())
	} else {
		base = genProgram(s, s.Range(1, 3), 10).min()
	}
	return c01MutCase{Src: c01Mutate(s, base), Opts: c01GenOpts(s)}
}

func c01RunMut(ctx *Ctx, c c01MutCase) {
	pan, stack, compiled, evalErr := c01Exec(c.Src, c.Opts, nil)
	cls := "outcome:value"
	switch {
	case pan != "":
		cls = "outcome:panic"
	case !compiled:
		cls = "outcome:compile-error"
	case evalErr:
		cls = "outcome:eval-error"
	}
	ctx.Eval(c.Src+"|"+fmt.Sprint(c.Opts), len(strings.Fields(c.Src)) >= 1 && len(c.Src) >= 3, cls)
	if pan != "" {
		ctx.Fail("total "+pan, fmt.Sprintf("%q opts=%+v\n%s", c.Src, c.Opts, clip(stack, 2500)))
	}
}

// ---------------------------------------------------------------------------
// stage 4: patch calls

type c01PatchCase struct {
	Res   string `json:"res"` // prototext; "" = nil resource
	Path  string `json:"path"`
	Op    string `json:"op"` // add insert delete replace move + pkg-level variants
	Name  string `json:"name"`
	Value Val    `json:"value"` // K=="" → nil value
	Index int    `json:"index"`
	Pkg   bool   `json:"pkg"` // use the package-level wrapper
	// Namesake: replace the value by an (empty) message of ANOTHER type with the same short
	// name as the target's (Person.GenderCode for Patient.gender, Organization.Contact for
	// Patient.contact), resolved at run time from the path's first result
	Namesake int `json:"namesake,omitempty"`
}

var c01PatchValues = []Val{{}, fv("string", "x"), fv("code", "official"), fv("code", "not-a-code"), fv("code", "Bad Code"), fv("integer", "5"), fv("integer", "-5"), fv("positiveInt", "3"), fv("unsignedInt", "0"), fv("boolean", "true"), fv("decimal", "1.5"), fv("date", "2020-01-01"), fv("dateTime", "2020-01-01T10:00:00Z"), fv("uri", "http://x"), fv("id", "abc"), fv("markdown", "m"), fv("base64Binary", "aGk=")}

func c01GenPatch(s Src) c01PatchCase {
	c := c01PatchCase{Op: pickOne(s, []string{"add", "insert", "delete", "replace", "move"}), Pkg: s.Prob(30)}
	var res proto.Message
	if s.Prob(8) {
		c.Res = ""
	} else {
		switch {
		case s.Prob(15):
			// contents no constructor produces but the wire format can carry (empty choice
			// wrappers and references, undeclared enum numbers …): patching may refuse, not crash
			res = c01HostilePatient()
		case s.Prob(50):
			res = fixturePatient()
		default:
			res = genAnyResource(s, defaultGen)
		}
		c.Res = resToText(res)
	}
	c.Value = pickOne(s, c01PatchValues)
	if s.Prob(35) {
		c.Value = pickOne(s, poolComplex)
	}
	if s.Prob(12) {
		c.Namesake = 1 + s.Intn(50)
	}
	c.Index = pickOne(s, []int{-2, -1, 0, 1, 2, 3, 4, 1 << 31, -(1 << 31), 1<<62 - 1})
	c.Name = pickOne(s, []string{"name", "given", "family", "active", "telecom", "birthDate", "deceased", "extension", "value", "use", "gender", "birth_date", "zzNope", "", "id", "contained", "rank", "identifier", "reference", "managingOrganization", "Name", "valueUs"})
	// paths
	typ := "Patient"
	var names [][]string
	if res != nil {
		typ = string(res.ProtoReflect().Descriptor().Name())
		if root, _, err := buildTree(res); err == nil {
			seen := map[string]bool{}
			root.walk(func(n *Node) {
				p := n.pathNames()
				k := strings.Join(p, ".")
				if !seen[k] && len(p) <= 4 {
					seen[k] = true
					names = append(names, p)
				}
			})
		}
	}
	switch {
	case len(names) > 0 && s.Prob(70):
		p := pickOne(s, names)
		c.Path = typ + "." + strings.Join(p, ".")
		switch s.Intn(6) {
		case 0:
			c.Path += "[" + strconv.Itoa(s.Range(-1, 3)) + "]"
		case 1:
			c.Path += "." + pickOne(s, []string{"first()", "last()", "where(true)", "where(false)", "count()", "exists()", "tail()", "extension('http://example.org/a')", "where($this.exists())", "select($this)", "toString()", "children()", "descendants()"})
		}
	default:
		c.Path = pickOne(s, []string{typ, "Patient.name", "Patient.name[0].given", "Patient.name.where(use = 'official')", "Patient.active", "Patient.deceased", "Patient.zzNope", "1", "'x'", "{}", "Patient.name.count()", "%context", "Patient.name.given.first()", "Patient.contained", "Patient.extension('http://example.org/a')", "Patient.extension[0].value", "$this", "Patient.name.select(given)", "Patient.managingOrganization.reference", "Patient.gender", "Patient.telecom.rank", "((", "Patient.name.first().given.last()", "Patient.link.other", "today()", "Patient.name | Patient.name", "Patient.telecom[0]", "Patient.telecom.value", "Patient.address[0].line", "Patient.communication", "Patient.name[1].period.start", "Patient.meta.lastUpdated", "Patient.birthDate", "Patient.multipleBirth", "Patient.extension", "Patient.extension.value"})
	}
	// a namesake value needs a target whose type has one: aim at such a node (replace/insert/
	// delete) or at a parent with such a field (add)
	if c.Namesake != 0 && res != nil {
		if root, _, err := buildTree(res); err == nil {
			type tgt struct{ path, name string }
			var tgts []tgt
			visit := func(n *Node) {
				if n.Msg == nil || n.Synth || n.ViaAny {
					return
				}
				md := n.Msg.ProtoReflect().Descriptor()
				path := typ
				if pn := n.pathNames(); len(pn) > 0 {
					path += "." + strings.Join(pn, ".")
				}
				if n != root && namesakeOf(md, 0) != nil {
					tgts = append(tgts, tgt{path, ""})
				}
				fs := md.Fields()
				for i := 0; i < fs.Len(); i++ {
					if fm := fs.Get(i).Message(); fm != nil && namesakeOf(fm, 0) != nil {
						tgts = append(tgts, tgt{path, fs.Get(i).JSONName()})
					}
				}
			}
			visit(root)
			root.walk(visit)
			if len(tgts) > 0 {
				t := pickOne(s, tgts)
				c.Path = t.path
				if t.name != "" {
					c.Op, c.Name = "add", t.name
				} else {
					c.Op = pickOne(s, []string{"replace", "replace", "insert"})
				}
			}
		}
	}
	return c
}

func c01RunPatch(ctx *Ctx, c c01PatchCase) {
	var res fhir.Resource
	if c.Res != "" {
		m, err := resFromText(c.Res)
		if err != nil {
			ctx.Fail("harness: cannot decode case", err.Error())
			return
		}
		res = m.(fhir.Resource)
	}
	var value fhir.Base
	if c.Value.K != "" {
		v, err := c.Value.build()
		if err != nil {
			ctx.Fail("harness: cannot build value", err.Error())
			return
		}
		if q, ok := v.(*dtpb.Quantity); ok {
			value = q
		} else if b, ok := v.(fhir.Base); ok {
			value = b
		} else {
			value = &dtpb.String{Value: fmt.Sprint(v)}
		}
	}
	if c.Namesake != 0 && res != nil {
		if out := evalWith(c.Path, []fhir.Resource{res}, nil); !out.failed() && len(out.Coll) > 0 {
			if m, ok := out.Coll[0].(proto.Message); ok {
				md := m.ProtoReflect().Descriptor()
				if c.Op == "add" {
					md = nil
					if f := m.ProtoReflect().Descriptor().Fields().ByJSONName(c.Name); f != nil && f.Message() != nil {
						md = f.Message()
					}
				}
				if md != nil {
					if ns := namesakeOf(md, c.Namesake); ns != nil {
						if nm := dynamicNew(ns); nm != nil {
							if b, ok := nm.Interface().(fhir.Base); ok {
								value = b
								ctx.Count("patch_namesake_values")
							}
						}
					}
				}
			}
		}
	}
	var err error
	var g outcome
	call := c.Op
	if c.Pkg {
		call = "patch." + c.Op
		g = guard(func() {
			switch c.Op {
			case "add":
				err = patch.Add(res, c.Path, c.Name, value, &patch.Options{})
			case "insert":
				err = patch.Insert(res, c.Path, value, c.Index)
			case "delete":
				err = patch.Delete(res, c.Path)
			case "replace":
				err = patch.Replace(res, c.Path, value)
			case "move":
				err = patch.Move(res, c.Path, c.Index, 0)
			}
		})
	} else {
		var e *patch.Expression
		var cerr error
		g = guard(func() { e, cerr = patch.Compile(c.Path) })
		if g.Panic == "" && cerr == nil {
			if e == nil {
				ctx.Fail("total patch.Compile returned (nil, nil)", c.Path)
				return
			}
			g = guard(func() {
				switch c.Op {
				case "add":
					err = e.Add(res, c.Name, value)
				case "insert":
					err = e.Insert(res, value, c.Index)
				case "delete":
					err = e.Delete(res)
				case "replace":
					err = e.Replace(res, value)
				case "move":
					err = e.Move(res, c.Index, 0)
				}
			})
		} else if cerr != nil {
			err = cerr
		}
	}
	cls := "outcome:nil"
	if g.Panic != "" {
		cls = "outcome:panic"
	} else if err != nil {
		cls = "outcome:error"
	}
	ctx.Eval(fmt.Sprintf("%s|%s|%s|%v|%d|%s", c.Res, c.Path, c.Op, c.Value, c.Index, c.Name), res != nil, cls, "patch:"+c.Op)
	if g.Panic != "" {
		vk := c.Value.K
		if vk == "" {
			vk = "nil"
		}
		ctx.Fail("total "+call+": "+g.Panic, fmt.Sprintf("%s path=%q name=%q value=%v index=%d res=%s\n%s", call, c.Path, c.Name, vk, c.Index, clip(c.Res, 300), clip(g.Stack, 2500)))
	}
}

// ---------------------------------------------------------------------------
// stage 5: operators and functions applied to the element paths of generated resources

type c01ResCase struct {
	Res  string  `json:"res"`
	Src  string  `json:"src"`
	Opts c01Opts `json:"opts"`
}

var c01ResOps = []string{"=", "!=", "<", ">", "<=", ">=", "+", "-", "*", "/", "div", "mod", "&", "and", "or", "xor", "implies"}
var c01ResFns0 = []string{"toString()", "toInteger()", "toDecimal()", "toBoolean()", "toDate()", "toDateTime()", "toTime()", "toQuantity()", "convertsToQuantity()", "convertsToDecimal()", "abs()", "ceiling()", "floor()", "round()", "sqrt()", "ln()", "exp()", "truncate()", "length()", "upper()", "toChars()", "not()", "distinct()", "isDistinct()", "children()", "descendants()", "first()", "last()", "tail()", "count()", "exists()", "empty()", "allTrue()", "anyFalse()", "value", "extension", "id"}

func c01GenRes(s Src) c01ResCase {
	res := genAnyResource(s, defaultGen)
	typ := string(res.ProtoReflect().Descriptor().Name())
	var paths []string
	if root, _, err := buildTree(res); err == nil {
		seen := map[string]bool{}
		root.walk(func(n *Node) {
			p := typ + "." + strings.Join(n.pathNames(), ".")
			if !seen[p] {
				seen[p] = true
				paths = append(paths, p)
			}
		})
	}
	if len(paths) == 0 {
		paths = []string{typ}
	}
	// keyword-named elements need the delimited spelling
	pick := func() string {
		p := pickOne(s, paths)
		parts := strings.Split(p, ".")
		for i := range parts {
			parts[i] = fpIdent(parts[i])
		}
		return strings.Join(parts, ".")
	}
	a, b := pick(), pick()
	var src string
	switch s.Intn(6) {
	case 0, 1:
		src = a + " " + pickOne(s, c01ResOps) + " " + b
	case 2:
		src = a + "." + pickOne(s, c01ResFns0)
	case 3:
		src = a + "." + pickOne(s, []string{"intersect", "exclude", "where", "select", "all", "exists", "indexOf", "startsWith", "contains", "substring", "power", "log", "round", "skip", "take", "toQuantity", "extension", "join"}) + "(" + pickOne(s, []string{b, "$this = " + b, "1", "'x'", "$this", "{}"}) + ")"
	case 4:
		src = a + " " + pickOne(s, c01ResOps) + " " + pickOne(s, c01Terms)
	default:
		src = "-" + a + " is " + pickOne(s, progTypeNames) + " or (" + b + " as " + pickOne(s, progTypeNames) + ").exists()"
	}
	o := c01GenOpts(s)
	o.Input = 4
	return c01ResCase{Res: resToText(res), Src: src, Opts: o}
}

func c01RunRes(ctx *Ctx, c c01ResCase) {
	pan, stack, compiled, evalErr := c01Exec(c.Src, c.Opts, c01Extras([]string{c.Res}))
	cls := "outcome:value"
	switch {
	case pan != "":
		cls = "outcome:panic"
	case !compiled:
		cls = "outcome:compile-error"
	case evalErr:
		cls = "outcome:eval-error"
	}
	ctx.Eval(c.Res+"|"+c.Src, compiled, cls)
	if pan != "" {
		ctx.Fail("total "+pan, fmt.Sprintf("%q on %s\n%s", c.Src, clip(c.Res, 400), clip(stack, 2500)))
	}
}

var c01UnitWords = []string{"year", "years", "month", "months", "week", "weeks", "day", "days", "hour", "hours", "minute", "minutes", "second", "seconds", "millisecond", "milliseconds",
	"a", "mo", "wk", "d", "h", "min", "s", "ms", "mg", "1", "", "Years", "WEEKS", "fortnights"}

// c01EnumUnits: every pair of unit words as source and target of a unit conversion, for the
// receivers that can carry a unit (a quantity string, a Quantity literal, a number)
func c01EnumUnits(yield func(c01FnCase)) {
	for _, fn := range []string{"toQuantity", "convertsToQuantity"} {
		for _, to := range c01UnitWords {
			for _, from := range c01UnitWords {
				for _, amount := range []string{"14", "0", "1.5"} {
					yield(c01FnCase{Fn: fn, Recv: quoteFP(amount + " " + from), Args: []string{quoteFP(to)}, Opts: c01Opts{Compile: 1, Vars: true}})
				}
			}
			for _, recv := range []string{"14", "1.5", "14 days", "3 'wk'", "1 year", "0 'ms'", "true"} {
				yield(c01FnCase{Fn: fn, Recv: recv, Args: []string{quoteFP(to)}, Opts: c01Opts{Compile: 1, Vars: true}})
			}
		}
	}
}

func TestC01(t *testing.T) {
	r := newRec("C01",
		"generated resources handed in beside the fixture include (25%) contained slots, half of them filled with an Any that holds something else than a ContainedResource (a bare resource, a datatype, a non-FHIR message, an unknown type, an undecodable payload, nothing); string receivers and arguments of the function matrix include strings composed of value-shaped fragments ('5days', '1\\t mg', '08', '0x1F' …).  five generators: (resource-paths) operators, type tests and functions applied to pairs of element paths of a generated resource of any R4 type; (programs) typed-ish random expression trees over every operator and table function with boundary leaves, compiled under a random option set and evaluated on the fixture Patient / nil / empty / generated resources / a hostile Patient (undeclared enum numbers, temporal elements without precision, empty choice wrappers and references), results pushed through EvaluateAs* and Collection.To*; (fn-matrix) every table function × arity in [Min-1, Max+1] × boundary receiver × boundary arguments; (mutants) byte-mutated sources (1..8 edits incl. hostile tokens) of generated programs and of the repository's own test expressions; (patch) add/insert/delete/replace/move × tree paths and odd paths × right/sibling/wrong/nil values × boundary indexes × nil resource.  non-trivial = the source compiled and contains an operator or invocation (programs, fn-matrix), the mutant is non-blank (mutants), the resource is non-nil (patch); distinct = FNV-64 of (source/arguments, option set)",
		"nil entries inside the input slice, nil option values and typed-nil elements are outside the domain", "a hang is a case still running after 30 s (observed cases take < 5 ms)")
	runProperty(t, r,
		Stage[c01FnCase]{Name: "fn-matrix", Gen: c01GenFn, Run: c01RunFn, N: pick(12000, 250000)},
		Stage[c01FnCase]{Name: "unit-matrix", Enum: c01EnumUnits, Run: c01RunFn},
		Stage[c01ProgCase]{Name: "programs", Gen: c01GenProg, Run: c01RunProg, N: pick(8000, 200000)},
		Stage[c01MutCase]{Name: "mutants", Gen: c01GenMut, Run: c01RunMut, N: pick(6000, 150000)},
		Stage[c01PatchCase]{Name: "patch", Gen: c01GenPatch, Run: c01RunPatch, N: pick(3000, 80000)},
		Stage[c01ResCase]{Name: "resource-paths", Gen: c01GenRes, Run: c01RunRes, N: pick(5000, 120000)},
	)
}

// FuzzC01: coverage-guided search over (source, option byte); thorough tier only.
func FuzzC01(f *testing.F) {
	for _, s := range c01LoadCorpus() {
		f.Add(s, byte(0))
	}
	for _, s := range c01Hostile {
		f.Add("Patient.name"+s, byte(1))
		f.Add(s+" 1", byte(3))
	}
	for _, s := range c01Terms {
		f.Add(s+".abs()", byte(2))
	}
	f.Fuzz(func(t *testing.T, src string, o byte) {
		if len(src) > 300 {
			return
		}
		c := c01MutCase{Src: src, Opts: c01Opts{Compile: int(o) % 6, Vars: o&8 == 0, Time: o&16 != 0, Input: int(o>>5) % 3}}
		fuzzCase(t, "C01", "mutants", c, c01RunMut)
	})
}
