package zzverif

// C09 — date/time arithmetic matches calendar arithmetic and preserves precision.
// Oracle: M-CAL, an independent proleptic-Gregorian model (no time.AddDate).

import (
	"fmt"
	"math/big"
	"strconv"
	"strings"
	"testing"

	dtpb "github.com/google/fhir/go/proto/google/fhir/proto/r4/core/datatypes_go_proto"
	"github.com/verily-src/fhirpath-go/fhirpath/system"
	"google.golang.org/protobuf/proto"
)

type c09Case struct {
	Kind   string `json:"kind"`   // Date DateTime Time | qty
	Start  string `json:"start"`  // temporal text (no @)
	Op     string `json:"op"`     // + -
	Amount string `json:"amount"` // decimal text, may be negative
	Unit   string `json:"unit"`
	UCUM   bool   `json:"ucum"`            // unit written as a quoted string
	Unit2  string `json:"unit2,omitempty"` // qty cases: second operand
	Amt2   string `json:"amt2,omitempty"`
	// Elem: the start value is delivered as a FHIR date/dateTime/time element (a variable)
	// instead of a literal; SubMs > 0 adds that many microseconds below the millisecond to an
	// element of MICROSECOND precision (valid FHIR; System values stop at the millisecond)
	Elem  bool `json:"elem,omitempty"`
	SubMs int  `json:"subms,omitempty"`
}

// --- civil calendar (Howard Hinnant's algorithms) ---------------------------

// --- the model -----------------------------------------------------------------

var c09UnitRank = map[string]int{"year": 0, "month": 1, "week": 2, "day": 2, "hour": 3, "minute": 4, "second": 5, "millisecond": 5}

var c09Keywords = []string{"year", "years", "month", "months", "week", "weeks", "day", "days", "hour", "hours", "minute", "minutes", "second", "seconds", "millisecond", "milliseconds"}
var c09UCUM = map[string]string{"a": "year", "mo": "month", "wk": "week", "d": "day", "h": "hour", "min": "minute", "s": "second", "ms": "millisecond"}
var c09NonTemporal = []string{"mg", "1", "", "kg", "m", "years old", "Day"}

func c09Canon(unit string, ucum bool) (string, string) {
	if !ucum {
		u := strings.TrimSuffix(unit, "s")
		if _, ok := c09UnitRank[u]; ok {
			return u, "keyword"
		}
		return "", "non-temporal"
	}
	// a quoted unit: calendar keywords in quotes and UCUM time units may be accepted or rejected
	if u, ok := c09UCUM[unit]; ok {
		return u, "ucum"
	}
	u := strings.TrimSuffix(unit, "s")
	if _, ok := c09UnitRank[u]; ok && unit != "ms" {
		return u, "quoted-keyword"
	}
	return "", "non-temporal"
}

type c09Result struct {
	class   string   // value | error | either-error-or-value | any (out of range)
	t       temporal // expected value (class value / either)
	clamped bool     // month-end clamping or truncation happened
}

// amount helpers: truncated integer part, and milliseconds for second units
func c09Trunc(amount string) int64 {
	r := ratOf(amount)
	q := new(big.Int).Quo(r.Num(), r.Denom())
	return q.Int64()
}

func c09Millis(amount string) int64 {
	r := new(big.Rat).Mul(ratOf(amount), big.NewRat(1000, 1))
	// the implementation rounds seconds to three places; amounts in the generator have ≤ 3 decimals
	q := new(big.Int).Quo(r.Num(), r.Denom())
	return q.Int64()
}

// toPrecision converts n units of `unit` to whole units of precision p (truncating).
func c09Convert(n int64, unit string, p int) int64 {
	days := func() (int64, bool) { // whole days, if the unit is day or week
		switch unit {
		case "week":
			return n * 7, true
		case "day":
			return n, true
		}
		return 0, false
	}
	switch p {
	case 0: // years
		switch unit {
		case "month":
			return n / 12
		case "hour":
			return n / (365 * 24)
		case "minute":
			return n / (365 * 24 * 60)
		case "second":
			return n / (365 * 24 * 60 * 60)
		case "millisecond":
			return n / (365 * 24 * 60 * 60) / 1000
		}
		d, _ := days()
		return d / 365
	case 1: // months
		switch unit {
		case "hour":
			return n / (30 * 24)
		case "minute":
			return n / (30 * 24 * 60)
		case "second":
			return n / (30 * 24 * 60 * 60)
		case "millisecond":
			return n / (30 * 24 * 60 * 60) / 1000
		}
		d, _ := days()
		return d / 30
	case 2: // days
		switch unit {
		case "hour":
			return n / 24
		case "minute":
			return n / (24 * 60)
		case "second":
			return n / (24 * 60 * 60)
		case "millisecond":
			return n / (24 * 60 * 60 * 1000)
		}
	case 3: // hours
		switch unit {
		case "minute":
			return n / 60
		case "second":
			return n / 3600
		case "millisecond":
			return n / 3600000
		}
	case 4: // minutes
		switch unit {
		case "second":
			return n / 60
		case "millisecond":
			return n / 60000
		}
	}
	return n
}

var c09PrecUnit = []string{"year", "month", "day", "hour", "minute", "second"}

func c09Model(c c09Case) c09Result {
	isTime := c.Kind == "Time"
	t, err := parseAnyTemporal(c.Start, isTime)
	if err != nil {
		panic("harness: bad start " + c.Start)
	}
	unit, ucls := c09Canon(c.Unit, c.UCUM)
	if ucls == "non-temporal" {
		return c09Result{class: "error"}
	}
	prec := t.prec
	if prec > 5 {
		prec = 5
	}
	// amount in the unit
	var n int64
	if unit == "second" {
		n = c09Millis(c.Amount)
		unit = "millisecond"
		if prec < 5 { // whole seconds first when they are going to be converted anyway
			n = c09Trunc(c.Amount) * 1000
		}
	} else {
		n = c09Trunc(c.Amount)
	}
	if c.Op == "-" {
		n = -n
	}
	clamped := false
	// a unit finer than the precision is converted to whole units of the precision
	if c09UnitRank[unit] > prec {
		conv := c09Convert(n, unit, prec)
		// anything dropped on the way?
		clamped = true
		n, unit = conv, c09PrecUnit[prec]
		if unit == "second" {
			unit, n = "millisecond", n*1000
		}
	}
	res := t
	class := "value"
	if ucls != "keyword" {
		class = "either-error-or-value"
	}
	if ou, _ := c09Canon(c.Unit, c.UCUM); c.Kind == "Date" && c09UnitRank[ou] >= 3 {
		class = "either-error-or-value" // a time-of-day unit applied to a Date: the model value or an error
	}
	if isTime {
		switch unit {
		case "year", "month":
			return c09Result{class: "error"}
		case "week", "day":
			return c09Result{class: "either-error-or-value", t: t}
		}
		ms := int64(t.h)*3600000 + int64(t.m)*60000 + int64(t.s)*1000 + int64(t.nanos()/1e6)
		switch unit {
		case "hour":
			ms += n * 3600000
		case "minute":
			ms += n * 60000
		case "millisecond":
			ms += n
		}
		ms %= 86400000
		if ms < 0 {
			ms += 86400000
		}
		res.h, res.m, res.s = int(ms/3600000), int(ms/60000%60), int(ms/1000%60)
		res.frac = fmt.Sprintf("%03d", ms%1000)
		return c09Result{class: class, t: res, clamped: clamped}
	}
	y, m, d := int64(t.Y), int64(t.M), int64(t.D)
	switch unit {
	case "year", "month":
		total := y*12 + (m - 1)
		if unit == "year" {
			total += n * 12
		} else {
			total += n
		}
		ny, nm := total/12, total%12
		if nm < 0 {
			nm += 12
			ny--
		}
		nm++
		if ny >= 1 && ny <= 9999 {
			if dim := daysInMonth(ny, nm); d > dim {
				d = dim
				clamped = true
			}
		}
		y, m = ny, nm
	case "week", "day":
		if unit == "week" {
			n *= 7
		}
		if prec < 2 {
			panic("harness: day unit on a partial date must have been converted")
		}
		y, m, d = civilFromDays(daysFromCivil(y, m, d) + n)
	default: // hour minute millisecond: instant arithmetic in the value's own offset
		ms := int64(t.h)*3600000 + int64(t.m)*60000 + int64(t.s)*1000 + int64(t.nanos()/1e6)
		switch unit {
		case "hour":
			ms += n * 3600000
		case "minute":
			ms += n * 60000
		case "millisecond":
			ms += n
		}
		dd := ms / 86400000
		ms %= 86400000
		if ms < 0 {
			ms += 86400000
			dd--
		}
		y, m, d = civilFromDays(daysFromCivil(y, m, d) + dd)
		res.h, res.m, res.s = int(ms/3600000), int(ms/60000%60), int(ms/1000%60)
		res.frac = fmt.Sprintf("%03d", ms%1000)
	}
	if y < 1 || y > 9999 {
		return c09Result{class: "any"}
	}
	res.Y, res.M, res.D = int(y), int(m), int(d)
	if prec < 1 {
		res.M = 1
	}
	if prec < 2 {
		res.D = 1
	}
	return c09Result{class: class, t: res, clamped: clamped}
}

// --- generator -------------------------------------------------------------------

var c09Amounts = []string{"0", "1", "2", "11", "12", "13", "23", "24", "25", "29", "30", "31", "59", "60", "61", "364", "365", "366", "1000", "1.5", "0.999", "2.25", "3600", "86400", "100000"}

func c09Gen(s Src) c09Case {
	if s.Prob(8) {
		us := []string{"mg", "kg", "day", "days", "year", "1", "s", "second", "Mg", "MG", "S", "Day"}
		return c09Case{Kind: "qty", Op: pickOne(s, []string{"+", "-", "<", "=", ">"}), Amount: pickOne(s, c09Amounts), Unit: pickOne(s, us), Amt2: pickOne(s, c09Amounts), Unit2: pickOne(s, us)}
	}
	kind, start := c09GenStart(s)
	c := c09Case{Kind: kind, Start: start, Op: pickOne(s, []string{"+", "-"}), Amount: pickOne(s, c09Amounts)}
	if s.Prob(15) {
		c.Amount = "-" + c.Amount
	}
	switch s.Intn(10) {
	case 0:
		c.Unit, c.UCUM = pickOne(s, c09NonTemporal), true
	case 1:
		c.Unit, c.UCUM = pickOne(s, []string{"a", "mo", "wk", "d", "h", "min", "s", "ms", "day", "years"}), true
	default:
		c.Unit = pickOne(s, c09Keywords)
	}
	if s.Prob(25) {
		c.Elem = true
		if s.Prob(50) {
			c.SubMs = pickOne(s, []int{1, 499, 500, 501, 999, s.Range(1, 999)})
		}
	}
	// a third of the amounts sit on a conversion boundary: k coarser units expressed in
	// the drawn unit, ±1 (365 days, 8759 hours, 31536000000 milliseconds, 53 weeks …)
	if sz, ok := c09UnitMillis[strings.TrimSuffix(c.Unit, "s")]; ok && !c.UCUM && s.Prob(33) {
		var coarser []int64
		for _, t := range []int64{c09UnitMillis["year"], c09UnitMillis["month"], c09UnitMillis["week"], c09UnitMillis["day"], c09UnitMillis["hour"], c09UnitMillis["minute"], c09UnitMillis["second"]} {
			if t > sz {
				coarser = append(coarser, t)
			}
		}
		if len(coarser) > 0 {
			t := pickOne(s, coarser)
			// … up to amounts of centuries and millennia (beyond what 64 bits of nanoseconds hold)
			k := pickOne(s, []int64{1, 1, 2, 3, 10, 100, 292, 293, 300, 1000, 5000})
			n := (k*t+sz-1)/sz + int64(s.Range(-1, 1))
			c.Amount = strconv.FormatInt(n, 10)
			if n > 1 && s.Prob(20) {
				// … and a hair below the boundary: the fraction is dropped, never rounded up
				c.Amount = strconv.FormatInt(n-1, 10) + pickOne(s, []string{".5", ".999", ".9996", ".99951", ".0004"})
			}
			if s.Prob(15) {
				c.Amount = "-" + c.Amount
			}
		}
	}
	return c
}

var c09UnitMillis = map[string]int64{"year": 365 * 86400000, "month": 30 * 86400000, "week": 7 * 86400000, "day": 86400000, "hour": 3600000, "minute": 60000, "second": 1000, "millisecond": 1}

func c09Enum(yield func(c09Case)) {
	// month ends of the leap cycle × every keyword × a few amounts × all precisions
	for y := int64(2019); y <= 2023; y++ {
		for m := int64(1); m <= 12; m++ {
			if (y == 2019 && m < 3) || (y == 2023 && m > 2) {
				continue
			}
			d := daysInMonth(y, m)
			day := fmt.Sprintf("%04d-%02d-%02d", y, m, d)
			starts := [][2]string{{"Date", day}, {"Date", day[:7]}, {"Date", day[:4]}, {"DateTime", day + "T"}, {"DateTime", day + "T23"}, {"DateTime", day + "T23:30"}, {"DateTime", day + "T23:30:30+05:30"}, {"DateTime", day + "T00:00:00.000Z"}}
			for _, st := range starts {
				for _, u := range c09Keywords {
					for _, a := range []string{"1", "12", "13", "25", "61", "366"} {
						for _, op := range []string{"+", "-"} {
							yield(c09Case{Kind: st[0], Start: st[1], Op: op, Amount: a, Unit: u})
						}
					}
				}
			}
		}
	}
	for _, tm := range []string{"00", "23", "00:00", "23:59", "23:30", "00:00:00", "23:59:59", "23:59:59.999", "12:00:00.500"} {
		for _, u := range c09Keywords {
			for _, a := range []string{"0", "1", "23", "24", "25", "59", "60", "61", "1000", "1.5", "0.999", "86400"} {
				for _, op := range []string{"+", "-"} {
					yield(c09Case{Kind: "Time", Start: tm, Op: op, Amount: a, Unit: u})
				}
			}
		}
	}
}

func c09Source(c c09Case) (string, map[string]any) {
	vars := map[string]any{}
	start := "@" + c.Start
	if c.Kind == "Time" {
		start = "@T" + c.Start
	}
	if c.Elem {
		if el := c09StartElement(c); el != nil {
			vars["x"] = el
			start = "%x"
		}
	}
	q := ""
	if strings.HasPrefix(c.Amount, "-") {
		qq, err := system.ParseQuantity(c.Amount, c.Unit)
		if err != nil {
			panic(err)
		}
		vars["q"] = qq
		q = "%q"
	} else if c.UCUM {
		if strings.ContainsAny(c.Unit, "'\\") {
			qq, _ := system.ParseQuantity(c.Amount, c.Unit)
			vars["q"] = qq
			q = "%q"
		} else {
			q = c.Amount + " '" + c.Unit + "'"
		}
	} else {
		q = c.Amount + " " + c.Unit
	}
	return start + " " + c.Op + " " + q, vars
}

// c09StartElement: the start value as a FHIR element, nil when FHIR has no such element
// (times without seconds, dateTimes with hour/minute precision or a time part without offset).
func c09StartElement(c c09Case) proto.Message {
	isTime := c.Kind == "Time"
	t, err := parseAnyTemporal(c.Start, isTime)
	if err != nil {
		return nil
	}
	sub := int64(0)
	if c.SubMs > 0 && t.prec == 6 && len(t.frac) == 3 {
		sub = int64(c.SubMs)
	}
	switch c.Kind {
	case "Time":
		if e, err := protoTime(c.Start); err == nil {
			if sub > 0 {
				e.ValueUs, e.Precision = e.ValueUs+sub, dtpb.Time_MICROSECOND
			}
			return e
		}
	case "Date":
		if e, err := protoDate(c.Start); err == nil {
			return e
		}
	case "DateTime":
		if t.prec >= 3 && !t.hasOff {
			return nil
		}
		if e, err := protoDateTime(c.Start); err == nil {
			if sub > 0 {
				e.ValueUs, e.Precision = e.ValueUs+sub, dtpb.DateTime_MICROSECOND
			}
			return e
		}
	}
	return nil
}

func c09Run(ctx *Ctx, c c09Case) {
	if c.Kind == "qty" {
		c09RunQty(ctx, c)
		return
	}
	src, vars := c09Source(c)
	out := evalWith(src, nil, vars)
	exp := c09Model(c)
	isTime := c.Kind == "Time"
	t0, _ := parseAnyTemporal(c.Start, isTime)
	unit, ucls := c09Canon(c.Unit, c.UCUM)
	prec := t0.prec
	if prec > 5 {
		prec = 5
	}
	finer := ucls != "non-temporal" && c09UnitRank[unit] > prec
	monthEnd := !isTime && t0.prec >= 2 && int64(t0.D) >= 28
	zero := ratOf(c.Amount).Sign() == 0
	nontrivial := !zero && (monthEnd || finer || t0.prec < 5 || exp.clamped || isTime)
	delivery := "start:literal"
	if vars["x"] != nil {
		delivery = "start:fhir-element"
		src += fmt.Sprintf(" with %%x = FHIR %s %s (+%d µs)", c.Kind, c.Start, c.SubMs)
	}
	ctx.Eval(src+fmt.Sprint(vars["q"]), nontrivial, delivery, "kind:"+c.Kind, "prec:"+c09PrecUnit[prec], "unit:"+ucls+":"+unit, "expect:"+exp.class)
	sigBase := fmt.Sprintf("calendar %s(%s) %s %s[%s]", c.Kind, c09PrecUnit[prec], c.Op, unit, ucls)
	fail := func(what string) {
		want := exp.class
		if exp.class == "value" || exp.class == "either-error-or-value" {
			want += " " + c09Render(exp.t, isTime)
		}
		ctx.Fail(sigBase+": "+what, fmt.Sprintf("%s → %s, want %s", src, out, want))
	}
	if out.Panic != "" {
		fail("panic@" + out.Panic)
		return
	}
	if out.CompileErr != nil {
		ctx.Fail("harness: program does not compile", src+": "+out.CompileErr.Error())
		return
	}
	switch exp.class {
	case "any":
		return
	case "error":
		if out.Err == nil {
			if len(out.Coll) == 0 {
				fail("empty instead of an error for a non-temporal/unsupported unit")
			} else {
				fail("value instead of an error for a non-temporal/unsupported unit")
			}
		}
		return
	case "either-error-or-value":
		if out.Err != nil {
			return
		}
	}
	if out.Err != nil {
		fail("error: " + clip(out.Err.Error(), 80))
		return
	}
	if len(out.Coll) != 1 {
		fail(fmt.Sprintf("%d items instead of one", len(out.Coll)))
		return
	}
	if c13GoType15(out.Coll[0]) != c.Kind {
		fail("result type " + c13GoType15(out.Coll[0]))
		return
	}
	got, err := parseAnyTemporal(fmt.Sprint(out.Coll[0]), isTime)
	if err != nil {
		fail("unparsable result")
		return
	}
	gp := got.prec
	if gp > 5 {
		gp = 5
	}
	if gp != prec {
		fail(fmt.Sprintf("precision changed to %s", c09PrecUnit[gp]))
		return
	}
	if got.hasOff != t0.hasOff || (got.hasOff && got.off != t0.off) {
		fail("offset changed")
		return
	}
	w := exp.t
	same := got.Y == w.Y && got.M == w.M && got.D == w.D
	if isTime {
		same = true
	}
	if prec >= 3 {
		same = same && got.h == w.h
	}
	if prec >= 4 {
		same = same && got.m == w.m
	}
	if prec >= 5 {
		same = same && got.s == w.s
		if same {
			// seconds and milliseconds are one precision and a second-precision layout does
			// not print the fraction: compare the full value through the library's own `=`
			lit := "@" + c09Render(w, isTime)
			if !t0.hasOff && !isTime {
				lit = strings.TrimSuffix(lit, "Z")
			}
			if vars["x"] != nil && c.SubMs > 0 && t0.prec == 6 && len(t0.frac) == 3 {
				// the element carries microseconds below the printed millisecond; what they
				// become is C15's matter — here the printed milliseconds must be the model's
				same = got.nanos()/1e6 == w.nanos()/1e6
			} else {
				eq := evalWith("%r = "+lit, nil, map[string]any{"r": out.Coll[0]})
				same = renderColl(eq.Coll) == "[Boolean:true]"
			}
		}
	}
	if !same {
		// defect models
		tag := ""
		if fmt.Sprint(out.Coll[0]) == strings.TrimSuffix(c09Render(t0, isTime), "") || c09SameValue(got, t0, prec, isTime) {
			tag = " (=unchanged operand)"
		}
		fail("wrong value" + tag)
	}
}

func c09SameValue(a, b temporal, prec int, isTime bool) bool {
	if !isTime && (a.Y != b.Y || a.M != b.M || a.D != b.D) {
		return false
	}
	if prec >= 3 && a.h != b.h {
		return false
	}
	if prec >= 4 && a.m != b.m {
		return false
	}
	if prec >= 5 && (a.s != b.s || a.nanos()/1e6 != b.nanos()/1e6) {
		return false
	}
	return true
}

func c09Render(t temporal, isTime bool) string {
	d := fmt.Sprintf("%04d-%02d-%02d", t.Y, t.M, t.D)
	tm := fmt.Sprintf("%02d:%02d:%02d", t.h, t.m, t.s)
	if t.frac != "" {
		tm += "." + t.frac
	}
	if isTime {
		return "T" + tm
	}
	return d + "T" + tm + t.tzString()
}

func c09RunQty(ctx *Ctx, c c09Case) {
	quote := func(a, u string) string {
		for _, k := range c09Keywords {
			if k == u {
				return a + " " + u
			}
		}
		return a + " '" + u + "'"
	}
	src := quote(c.Amount, c.Unit) + " " + c.Op + " " + quote(c.Amt2, c.Unit2)
	out := evalWith(src, nil, nil)
	ctx.Eval(src, c.Unit != c.Unit2, "kind:qty")
	if out.Panic != "" || out.CompileErr != nil {
		ctx.Fail("calendar quantity "+c.Op+": "+out.kind(), src+" → "+out.String())
		return
	}
	if c.Unit != c.Unit2 {
		if out.Err == nil && len(out.Coll) != 0 {
			ctx.Fail("calendar quantity "+c.Op+": value for operands of different units", src+" → "+out.String())
		}
		return
	}
	a, b := ratOf(c.Amount), ratOf(c.Amt2)
	if out.Err != nil || len(out.Coll) != 1 {
		ctx.Fail("calendar quantity "+c.Op+": no value for operands of one unit", src+" → "+out.String())
		return
	}
	switch c.Op {
	case "+", "-":
		want := new(big.Rat).Add(a, b)
		if c.Op == "-" {
			want = new(big.Rat).Sub(a, b)
		}
		q, ok := out.Coll[0].(system.Quantity)
		parts := strings.SplitN(fmt.Sprint(q), " ", 2)
		if !ok || ratOf(parts[0]).Cmp(want) != 0 || len(parts) != 2 || parts[1] != c.Unit {
			ctx.Fail("calendar quantity "+c.Op+": wrong result", fmt.Sprintf("%s → %s, want %s %s", src, out, ratStr(want), c.Unit))
		}
	default:
		cmp := a.Cmp(b)
		want := map[string]bool{"<": cmp < 0, "=": cmp == 0, ">": cmp > 0}[c.Op]
		if renderColl(out.Coll) != fmt.Sprintf("[Boolean:%v]", want) {
			ctx.Fail("calendar quantity "+c.Op+": wrong comparison", fmt.Sprintf("%s → %s, want %v", src, out, want))
		}
	}
}

// --- relations ---------------------------------------------------------------------

type c09RelCase struct {
	A c09Case `json:"a"`
	B string  `json:"b"` // a second, larger amount (monotonicity)
}

func c09GenRel(s Src) c09RelCase {
	kind, start := c09GenStart(s)
	a := c09Case{Kind: kind, Start: start, Op: "+", Amount: pickOne(s, c09Amounts), Unit: pickOne(s, c09Keywords)}
	return c09RelCase{A: a, B: pickOne(s, c09Amounts)}
}

func c09RunRel(ctx *Ctx, c c09RelCase) {
	a := c.A
	b := a
	b.Amount = c.B
	ea, eb := c09Model(a), c09Model(b)
	srcA, _ := c09Source(a)
	srcB, _ := c09Source(b)
	ctx.Eval(srcA+"|"+srcB, a.Amount != b.Amount, "relation")
	if ea.class != "value" || eb.class != "value" {
		return
	}
	isTime := a.Kind == "Time"
	// monotone in the amount (Time wraps: excluded)
	if !isTime && ratOf(a.Amount).Cmp(ratOf(b.Amount)) <= 0 {
		out := evalWith("("+srcA+") <= ("+srcB+")", nil, nil)
		if renderColl(out.Coll) != "[Boolean:true]" {
			ctx.Fail("calendar relation: not monotone in the amount", fmt.Sprintf("(%s) <= (%s) → %s", srcA, srcB, out))
			return
		}
	}
	// (x + q) - q = x when the model saw no clamping or truncation
	if !ea.clamped {
		q := strings.SplitN(srcA, " + ", 2)[1]
		start := strings.SplitN(srcA, " + ", 2)[0]
		src := "((" + srcA + ") - " + q + ") = " + start
		// subtracting may clamp on its own (e.g. Mar 31 - 1 month): ask the model
		back := a
		back.Op = "-"
		back.Start = strings.TrimSuffix(strings.TrimPrefix(c09Render(ea.t, isTime), "T"), "")
		t0, _ := parseAnyTemporal(a.Start, isTime)
		_ = t0
		mid := evalWith(srcA, nil, nil)
		if mid.failed() || len(mid.Coll) != 1 {
			return
		}
		back.Start = fmt.Sprint(mid.Coll[0])
		if eb2 := c09Model(back); eb2.clamped || eb2.class != "value" {
			return
		}
		out := evalWith(src, nil, nil)
		if renderColl(out.Coll) != "[Boolean:true]" {
			ctx.Fail("calendar relation: (x + q) - q = x broken without clamping", fmt.Sprintf("%s → %s", src, out))
		}
	}
}

func TestC09(t *testing.T) {
	r := newRec("C09",
		"cases are (start value, + or -, amount, unit); the start value is a literal or (25%) a FHIR date/dateTime/time element handed in as a variable, half of those of MICROSECOND precision with digits below the millisecond: starts = days of the leap cycle 2019-03-01..2023-02-28 (biased to month ends and Feb 29) and the 0001/9999 edges × every Date (3) / DateTime (year..millisecond) / Time (hour..millisecond) precision × offsets {none, Z, +05:30, -11:00, ±00:30, ±00:45, +14:00, -12:00 and generated ones}; units = every calendar keyword singular and plural, quoted UCUM-style units and non-temporal units; amounts from {0,1,2,11,12,13,23,24,25,29,30,31,59,60,61,364,365,366,1000,1.5,0.999,…} and their negatives, a third of them on a conversion boundary (k ∈ {1,2,3,10,100,292,293,300,1000,5000} coarser units expressed in the drawn unit, ±1, or a fraction below it: 365 days, 8759 hours, 31536000000 milliseconds, 53 weeks); an exhaustive stage walks every month end of the cycle × all keywords × precisions; relation cases check monotonicity and (x+q)-q=x; quantity cases check + - < = > within and across units.  non-trivial = amount ≠ 0 and (month-end start, unit finer than the precision, partial precision, clamping/truncation in the model, or a Time); distinct = FNV-64 of the source",
		"M-CAL: proleptic Gregorian day numbers, months clamp to the month end, 1 week = 7 days, a unit finer than the precision is converted first (12 months or 365 days per year, 30 days per month, 24 h, 60 min, 60 s; fractions dropped), amounts above seconds truncate toward zero, seconds keep milliseconds, Time wraps modulo 24 h", "accepted alternatives: quoted/UCUM time units and week/day applied to a Time may be an error or the model value; results outside 0001..9999 may be anything but a panic")
	runProperty(t, r,
		Stage[c09Case]{Name: "month-ends", Enum: c09Enum, Run: c09Run},
		Stage[c09Case]{Name: "random", Gen: c09Gen, Run: c09Run, N: pick(30000, 400000)},
		Stage[c09RelCase]{Name: "relations", Gen: c09GenRel, Run: c09RunRel, N: pick(8000, 100000)},
	)
}
