package zzverif

// G-VAL: the shared pool of System values and FHIR elements (boundary values of
// every type, every temporal precision × offset form, scale variants, complex
// elements).  Used by C01, C05, C07, C13 and the program generator.

import (
	"strings"
	"fmt"

	dtpb "github.com/google/fhir/go/proto/google/fhir/proto/r4/core/datatypes_go_proto"
)

var poolInts = []Val{iv(0), iv(1), iv(-1), iv(2), iv(-2), iv(7), iv(10), iv(46340), iv(46341), iv(-46341), iv(65536), iv(2147483646), iv(2147483647), iv(-2147483647), iv(-2147483648)}

var poolDecs = []Val{dv("0.0"), dv("1.0"), dv("1.00"), dv("-1.0"), dv("0.5"), dv("1.5"), dv("2.5"), dv("-0.5"), dv("-2.5"), dv("0.1"), dv("3.14159"),
	dv("0.99999999999999999"), dv("1.00000000000000001"), dv("123456789012345678901234567890.123456789"), dv("0.000000000000000000000000000001"),
	dv("2147483647.0"), dv("2147483648.0"), dv("-2147483649.0"), dv("9999999999.9"), dv("100.0"), dv("1000.0"), dv("-1000.0"),
	// beyond the float64 range in both directions (an intermediate float64 is ±Inf or 0), and just inside it
	dv("1" + strings.Repeat("0", 310) + ".0"), dv("-1" + strings.Repeat("0", 310) + ".0"), dv("17" + strings.Repeat("9", 307) + ".5"), dv("0." + strings.Repeat("0", 330) + "1"),
	// 18..21 fraction digits (one more or less than the digits of a 64-bit coefficient)
	dv("0.123456789012345678"), dv("0.1234567890123456789"), dv("0.0000000000000000001"), dv("0.00000000000000000005"), dv("-0.12345678901234567891"), dv("7.000000000000000000001")}

var poolStrs = []Val{sv(""), sv("a"), sv("abc"), sv("ABC"), sv("héllo"), sv("日本語"), sv("😀x"), sv("é"), sv("a b"), sv(" lead"), sv("O'Neil"), sv(`back\slash`),
	sv("1"), sv("1.0"), sv("-5"), sv("+1"), sv("1e3"), sv("2e47483647"), sv("true"), sv("T"), sv("false"), sv("2020-01-01"), sv("2020-02-30"), sv("2020-01-01T10:00:00Z"), sv("10:00:00"), sv("24:00"),
	sv("5 'mg'"), sv("5 days"), sv("5"), sv("abc.def"), sv("[a"), sv("(a+)+$"), sv("official"), sv("http://example.org/a"),
	// value-shaped strings written with digits and signs from outside ASCII (Unicode Nd, full-width forms)
	sv("١٢٣"), sv("１２.５"), sv("-४२"), sv("1.٥"), sv("２０２０-０１-０１"), sv("１０:００"), sv("５ 'mg'"), sv("－5"), sv("+１"), sv("𝟙")}

var poolBools = []Val{bv(true), bv(false)}

var poolDates = []Val{dateV("2020"), dateV("2020-02"), dateV("2020-02-29"), dateV("2020-03-01"), dateV("2019-12-31"), dateV("0001-01-01"), dateV("9999-12-31"), dateV("2020-01"), dateV("2021")}

var poolDateTimes = []Val{
	dtV("2020T"), dtV("2020-02T"), dtV("2020-02-29T"), dtV("2020-02-29T10"), dtV("2020-02-29T10:30"), dtV("2020-02-29T10:30:00"), dtV("2020-02-29T10:30:00.000"), dtV("2020-02-29T10:30:00.500"),
	dtV("2020-02-29T10Z"), dtV("2020-02-29T10:30Z"), dtV("2020-02-29T10:30:00Z"), dtV("2020-02-29T10:30:00.000Z"),
	dtV("2020-02-29T16:00:00+05:30"), dtV("2020-02-29T05:30:00-05:00"), dtV("2020-02-29T15+05:30"), dtV("2020-03-01T00:30:00+14:00"), dtV("2020-02-28T23:30:00-11:00"),
	dtV("2020-02-29T10:30:01Z"), dtV("2019-12-31T23:59:59Z"), dtV("0001-01-01T00:00:00Z"), dtV("9999-12-31T23:59:59Z"), dtV("2020-01-01T"), dtV("2021T"),
	dtV("2020-02-29T10:30:00.5+02:00"), dtV("2020-02-29T05:00:00.25-03:30"), dtV("2020-02-29T07:00:00-03:30"), dtV("2020-02-29T10:30:00.5"),
}

// genOffset: a generated UTC offset within the FHIR range [-12:00, +14:00], quarter-hour minutes.
func genOffset(s Src) string {
	sign, maxH := "+", 14
	if s.Bool() {
		sign, maxH = "-", 12
	}
	h := s.Range(0, maxH)
	m := pickOne(s, []int{0, 30, 45, 15})
	if h == maxH {
		m = 0
	}
	return fmt.Sprintf("%s%02d:%02d", sign, h, m)
}

var poolTimes = []Val{timeV("10"), timeV("10:30"), timeV("10:30:00"), timeV("10:30:00.000"), timeV("10:30:00.500"), timeV("00:00:00"), timeV("23:59:59"), timeV("23:59:59.999"), timeV("10:31"), timeV("11"), timeV("00")}

var poolQtys = []Val{qv("1", "mg"), qv("1.0", "mg"), qv("2", "mg"), qv("1", "kg"), qv("1", "1"), qv("0", "mg"), qv("-1", "mg"),
	qv("1", "year"), qv("1", "years"), qv("12", "months"), qv("1", "month"), qv("1", "week"), qv("7", "days"), qv("1", "day"), qv("24", "hours"), qv("1", "hour"), qv("60", "minutes"), qv("1", "minute"), qv("60", "seconds"), qv("1", "second"), qv("1000", "milliseconds"), qv("1", "millisecond"),
	qv("1.5", "days"), qv("1000", "years"), qv("1", "a"), qv("1", "mo"), qv("1", "d"), qv("1", "h"), qv("1", "min"), qv("1", "s"), qv("1", "ms"), qv("1", "")}

var poolFHIR = []Val{
	fv("integer", "0"), fv("integer", "1"), fv("integer", "-2147483648"), fv("integer", "2147483647"),
	fv("positiveInt", "1"), fv("positiveInt", "2147483647"), fv("positiveInt", "3000000000"), fv("unsignedInt", "0"), fv("unsignedInt", "4294967295"), fv("unsignedInt", "2147483647"), fv("unsignedInt", "2147483646"), fv("unsignedInt", "2147483648"), fv("positiveInt", "2147483646"),
	fv("decimal", "1.0"), fv("decimal", "1.50"), fv("decimal", "-0.5"), fv("decimal", "123456789012345678901234567890.5"),
	fv("string", ""), fv("string", "abc"), fv("string", "héllo"), fv("string", "1"), fv("string", "true"), fv("code", "official"), fv("code", "abc"), fv("id", "abc"), fv("markdown", "abc"),
	fv("uri", "http://example.org/a"), fv("url", "http://example.org/a"), fv("canonical", "http://example.org/a|1.0"), fv("uuid", "urn:uuid:123e4567-e89b-12d3-a456-426614174000"), fv("oid", "urn:oid:1.2.3"),
	fv("boolean", "true"), fv("boolean", "false"), fv("base64Binary", "hello"),
	fv("date", "2020"), fv("date", "2020-02"), fv("date", "2020-02-29"),
	fv("dateTime", "2020"), fv("dateTime", "2020-02"), fv("dateTime", "2020-02-29"), fv("dateTime", "2020-02-29T10:30:00Z"), fv("dateTime", "2020-02-29T16:00:00+05:30"), fv("dateTime", "2020-02-29T10:30:00.500Z"), fv("dateTime", "2020-02-29T10:30:00.123456Z"),
	{K: "fhir.date", S: "2020", U: "+14:00"}, {K: "fhir.date", S: "2020-02-29", U: "-11:00"}, {K: "fhir.date", S: "2020-02", U: "+05:30"}, {K: "fhir.dateTime", S: "2020", U: "+14:00"}, {K: "fhir.dateTime", S: "2020-02-29", U: "-11:00"}, {K: "fhir.dateTime", S: "2021", U: "+14:00"},
	fv("instant", "2020-02-29T10:30:00Z"), fv("instant", "2020-02-29T10:30:00.500+05:30"),
	// microsecond precision with digits below the millisecond (finer than a System value keeps)
	fv("instant", "2020-02-29T10:30:07.123456Z"), fv("instant", "2020-02-29T10:30:07.000001-03:30"), fv("instant", "2020-02-29T10:30:07.123000Z"), fv("time", "10:30:07.123456"), fv("dateTime", "2020-02-29T10:30:07.999999+14:00"),
	fv("time", "10:30:00"), fv("time", "10:30:00.500"), fv("time", "23:59:59.999999"),
	{K: "fhir.Quantity", S: "1", U: "mg"}, {K: "fhir.Quantity", S: "1.0", U: "mg"}, {K: "fhir.Quantity", S: "5", U: ""},
}

var poolComplex = func() []Val {
	ms := []Val{
		msgVal(&dtpb.HumanName{Family: &dtpb.String{Value: "Smith"}, Given: []*dtpb.String{{Value: "John"}, {Value: "Q"}}, Use: &dtpb.HumanName_UseCode{Value: 2}}),
		msgVal(&dtpb.HumanName{Family: &dtpb.String{Value: "Smith"}, Given: []*dtpb.String{{Value: "John"}}}),
		msgVal(&dtpb.HumanName{Family: &dtpb.String{Value: "Jones"}}),
		msgVal(&dtpb.Coding{System: &dtpb.Uri{Value: "http://loinc.org"}, Code: &dtpb.Code{Value: "1234-5"}}),
		msgVal(&dtpb.Coding{System: &dtpb.Uri{Value: "http://loinc.org"}, Code: &dtpb.Code{Value: "1234-6"}}),
		msgVal(&dtpb.Identifier{Value: &dtpb.String{Value: "x"}}),
		msgVal(&dtpb.Period{}),
		msgVal(&dtpb.Reference{Reference: &dtpb.Reference_PatientId{PatientId: &dtpb.ReferenceId{Value: "p1"}}}),
		msgVal(&dtpb.Extension{Url: &dtpb.Uri{Value: "http://example.org/a"}, Value: &dtpb.Extension_ValueX{Choice: &dtpb.Extension_ValueX_Boolean{Boolean: &dtpb.Boolean{Value: true}}}}),
	}
	return ms
}()

// poolAll is every single-item value of the pool.
var poolAll = func() []Val {
	var out []Val
	for _, g := range [][]Val{poolInts, poolDecs, poolStrs, poolBools, poolDates, poolDateTimes, poolTimes, poolQtys, poolFHIR, poolComplex} {
		out = append(out, g...)
	}
	for _, v := range out {
		if _, err := v.build(); err != nil {
			panic(fmt.Sprintf("harness: pool value %v does not build: %v", v, err))
		}
	}
	return out
}()

var poolByKind = func() map[string][]Val {
	m := map[string][]Val{}
	for _, v := range poolAll {
		m[v.K] = append(m[v.K], v)
	}
	return m
}()

func genPoolVal(s Src) Val { return poolAll[s.Intn(len(poolAll))] }

// genSystemVal draws a System value (no element).
func genSystemVal(s Src) Val {
	groups := [][]Val{poolInts, poolDecs, poolStrs, poolBools, poolDates, poolDateTimes, poolTimes, poolQtys}
	g := groups[s.Intn(len(groups))]
	return g[s.Intn(len(g))]
}

// Coll describes a collection value (for environment variables).
type Coll struct {
	Items []Val `json:"items"`
	Nil   bool  `json:"nil,omitempty"` // deliver a nil system.Collection
}

func (c Coll) build() (any, error) {
	items := make([]any, 0, len(c.Items))
	for _, v := range c.Items {
		x, err := v.build()
		if err != nil {
			return nil, err
		}
		items = append(items, x)
	}
	return collOf(c.Nil, items), nil
}

var digits = []string{"0", "1", "2", "3", "4", "5", "6", "7", "8", "9"}

// c09GenStart: a generated Date/DateTime/Time text (shared by C05 and C09).
func c09GenStart(s Src) (kind, text string) {
	// a day of the leap cycle 2019-03-01 … 2023-02-28, biased to month ends, or an edge
	var y, m, d int64
	switch s.Intn(10) {
	case 0:
		y, m, d = pickOne(s, []int64{1, 9999}), pickOne(s, []int64{1, 12}), pickOne(s, []int64{1, 31})
	case 1, 2, 3:
		y, m = int64(s.Range(2019, 2023)), int64(s.Range(1, 12))
		d = daysInMonth(y, m) - int64(s.Intn(2))
	case 4:
		y, m, d = pickOne(s, []int64{2020, 2024, 2000, 1900}), 2, 29
		if !isLeap(y) {
			d = 28
		}
	default:
		y, m, d = civilFromDays(daysFromCivil(2019, 3, 1) + int64(s.Intn(1461)))
	}
	date := []string{fmt.Sprintf("%04d", y), fmt.Sprintf("%04d-%02d", y, m), fmt.Sprintf("%04d-%02d-%02d", y, m, d)}
	hh, mm, ss := s.Intn(24), s.Intn(60), s.Intn(60)
	if s.Prob(25) {
		hh, mm, ss = pickOne(s, []int{0, 23}), pickOne(s, []int{0, 59, 30}), pickOne(s, []int{0, 59})
	}
	times := []string{fmt.Sprintf("%02d", hh), fmt.Sprintf("%02d:%02d", hh, mm), fmt.Sprintf("%02d:%02d:%02d", hh, mm, ss), fmt.Sprintf("%02d:%02d:%02d.%03d", hh, mm, ss, pickOne(s, []int{0, 1, 500, 999}))}
	switch s.Intn(3) {
	case 0:
		return "Date", date[s.Intn(3)]
	case 1:
		p := s.Intn(7)
		if p < 3 {
			return "DateTime", date[p] + "T"
		}
		off := pickOne(s, []string{"", "Z", "+05:30", "-11:00", "+00:30", "-00:30", "-00:45", "+00:45", "+14:00", "-12:00", genOffset(s), genOffset(s)})
		return "DateTime", date[2] + "T" + times[p-3] + off
	}
	return "Time", times[s.Intn(4)]
}

func daysFromCivil(y, m, d int64) int64 {
	if m <= 2 {
		y--
	}
	era := y / 400
	if y < 0 && y%400 != 0 {
		era = (y - 399) / 400
	}
	yoe := y - era*400
	mp := (m + 9) % 12
	doy := (153*mp+2)/5 + d - 1
	doe := yoe*365 + yoe/4 - yoe/100 + doy
	return era*146097 + doe - 719468
}

func civilFromDays(z int64) (y, m, d int64) {
	z += 719468
	era := z / 146097
	if z < 0 && z%146097 != 0 {
		era = (z - 146096) / 146097
	}
	doe := z - era*146097
	yoe := (doe - doe/1460 + doe/36524 - doe/146096) / 365
	y = yoe + era*400
	doy := doe - (365*yoe + yoe/4 - yoe/100)
	mp := (5*doy + 2) / 153
	d = doy - (153*mp+2)/5 + 1
	m = mp + 3
	if m > 12 {
		m -= 12
	}
	if m <= 2 {
		y++
	}
	return
}

func isLeap(y int64) bool { return y%4 == 0 && (y%100 != 0 || y%400 == 0) }

func daysInMonth(y, m int64) int64 {
	d := []int64{31, 28, 31, 30, 31, 30, 31, 31, 30, 31, 30, 31}[m-1]
	if m == 2 && isLeap(y) {
		d = 29
	}
	return d
}

// genComposedString: a string assembled from value-shaped fragments (signs, digits, fractions,
// exponents, blanks of several widths, units, temporal pieces) — the strings conversion
// functions and parsers half-accept: '5days', "1\t'mg'", '+ 1', '1.', '10:00Z' …
var composedFragments = []string{"", "+", "-", "5", "10", "0", "08", "1.5", ".", ".5", "e3", "E-2", " ", "  ", "\t", "\n", "days", "day", "wk", "'mg'", "mg", "'", "''",
	"T", "2020-01-01", "2020", "-02", "10:00", ":30", "Z", "+05:30", "true", "x", "_", "0x1F", "1_000", "%", "\u00a0"}

func genComposedString(s Src) string {
	if s.Bool() {
		// [sign] number [gap] [unit]: every part optional, gaps of any width
		return pickOne(s, []string{"", "", "", "+", "-"}) + pickOne(s, []string{"5", "10", "0", "08", "1.5", ".5", "1.", "1e3", "0x1F", "1_000", "2147483648", ""}) +
			pickOne(s, []string{"", " ", " ", "  ", "\t", "\n", "\u00a0"}) + pickOne(s, []string{"", "", "days", "day", "wk", "'mg'", "mg", "''", "'", "year", "%"})
	}
	n := 1 + s.Intn(4)
	out := ""
	for i := 0; i < n; i++ {
		out += pickOne(s, composedFragments)
	}
	return out
}
