package zzverif

// C06 — Boolean operators follow three-valued logic for every operand form.

import (
	"fmt"
	"slices"
	"strings"
	"testing"

	cpb "github.com/google/fhir/go/proto/google/fhir/proto/r4/core/codes_go_proto"
	dtpb "github.com/google/fhir/go/proto/google/fhir/proto/r4/core/datatypes_go_proto"
	opb "github.com/google/fhir/go/proto/google/fhir/proto/r4/core/resources/observation_go_proto"
	ppb "github.com/google/fhir/go/proto/google/fhir/proto/r4/core/resources/patient_go_proto"
	"github.com/verily-src/fhirpath-go/internal/fhir"
	"github.com/verily-src/fhirpath-go/fhirpath"
	"github.com/verily-src/fhirpath-go/fhirpath/evalopts"
	"github.com/verily-src/fhirpath-go/fhirpath/system"
)

type c06Form struct {
	V    string `json:"v"`    // T F E N M
	Src  string `json:"src"`  // source kind
	Expr string `json:"expr"` // spelling at the root of a program
	Crit string `json:"crit"` // spelling inside a criterion evaluated on the Patient item
}

var c06Forms = []c06Form{
	{"T", "literal", "true", "true"},
	{"T", "fhir-element", "Patient.active", "active"},
	{"T", "fhir-element-var", "%fbt", "%fbt"},
	{"T", "variable", "%bt", "%bt"},
	{"T", "computed", "(1 = 1)", "(1 = 1)"},
	{"T", "function", "'x'.startsWith('x')", "'x'.startsWith('x')"},
	{"T", "function", "Patient.name.exists()", "name.exists()"},
	{"F", "literal", "false", "false"},
	{"F", "fhir-choice-element", "Patient.deceased", "deceased"},
	{"F", "fhir-element-var", "%fbf", "%fbf"},
	{"F", "variable", "%bf", "%bf"},
	{"F", "computed", "(1 = 2)", "(1 = 2)"},
	{"F", "function", "'x'.startsWith('y')", "'x'.startsWith('y')"},
	{"F", "function", "Patient.photo.exists()", "photo.exists()"},
	{"E", "literal", "{}", "{}"},
	{"E", "absent-path", "Patient.photo", "photo"},
	{"E", "variable", "%none", "%none"},
	{"E", "computed", "(1 = {})", "(1 = {})"},
	{"E", "function", "{}.not()", "{}.not()"},
	{"E", "function", "Patient.name.where(false)", "name.where(false)"},
	{"N", "literal", "1", "1"},
	{"N", "literal", "'false'", "'false'"},
	{"N", "literal", "0", "0"},
	{"N", "fhir-element", "Patient.name[0]", "name[0]"},
	{"N", "fhir-element", "Patient.gender", "gender"},
	{"N", "fhir-element", "Patient.birthDate", "birthDate"},
	{"N", "fhir-choice-element", "Patient.multipleBirth", "multipleBirth"},
	{"N", "variable", "%i", "%i"},
	{"N", "function", "'x'.upper()", "'x'.upper()"},
	{"M", "variable", "%ints", "%ints"},
	{"M", "variable", "%tf", "%tf"},
	{"M", "variable", "%ft", "%ft"},
	{"M", "variable", "%ff", "%ff"},
	{"M", "computed", "Patient.name.select(given.count() > 1)", "%names.select(given.count() > 1)"},
	{"M", "computed", "Patient.name.select(family.exists().not())", "%names.select(family.exists().not())"},
	{"M", "fhir-element", "Patient.name", "name"},
	{"M", "fhir-element", "Patient.name.given", "name.given"},
	{"M", "function", "'ab'.toChars()", "'ab'.toChars()"},
	// one form per kind of expression node that can stand directly under a Boolean operator
	{"T", "as-node", "(Patient.active as boolean)", "(active as boolean)"},
	{"T", "as-node", "(%bt as Boolean)", "(%bt as Boolean)"},
	{"T", "as-node", "(%fbt as boolean)", "(%fbt as boolean)"},
	{"T", "is-node", "(1 is Integer)", "(1 is Integer)"},
	{"T", "comparison-node", "(1 < 2)", "(1 < 2)"},
	{"T", "indexer-node", "%tf[0]", "%tf[0]"},
	{"T", "equality-node", "(Patient.active = true)", "(active = true)"},
	{"F", "as-node", "(Patient.deceased as boolean)", "(deceased as boolean)"},
	{"F", "as-node", "(%bf as Boolean)", "(%bf as Boolean)"},
	{"F", "as-node", "(%fbf as boolean)", "(%fbf as boolean)"},
	{"F", "is-node", "(1 is String)", "(1 is String)"},
	{"F", "comparison-node", "(2 < 1)", "(2 < 1)"},
	{"F", "indexer-node", "%ft[0]", "%ft[0]"},
	{"F", "equality-node", "(Patient.active != true)", "(active != true)"},
	{"E", "as-node", "(1 as String)", "(1 as String)"},
	{"E", "as-node", "(Patient.active as string)", "(active as string)"},
	{"E", "comparison-node", "(1 < {})", "(1 < {})"},
	{"E", "indexer-node", "%ints[7]", "%ints[7]"},
	{"E", "polarity-node", "(-%none)", "(-%none)"},
	{"E", "arithmetic-node", "(1 + {})", "(1 + {})"},
	{"N", "as-node", "(5 as Integer)", "(5 as Integer)"},
	{"N", "as-node", "('x' as String)", "('x' as String)"},
	{"N", "as-node", "(%i as Integer)", "(%i as Integer)"},
	{"N", "as-node", "(Patient.gender as code)", "(gender as code)"},
	{"N", "as-node", "(Patient.birthDate as date)", "(birthDate as date)"},
	{"N", "arithmetic-node", "(1 + 1)", "(1 + 1)"},
	{"N", "arithmetic-node", "('a' & 'b')", "('a' & 'b')"},
	{"N", "polarity-node", "(-1)", "(-1)"},
	{"N", "indexer-node", "%ints[0]", "%ints[0]"},
}

// c06Forms2: operand forms over an input collection of several resources of one type (the
// fixture Patient, a copy with active=false / deceased=true, and an Observation): a path rooted
// at the type name ranges over every Patient of the input.
var c06Forms2 = []c06Form{
	{"M", "fhir-element-of-several-resources", "Patient.active", ""},
	{"M", "fhir-element-of-several-resources", "Patient.deceased", ""},
	{"M", "fhir-element-of-several-resources", "Patient.gender", ""},
	{"M", "fhir-element-of-several-resources", "Patient.active.not()", ""},
	{"T", "fhir-element-of-several-resources", "Patient.active.first()", ""},
	{"F", "fhir-element-of-several-resources", "Patient.active.last()", ""},
	{"T", "fhir-element-of-several-resources", "Patient.deceased.last()", ""},
	{"E", "fhir-element-of-several-resources", "Patient.photo", ""},
	{"F", "fhir-element-of-several-resources", "Patient.active.allTrue()", ""},
	{"T", "fhir-element-of-several-resources", "Patient.active.anyTrue()", ""},
	{"T", "fhir-element-of-several-resources", "Observation.exists()", ""},
	{"N", "fhir-element-of-several-resources", "Observation.status", ""},
	{"N", "fhir-element-of-several-resources", "Patient.birthDate.first()", ""},
	{"T", "literal", "true", ""},
	{"F", "literal", "false", ""},
	{"E", "literal", "{}", ""},
	{"M", "variable", "%tf", ""},
}

func c06Input2() []fhir.Resource {
	p1, p2 := fixturePatient(), fixturePatient()
	p2.Active = &dtpb.Boolean{Value: false}
	p2.Deceased = &ppb.Patient_DeceasedX{Choice: &ppb.Patient_DeceasedX_Boolean{Boolean: &dtpb.Boolean{Value: true}}}
	o := &opb.Observation{Status: &opb.Observation_StatusCode{Value: cpb.ObservationStatusCode_FINAL}}
	return []fhir.Resource{p1, o, p2}
}

func c06Vars() map[string]any {
	p := fixturePatient()
	v := progVarsFor(p)
	v["bt"] = system.Boolean(true)
	v["bf"] = system.Boolean(false)
	v["fbt"] = &dtpb.Boolean{Value: true}
	v["fbf"] = &dtpb.Boolean{Value: false}
	v["tf"] = system.Collection{system.Boolean(true), system.Boolean(false)}
	v["ft"] = system.Collection{system.Boolean(false), system.Boolean(true)}
	v["ff"] = system.Collection{system.Boolean(false), system.Boolean(false)}
	return v
}

type c06Case struct {
	Kind string  `json:"kind"` // bin | not | where | exists | all | iif | asbool | law
	Op   string  `json:"op,omitempty"`
	A    c06Form `json:"a"`
	B    c06Form `json:"b"`
	Src  string  `json:"src,omitempty"` // law: left program
	Src2 string  `json:"src2,omitempty"`
	Law  string  `json:"law,omitempty"`
	Two  bool    `json:"two,omitempty"` // the input holds several resources (forms of c06Forms2)
}

func c06Enum(yield func(c06Case)) {
	for _, a := range c06Forms {
		for _, b := range c06Forms {
			for _, op := range []string{"and", "or", "xor", "implies"} {
				yield(c06Case{Kind: "bin", Op: op, A: a, B: b})
			}
		}
		for _, k := range []string{"not", "where", "exists", "all", "iif", "iif2", "asbool"} {
			yield(c06Case{Kind: k, A: a})
		}
	}
	for _, a := range c06Forms2 {
		for _, b := range c06Forms2 {
			for _, op := range []string{"and", "or", "xor", "implies"} {
				yield(c06Case{Kind: "bin", Op: op, A: a, B: b, Two: true})
			}
		}
		for _, k := range []string{"not", "iif", "iif2", "asbool"} {
			yield(c06Case{Kind: k, A: a, Two: true})
		}
	}
}

// tri: "T" "F" "E" or "err"
func c06Val(f c06Form) string {
	switch f.V {
	case "N":
		return "T"
	case "M":
		return "err"
	}
	return f.V
}

func c06Model(op, a, b string) string {
	if a == "err" || b == "err" {
		return "err"
	}
	switch op {
	case "and":
		if a == "F" || b == "F" {
			return "F"
		}
		if a == "T" && b == "T" {
			return "T"
		}
		return "E"
	case "or":
		if a == "T" || b == "T" {
			return "T"
		}
		if a == "F" && b == "F" {
			return "F"
		}
		return "E"
	case "xor":
		if a == "E" || b == "E" {
			return "E"
		}
		if a != b {
			return "T"
		}
		return "F"
	case "implies":
		switch a {
		case "T":
			return b
		case "F":
			return "T"
		}
		if b == "T" {
			return "T"
		}
		return "E"
	}
	return "?"
}

func c06Tri(out evalOut) string {
	switch {
	case out.Panic != "":
		return "panic"
	case out.CompileErr != nil:
		return "cerror"
	case out.Err != nil:
		return "err"
	case len(out.Coll) == 0:
		return "E"
	case len(out.Coll) == 1:
		switch renderItem(out.Coll[0]) {
		case "Boolean:true":
			return "T"
		case "Boolean:false":
			return "F"
		}
	}
	return "other:" + clip(renderColl(out.Coll), 60)
}

func c06Run(ctx *Ctx, c c06Case) {
	vars := c06Vars()
	pat := fixturePatient()
	input := fixtureInput(pat)
	if c.Two {
		input = c06Input2()
	}
	nontrivial := c.A.Src != "literal" || (c.Kind == "bin" && c.B.Src != "literal")
	var src, want string
	switch c.Kind {
	case "bin":
		src = c.A.Expr + " " + c.Op + " " + c.B.Expr
		want = c06Model(c.Op, c06Val(c.A), c06Val(c.B))
	case "not":
		src = "(" + c.A.Expr + ").not()"
		want = map[string]string{"T": "F", "F": "T", "E": "E", "err": "err"}[c06Val(c.A)]
	case "where":
		src = "Patient.where(" + c.A.Crit + ").exists()"
		want = map[string]string{"T": "T", "F": "F", "E": "F", "err": "err"}[c06Val(c.A)]
	case "exists":
		src = "Patient.exists(" + c.A.Crit + ")"
		want = map[string]string{"T": "T", "F": "F", "E": "F", "err": "err"}[c06Val(c.A)]
	case "all":
		src = "Patient.all(" + c.A.Crit + ")"
		want = map[string]string{"T": "T", "F": "F", "E": "F", "err": "err"}[c06Val(c.A)]
	case "iif":
		src = "iif(" + c.A.Expr + ", true, false)"
		want = map[string]string{"T": "T", "F": "F", "E": "F", "err": "err"}[c06Val(c.A)]
	case "iif2": // the form without an otherwise-result: true → the result, false/empty → empty
		src = "iif(" + c.A.Expr + ", true)"
		want = map[string]string{"T": "T", "F": "E", "E": "E", "err": "err"}[c06Val(c.A)]
	case "asbool":
		src = c.A.Expr
		want = map[string]string{"T": "T", "F": "F", "E": "F", "err": "err"}[c06Val(c.A)]
	}
	key := fmt.Sprintf("%s|%s|%s|%s|%v", c.Kind, c.Op, c.A.Expr, c.B.Expr, c.Two)
	ctx.Eval(key, nontrivial, "kind:"+c.Kind, "a:"+c.A.V+"/"+c.A.Src)
	var got string
	if c.Kind == "asbool" {
		e, cerr, pan, _ := compileGuarded(src)
		if pan != "" || cerr != nil || e == nil {
			ctx.Fail("harness: form does not compile: "+src, fmt.Sprint(cerr, pan))
			return
		}
		var b bool
		var err error
		var eopts []fhirpath.EvaluateOption
		for _, k := range sortedKeys(vars) {
			eopts = append(eopts, evalopts.EnvVariable(k, vars[k]))
		}
		g := guard(func() { b, err = e.EvaluateAsBool(input, eopts...) })
		switch {
		case g.Panic != "":
			got = "panic"
		case err != nil:
			got = "err"
		case b:
			got = "T"
		default:
			got = "F"
		}
	} else {
		out := evalWith(src, input, vars)
		got = c06Tri(out)
		if got == "cerror" {
			ctx.Fail("harness: program does not compile: "+src, out.CompileErr.Error())
			return
		}
	}
	if got != want {
		sig := fmt.Sprintf("truth table: %s", c.Kind)
		if c.Kind == "bin" {
			sig = fmt.Sprintf("truth table: %s %s %s[%s] %s[%s]", c.Op, c06Val(c.A)+"·"+c06Val(c.B), c.A.V, c.A.Src, c.B.V, c.B.Src)
		} else {
			sig = fmt.Sprintf("truth table: %s %s[%s]", c.Kind, c.A.V, c.A.Src)
		}
		ctx.Fail(sig+fmt.Sprintf(" want %s got %s", want, got), fmt.Sprintf("%s → %s, want %s", src, got, want))
	}
}

// --- laws on random nested formulas ----------------------------------------

type c06Formula struct {
	Op   string      `json:"op,omitempty"` // and or xor implies not | "" leaf
	L, R *c06Formula `json:"l,omitempty"`
	Leaf string      `json:"leaf,omitempty"`
}

func (f *c06Formula) String() string {
	switch f.Op {
	case "":
		return f.Leaf
	case "not":
		return "(" + f.L.String() + ").not()"
	}
	return "(" + f.L.String() + " " + f.Op + " " + f.R.String() + ")"
}

func c06GenFormula(s Src, d int) *c06Formula {
	if d == 0 || s.Prob(25) {
		f := pickOne(s, c06Forms)
		for f.V == "M" && s.Prob(85) { // keep multi-item operands rare: they turn every law into error = error
			f = pickOne(s, c06Forms)
		}
		return &c06Formula{Leaf: f.Expr}
	}
	op := pickOne(s, []string{"and", "or", "xor", "implies", "not"})
	if op == "not" {
		return &c06Formula{Op: op, L: c06GenFormula(s, d-1)}
	}
	return &c06Formula{Op: op, L: c06GenFormula(s, d-1), R: c06GenFormula(s, d-1)}
}

func c06GenLaw(s Src) c06Case {
	a, b := c06GenFormula(s, s.Range(0, 3)).String(), c06GenFormula(s, s.Range(0, 3)).String()
	switch s.Intn(7) {
	case 0:
		return c06Case{Kind: "law", Law: "and-commutes", Src: a + " and " + b, Src2: b + " and " + a}
	case 1:
		return c06Case{Kind: "law", Law: "or-commutes", Src: a + " or " + b, Src2: b + " or " + a}
	case 2:
		return c06Case{Kind: "law", Law: "xor-commutes", Src: a + " xor " + b, Src2: b + " xor " + a}
	case 3:
		return c06Case{Kind: "law", Law: "de-morgan-and", Src: "(" + a + " and " + b + ").not()", Src2: "(" + a + ").not() or (" + b + ").not()"}
	case 4:
		return c06Case{Kind: "law", Law: "de-morgan-or", Src: "(" + a + " or " + b + ").not()", Src2: "(" + a + ").not() and (" + b + ").not()"}
	case 5:
		return c06Case{Kind: "law", Law: "implies-as-or", Src: a + " implies " + b, Src2: "(" + a + ").not() or " + b}
	}
	return c06Case{Kind: "law", Law: "double-negation", Src: "(" + a + ").not().not()", Src2: "(" + a + ") and true"}
}

func c06RunLaw(ctx *Ctx, c c06Case) {
	vars := c06Vars()
	input := fixtureInput(fixturePatient())
	l, r := c06Tri(evalWith(c.Src, input, vars)), c06Tri(evalWith(c.Src2, input, vars))
	ctx.Eval(c.Src+"|"+c.Src2, len(c.Src) > 20 && l != "err", "law:"+c.Law, "law-outcome:"+l)
	if l == "cerror" || r == "cerror" {
		ctx.Fail("harness: law program does not compile", c.Src+" / "+c.Src2)
		return
	}
	if l != r {
		ctx.Fail("law "+c.Law+" broken: "+l+" vs "+r, fmt.Sprintf("%s → %s but %s → %s", c.Src, l, c.Src2, r))
	}
}

// --- unparenthesised chains: A op B op C ... evaluate as the precedence table folds them ---

type c06Chain struct {
	Forms []c06Form `json:"forms"`
	Ops   []string  `json:"ops"`
}

func c06GenChain(s Src) c06Chain {
	n := s.Range(3, 5)
	var c c06Chain
	for len(c.Forms) < n {
		f := pickOne(s, c06Forms)
		if f.V == "M" {
			continue
		}
		c.Forms = append(c.Forms, f)
	}
	for i := 0; i < n-1; i++ {
		c.Ops = append(c.Ops, pickOne(s, []string{"and", "or", "xor", "or", "xor", "implies"}))
	}
	return c
}

// c06FoldChain: `and` binds tightest, `or` and `xor` share the next level, `implies` is last; all left-associative
func c06FoldChain(vals, ops []string) string {
	for _, level := range [][]string{{"and"}, {"or", "xor"}, {"implies"}} {
		nv, no := []string{vals[0]}, []string{}
		for i, op := range ops {
			if slices.Contains(level, op) {
				nv[len(nv)-1] = c06Model(op, nv[len(nv)-1], vals[i+1])
			} else {
				nv, no = append(nv, vals[i+1]), append(no, op)
			}
		}
		vals, ops = nv, no
	}
	return vals[0]
}

func c06RunChain(ctx *Ctx, c c06Chain) {
	var vals []string
	src := ""
	for i, f := range c.Forms {
		if i > 0 {
			src += " " + c.Ops[i-1] + " "
		}
		src += f.Expr
		vals = append(vals, c06Val(f))
	}
	want := c06FoldChain(vals, c.Ops)
	got := c06Tri(evalWith(src, fixtureInput(fixturePatient()), c06Vars()))
	mixed := false
	for _, op := range c.Ops[1:] {
		mixed = mixed || op != c.Ops[0]
	}
	ctx.Eval(src, mixed, "stage:chains", fmt.Sprintf("chain-mixed-operators:%v", mixed))
	if got == "cerror" {
		ctx.Fail("harness: chain does not compile", src)
		return
	}
	if got != want {
		ctx.Fail(fmt.Sprintf("chain of %s: want %s got %s", strings.Join(c.Ops, "/"), want, got), src)
	}
}

func TestC06(t *testing.T) {
	r := newRec("C06",
		"exhaustive over operand forms: a form is (value ∈ {true,false,empty,non-Boolean singleton,multi-item}) × (source ∈ {literal, FHIR boolean element, FHIR choice element, FHIR element variable, System variable, computed, function result, absent path}); {and,or,xor,implies} × every ordered pair of the forms, not() and the criteria of where/exists/all/iif and EvaluateAsBool × every form; plus rapid-generated nested formulas (depth ≤ 3) for commutativity, De Morgan, implies-as-or and double negation; unparenthesised chains of 3..5 operand forms under mixed operators, judged by folding the truth tables along the precedence table (and; or/xor; implies; left-associative).  A second table repeats the operators, not(), iif and EvaluateAsBool over an input of several resources (two Patients with different values and an Observation), where a path rooted at the type name ranges over all of them.  Cells that cannot exist (a multi-item literal, an empty FHIR element) are absent from the table.  non-trivial = at least one operand is not a literal (laws: formula longer than 20 characters with a non-error value); every cell is distinct",
		"Kleene truth tables as printed in FHIRPath N1 §6.5")
	runProperty(t, r,
		Stage[c06Case]{Name: "cells", Enum: c06Enum, Run: c06Run},
		Stage[c06Case]{Name: "laws", Gen: c06GenLaw, Run: c06RunLaw, N: pick(9000, 60000)},
		Stage[c06Chain]{Name: "chains", Gen: c06GenChain, Run: c06RunChain, N: pick(9000, 60000)},
	)
}
