package zzverif

// C02 — path navigation returns exactly the elements of the resource's FHIR JSON
// tree.  Oracle: google/fhir's JSON rendering paired with the proto (G-TREE).

import (
	"encoding/json"
	"errors"
	"fmt"
	"math/big"
	"strings"
	"testing"

	apb "github.com/google/fhir/go/proto/google/fhir/proto/annotations_go_proto"
	dtpb "github.com/google/fhir/go/proto/google/fhir/proto/r4/core/datatypes_go_proto"
	"github.com/iancoleman/strcase"
	"github.com/verily-src/fhirpath-go/fhirpath"
	"github.com/verily-src/fhirpath-go/fhirpath/system"
	"github.com/verily-src/fhirpath-go/internal/fhir"
	"google.golang.org/protobuf/proto"
	"google.golang.org/protobuf/reflect/protoreflect"
	"google.golang.org/protobuf/types/known/anypb"
)

type c02Case struct {
	Type string `json:"type"`
	Res  string `json:"res"` // prototext of the ContainedResource wrapper
	Mix  int    `json:"mix"` // selects which steps of the "mixed" spelling carry an indexer
	// Alias ≠ 0: some positions of the resource hold the same message object as another
	// position (aliasSubtrees); the text form cannot express it
	Alias int `json:"alias,omitempty"`
	res   proto.Message
}

func c02Gen(s Src) c02Case {
	t := allResTypes[s.Intn(len(allResTypes))].Name
	o := defaultGen
	if s.Prob(25) {
		o.Budget = 160
		o.P0 = 30
	}
	r := genResource(s, t, o)
	c := c02Case{Type: t, Res: resToText(r), Mix: s.Intn(1 << 16), res: r}
	if s.Prob(30) {
		c.Alias = 1 + s.Intn(1<<20)
	}
	return c
}

// c02EnumEmbedded: resources that embed other resources at every place R4 allows it - an
// Any-packed `contained`, Bundle.entry.resource / response.outcome, and the one singular
// embedded resource, Parameters.parameter.resource (also inside `part`) - forced to be there.
func c02EnumEmbedded(yield func(c02Case)) {
	n := 0
	for _, e := range []struct {
		typ   string
		force []string
	}{{"Parameters", []string{"parameter", "resource", "part"}}, {"Parameters", []string{"parameter", "resource"}}, {"Bundle", []string{"entry", "resource", "response", "outcome"}}, {"Bundle", []string{"entry", "resource"}},
		{"Patient", []string{"contained"}}, {"Observation", []string{"contained"}}, {"MedicationRequest", []string{"contained"}}, {"List", []string{"contained"}}} {
		for k := 0; k < 6; k++ {
			n++
			r := genResource(fixedSrc{7000 + n*131}, e.typ, genOpts{MaxDepth: 3, Budget: 60, P0: 12, ForceDeep: e.force})
			yield(c02Case{Type: e.typ, Res: resToText(r), Mix: n * 2654435761 % (1 << 16), res: r})
		}
	}
}

// c02SingularAny: for every name path that ends at a singular Any-typed element holding a
// packed resource, the dotted path yields exactly the embedded resources, in document order -
// the resources themselves (equal to the packed content), not the Any and not the wrapper.
func c02SingularAny(ctx *Ctx, c c02Case, res proto.Message) {
	found := map[string][]proto.Message{}
	var order []string
	var walk func(m protoreflect.Message, path []string, depth int)
	walk = func(m protoreflect.Message, path []string, depth int) {
		if depth > 6 {
			return
		}
		fs := m.Descriptor().Fields()
		for i := 0; i < fs.Len(); i++ {
			f := fs.Get(i)
			if f.Message() == nil || !m.Has(f) || f.ContainingOneof() != nil {
				continue
			}
			p := append(append([]string{}, path...), f.JSONName())
			if f.Message().FullName() == "google.protobuf.Any" {
				if f.IsList() {
					continue
				}
				a, ok := m.Get(f).Message().Interface().(*anypb.Any)
				if !ok {
					continue
				}
				inner, err := a.UnmarshalNew()
				if err != nil {
					continue
				}
				im := inner.ProtoReflect()
				if im.Descriptor().Oneofs().Len() == 1 {
					if fd := im.WhichOneof(im.Descriptor().Oneofs().Get(0)); fd != nil {
						key := strings.Join(p, ".")
						if _, seen := found[key]; !seen {
							order = append(order, key)
						}
						found[key] = append(found[key], im.Get(fd).Message().Interface())
					}
				}
				continue
			}
			if f.IsList() {
				l := m.Get(f).List()
				for j := 0; j < l.Len(); j++ {
					walk(l.Get(j).Message(), p, depth+1)
				}
			} else if !f.IsMap() {
				walk(m.Get(f).Message(), p, depth+1)
			}
		}
	}
	walk(res.ProtoReflect(), nil, 0)
	ctx.Eval(c.Res, len(order) > 0, "singular-embedded-resource")
	for _, key := range order {
		// the deeper `part` levels repeat the same name path: collect only paths without a repeated suffix ambiguity
		src := c.Type + "." + key
		out := evalWith(src, []fhir.Resource{res.(fhir.Resource)}, nil)
		if out.Panic != "" || out.CompileErr != nil || out.Err != nil {
			ctx.Fail("nav singular embedded resource: "+out.kind(), fmt.Sprintf("%s: %s", src, out))
			return
		}
		want := found[key]
		if len(out.Coll) != len(want) {
			ctx.Fail("nav singular embedded resource: count-mismatch", fmt.Sprintf("%s: want %d got %s", src, len(want), clip(out.String(), 300)))
			return
		}
		for i, x := range out.Coll {
			gm, ok := x.(proto.Message)
			if _, isRes := x.(fhir.Resource); !ok || !isRes || !proto.Equal(gm, want[i]) {
				ctx.Fail("nav singular embedded resource: the path does not yield the embedded resource itself", fmt.Sprintf("%s item %d: got a %T, want the %T packed there", src, i, x, want[i]))
				return
			}
		}
		ctx.Count("singular_embedded_resource_paths_checked")
	}
}

func kebab(enumName string) string {
	return strings.ReplaceAll(strings.ToLower(enumName), "_", "-")
}

// c02PrimCheck compares the System value of a primitive result with the JSON value.
// Returns "" when equal, else a signature fragment and detail.
func c02PrimCheck(n *Node, got any) (sig, detail string) {
	if n.JSON == nil {
		return "", ""
	}
	var sys system.Any
	var err error
	o := guard(func() { sys, err = system.From(got) })
	if o.Panic != "" {
		return "primitive system.From panic@" + o.Panic, o.Stack
	}
	if err != nil {
		return "primitive not convertible type=" + n.TypeName, err.Error()
	}
	switch jv := n.JSON.(type) {
	case string:
		switch v := sys.(type) {
		case system.String:
			if string(v) == jv {
				return "", ""
			}
			// defect model for enum codes: kebab(enum name) instead of the original code
			if m, ok := got.(proto.Message); ok {
				vf := m.ProtoReflect().Descriptor().Fields().ByName("value")
				if vf != nil && vf.Kind() == protoreflect.EnumKind {
					ev := vf.Enum().Values().ByNumber(m.ProtoReflect().Get(vf).Enum())
					orig := proto.GetExtension(ev.Options(), apb.E_FhirOriginalCode).(string)
					if (orig == jv || (orig == "" && kebab(string(ev.Name())) == jv)) && string(v) == strcase.ToKebab(string(ev.Name())) {
						return "enum code rendered as strcase.ToKebab(enum name), which is not the FHIR code", fmt.Sprintf("json=%q got=%q", jv, v)
					}
				}
			}
			return "primitive-value-mismatch type=" + n.TypeName, fmt.Sprintf("json=%q got=%q", jv, v)
		case system.Date:
			if ok, why := temporalEqualSys(jv, v.String(), false); !ok {
				return "temporal-mismatch type=" + n.TypeName + " " + why, fmt.Sprintf("json=%q got=%q", jv, v.String())
			}
			return "", ""
		case system.DateTime:
			if ok, why := temporalEqualSys(jv, v.String(), false); !ok {
				return "temporal-mismatch type=" + n.TypeName + " " + why, fmt.Sprintf("json=%q got=%q", jv, v.String())
			}
			return "", ""
		case system.Time:
			if ok, why := temporalEqualSys(jv, v.String(), true); !ok {
				return "temporal-mismatch type=" + n.TypeName + " " + why, fmt.Sprintf("json=%q got=%q", jv, v.String())
			}
			return "", ""
		}
		return "primitive-kind-mismatch type=" + n.TypeName + " got=" + typeName(sys), fmt.Sprintf("json=%q", jv)
	case bool:
		if b, ok := sys.(system.Boolean); ok && bool(b) == jv {
			return "", ""
		}
		return "primitive-value-mismatch type=" + n.TypeName, fmt.Sprintf("json=%v got=%v", jv, renderItem(sys))
	case json.Number:
		want, ok := new(big.Rat).SetString(jv.String())
		gotR, _, ok2 := numOf(sys)
		if ok && ok2 && want.Cmp(gotR) == 0 {
			return "", ""
		}
		return "primitive-value-mismatch type=" + n.TypeName, fmt.Sprintf("json=%v got=%v", jv, renderItem(sys))
	}
	return "", ""
}

func isTemporalType(t string) bool {
	return t == "Date" || t == "DateTime" || t == "Instant" || t == "Time"
}

// c02Compare checks an evaluation result against the expected node list.
func c02Compare(ctx *Ctx, src string, out evalOut, want []*Node, viaChoiceOther bool, lastName string) {
	tag := ""
	fail := func(sig, detail string) {
		ctx.Fail("nav "+sig+tag, fmt.Sprintf("%s: %s; expected %d node(s), got %s", src, detail, len(want), clip(out.String(), 600)))
	}
	switch out.kind() {
	case "panic":
		fail("panic@"+out.Panic, out.Stack)
		return
	case "cerror":
		fail("compile-error", out.CompileErr.Error())
		return
	case "error":
		if errors.Is(out.Err, fhirpath.ErrInvalidField) {
			// defect model: the camelCase→snake_case mapping of the name is not the proto field name
			bad := ""
			for _, n := range want {
				for x := n; x != nil && x.Parent != nil; x = x.Parent {
					if x.Msg == nil && !x.Synth {
						continue
					}
					if (strcase.ToSnake(x.Name) != c02ProtoFieldName(x) || strcase.ToLowerCamel(x.Name) != x.Name) && !x.Synth {
						bad = x.Name
					}
				}
			}
			if bad != "" {
				fail("valid element unreachable: name does not survive the strcase camel/snake round trip; ErrInvalidField", "name="+bad)
				return
			}
			fail("ErrInvalidField for a valid element", out.Err.Error())
			return
		}
		fail("error", out.Err.Error())
		return
	}
	if len(out.Coll) != len(want) {
		dir := "fewer"
		if len(out.Coll) > len(want) {
			dir = "more"
		}
		fail("count-mismatch("+dir+")", "")
		return
	}
	for i, n := range want {
		got := out.Coll[i]
		if n.Synth {
			s, err := system.From(got)
			if err != nil || s != system.String(n.JSON.(string)) {
				fail("reference string mismatch", fmt.Sprintf("json=%q got=%s", n.JSON, renderItem(got)))
				return
			}
			continue
		}
		gm, ok := got.(proto.Message)
		if !ok {
			fail("non-element result for element path", renderItem(got))
			return
		}
		if n.ViaAny {
			if !proto.Equal(gm, n.Msg) {
				// wrapper?
				fail("wrong-node(contained)", fmt.Sprintf("item %d", i))
				return
			}
		} else if any(gm) != any(n.Msg) {
			// choice wrapper returned instead of the chosen value?
			gmd := gm.ProtoReflect().Descriptor()
			if isChoiceMD(gmd) {
				if fd := gm.ProtoReflect().WhichOneof(gmd.Oneofs().Get(0)); fd != nil && any(gm.ProtoReflect().Get(fd).Message().Interface()) == any(n.Msg) {
					if strings.HasSuffix(string(gmd.Name()), "ValueX") {
						fail("choice wrapper returned (wrapper message name ends in ValueX)", string(gmd.FullName()))
					} else {
						fail("choice wrapper returned (wrapper message name does not end in ValueX)", string(gmd.FullName()))
					}
					return
				}
			}
			if proto.Equal(gm, n.Msg) {
				fail("equal copy returned instead of the resource's own node", fmt.Sprintf("item %d", i))
			} else {
				fail("wrong-node", fmt.Sprintf("item %d: got %s", i, clip(renderItem(gm), 200)))
			}
			return
		}
		if n.Prim {
			if sig, detail := c02PrimCheck(n, got); sig != "" {
				fail(sig, detail)
				return
			}
		}
	}
}

func c02ProtoFieldName(n *Node) string {
	if n.Parent == nil || n.Parent.Msg == nil {
		return ""
	}
	fs := n.Parent.Msg.ProtoReflect().Descriptor().Fields()
	for i := 0; i < fs.Len(); i++ {
		if fs.Get(i).JSONName() == n.Name {
			return string(fs.Get(i).Name())
		}
	}
	return ""
}

type c02Path struct {
	names []string
	nodes []*Node // un-indexed result
}

func c02Run(ctx *Ctx, c c02Case) {
	res := c.res
	if res == nil {
		var err error
		if res, err = resFromText(c.Res); err != nil {
			ctx.Fail("harness: cannot decode case", err.Error())
			return
		}
	}
	if n := aliasSubtrees(res, c.Alias); n > 0 {
		ctx.Count("resources_with_shared_message_objects")
	}
	root, perrs, err := buildTree(res)
	if err != nil {
		// google/fhir's marshaller has no rendering for the one singular embedded resource of R4
		// (Parameters.parameter.resource, a bare Any): without a JSON tree, the paths that end at
		// such a resource are checked against a descriptor walk instead
		ctx.Count("marshal_errors")
		c02SingularAny(ctx, c, res)
		return
	}
	if len(perrs) > 0 {
		ctx.Count("tree_pairing_inconsistencies")
		ctx.Fail("harness: JSON tree and descriptor walk disagree", strings.Join(perrs, "; "))
	}
	input := []fhir.Resource{res.(fhir.Resource)}
	// distinct name paths in document order
	seen := map[string]bool{}
	var paths [][]string
	root.walk(func(n *Node) {
		p := n.pathNames()
		k := strings.Join(p, ".")
		if !seen[k] {
			seen[k] = true
			paths = append(paths, p)
		}
	})
	typ := root.Name
	// mismatching roots: every type whose name contains, or is contained in, this one
	// (Person / RelatedPerson, Group / RequestGroup, Medication / MedicationRequest …), then
	// the other types in rotation
	var others []string
	for _, rt := range allResTypes {
		if rt.Name != typ && (strings.Contains(rt.Name, typ) || strings.Contains(typ, rt.Name)) {
			others = append(others, rt.Name)
		}
	}
	nRelated := len(others)
	for pi, names := range paths {
		other := allResTypes[(pi*31+len(typ))%len(allResTypes)].Name
		if nRelated > 0 && (pi/4)%2 == 0 {
			other = others[(pi/8)%nRelated]
		}
		if other == typ {
			other = allResTypes[(pi*31+len(typ)+1)%len(allResTypes)].Name
		}
		steps := make([]step, len(names))
		for i, nm := range names {
			steps[i] = step{nm, -1}
		}
		want := modelEval(root, steps)
		// homogeneity of every prefix (un-indexed spelling only makes a claim then)
		homog := true
		viaChoiceOther := false
		viaAny := false
		for i := 1; i <= len(steps); i++ {
			ns := modelEval(root, steps[:i])
			for _, n := range ns {
				if n.TypeName != ns[0].TypeName {
					homog = false
				}
				if n.Choice && n.Name != "value" && i < len(steps)+1 {
					viaChoiceOther = true
				}
				if n.ViaAny {
					viaAny = true
				}
			}
		}
		last := names[len(names)-1]
		classes := []string{"spelling:unindexed"}
		if viaAny {
			classes = append(classes, "contained")
		}
		multiParent := false
		if len(steps) >= 2 && len(modelEval(root, steps[:len(steps)-1])) >= 2 {
			multiParent = true
			classes = append(classes, "flatten(≥2 parents)")
		}
		for _, n := range want {
			if n.Choice {
				classes = append(classes, "choice-step")
				break
			}
		}
		if want[0].Synth {
			classes = append(classes, "reference-string")
		}
		if want[0].Prim && isTemporalType(want[0].TypeName) {
			classes = append(classes, "temporal-leaf")
		}
		if (strcase.ToSnake(last) != c02ProtoFieldName(want[0]) || strcase.ToLowerCamel(last) != last) && !want[0].Synth {
			classes = append(classes, "odd-field-name")
		}
		_ = multiParent
		nontrivial := len(names) >= 2 && len(want) >= 1
		if homog {
			src := renderSteps(typ, steps)
			out := evalWith(src, input, nil)
			ctx.Eval(c.Res+"|"+src, nontrivial, classes...)
			c02Compare(ctx, src, out, want, viaChoiceOther, last)
			// without the leading type name
			src2 := renderSteps("", steps)
			out2 := evalWith(src2, input, nil)
			ctx.Eval(c.Res+"|"+src2, nontrivial, "spelling:no-root")
			c02Compare(ctx, src2, out2, want, viaChoiceOther, last)
			// every identifier delimited, the root type included
			if pi%5 == 1 {
				src5 := renderStepsDelimited(typ, steps)
				out5 := evalWith(src5, input, nil)
				ctx.Eval(c.Res+"|"+src5, nontrivial, "spelling:delimited")
				c02Compare(ctx, src5, out5, want, viaChoiceOther, last)
			}
			// mismatching root type → empty
			if pi%4 == 0 {
				src3 := renderSteps(other, steps)
				out3 := evalWith(src3, input, nil)
				ctx.Eval(c.Res+"|"+src3, nontrivial, "negative:mismatched-root")
				if out3.kind() != "empty" {
					ctx.Fail("nav mismatched root type does not yield empty: "+out3.kind(), fmt.Sprintf("%s on a %s: %s", src3, typ, out3))
				}
			}
			// .value of date/time primitives is the FHIR string
			if want[0].Prim && isTemporalType(want[0].TypeName) && !viaChoiceOther {
				src4 := src + ".value"
				out4 := evalWith(src4, input, nil)
				ctx.Eval(c.Res+"|"+src4, nontrivial, "temporal-value")
				c02TemporalValue(ctx, src4, out4, want)
			}
		} else {
			ctx.Class("skipped:heterogeneous-unindexed")
		}
		// fully indexed spelling for every node of this name path, and a mixed spelling
		for wi, n := range want {
			full := c02IndexedSteps(n, 0xffff)
			srcF := renderSteps(typ, full)
			outF := evalWith(srcF, input, nil)
			ctx.Eval(c.Res+"|"+srcF, nontrivial, "spelling:indexed")
			wantF := modelEval(root, full)
			c02Compare(ctx, srcF, outF, wantF, viaChoiceOther, last)
			if wi == 0 && len(names) >= 2 && homog {
				mixed := c02IndexedSteps(n, c.Mix+pi)
				srcM := renderSteps(typ, mixed)
				if srcM != srcF {
					outM := evalWith(srcM, input, nil)
					ctx.Eval(c.Res+"|"+srcM, nontrivial, "spelling:mixed")
					c02Compare(ctx, srcM, outM, modelEval(root, mixed), viaChoiceOther, last)
				}
			}
		}
		// negative: names that are not elements of the parent type
		if homog && !viaChoiceOther && pi%3 == 0 {
			c02BadNames(ctx, c, typ, steps, want, input)
		}
	}
}

func c02TemporalValue(ctx *Ctx, src string, out evalOut, want []*Node) {
	if out.failed() {
		ctx.Fail("nav temporal .value: "+out.kind(), fmt.Sprintf("%s: %s", src, out))
		return
	}
	if len(out.Coll) != len(want) {
		ctx.Fail("nav temporal .value: count-mismatch", fmt.Sprintf("%s: want %d got %s", src, len(want), out))
		return
	}
	for i, n := range want {
		js, _ := n.JSON.(string)
		s, ok := out.Coll[i].(system.String)
		if !ok {
			ctx.Fail("nav temporal .value: not a System String", fmt.Sprintf("%s: %s", src, out))
			return
		}
		if eq, why := temporalEqual(js, string(s), n.TypeName == "Time"); !eq {
			ctx.Fail("nav temporal .value differs from JSON type="+n.TypeName+" "+why, fmt.Sprintf("%s: json=%q got=%q", src, js, s))
			return
		}
	}
}

func c02BadNames(ctx *Ctx, c c02Case, typ string, steps []step, parents []*Node, input []fhir.Resource) {
	p := parents[0]
	if p.Synth || p.Msg == nil || len(parents) == 0 {
		return
	}
	fields := map[string]bool{}
	fs := p.Msg.ProtoReflect().Descriptor().Fields()
	for i := 0; i < fs.Len(); i++ {
		fields[fs.Get(i).JSONName()] = true
		fields[string(fs.Get(i).Name())] = true
	}
	cands := []string{"zzNoSuchField", "birth_date", "valueUs", "timezone", "precision", "valueQuantity", "managingOrganization", "given"}
	// a resource type name below the root is an ordinary (non-element) name, not a type filter
	if len(steps) > 0 {
		cands = append(cands, typ, "Patient", "Resource")
	}
	// the JSON spelling of a populated choice child
	for _, name := range p.KidOrder {
		k := p.Kids[name][0]
		if k.Choice && k.JSONKey != name {
			cands = append(cands, k.JSONKey)
		}
		// snake_case spelling of a multi-word element
		if sn := strcase.ToSnake(name); sn != name {
			cands = append(cands, sn)
		}
	}
	for _, bad := range cands {
		if fields[bad] || fields[strcase.ToSnake(bad)] || fields[strcase.ToSnake(bad)+"_value"] {
			if !(strings.Contains(bad, "_")) && !(isTemporalType(p.TypeName) && (bad == "valueUs" || bad == "timezone" || bad == "precision")) {
				continue
			}
		}
		if p.TypeName == "Reference" && bad == "reference" {
			continue
		}
		src := renderSteps(typ, steps) + "." + bad
		out := evalWith(src, input, nil)
		ctx.Eval(c.Res+"|"+src, true, "negative:non-element-name")
		if out.kind() == "error" && errors.Is(out.Err, fhirpath.ErrInvalidField) {
			continue
		}
		ctx.Fail("nav non-element name does not fail with ErrInvalidField: outcome="+out.kind()+" class="+c02BadClass(bad), fmt.Sprintf("%s (parent type %s): %s", src, p.TypeName, out))
	}
}

func c02BadClass(bad string) string {
	switch {
	case strings.Contains(bad, "_"):
		return "snake_case"
	case bad == "valueUs" || bad == "timezone" || bad == "precision":
		return "proto-artefact"
	case strings.HasPrefix(bad, "zz"):
		return "fresh"
	}
	return "other-element-or-json-choice-key"
}

var _ = dtpb.Date_DAY

func TestC02(t *testing.T) {
	r := newRec("C02",
		"a case is one generated resource (30% of them with 1–3 positions rewired to hold a message object that also sits elsewhere in the resource: shared sub-messages, which the text form cannot express and which are applied from a number stored in the case; type drawn uniformly from the 146 R4 types, fields populated by a descriptor walk); every element path of its google/fhir JSON rendering is evaluated un-indexed, fully indexed, mixed, without the root type, with a mismatching root, with `.value` on date/time leaves and with non-element names appended; an evaluation is one (resource, source string); non-trivial = path length ≥ 2 selecting ≥ 1 node (or a negative program on a non-empty parent); distinct = FNV-64 of (resource text, source)",
		"google/fhir jsonformat defines the FHIR JSON rendering", "un-indexed spellings are asserted only where every prefix selects nodes of one type (the statement is silent on heterogeneous collections)", "fraction digits beyond milliseconds are outside System DateTime/Time")
	runProperty(t, r,
		Stage[c02Case]{Name: "embedded-resources", Enum: c02EnumEmbedded, Run: c02Run},
		Stage[c02Case]{Name: "resources", Gen: c02Gen, Run: c02Run, N: pick(600, 4000)},
	)
}
