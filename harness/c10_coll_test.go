package zzverif

// C10 — filtering, projection, subsetting and set functions obey the collection
// algebra.  The item list is obtained by evaluating the base expression c itself;
// the oracle is a list model over those items plus the metamorphic equalities of
// the statement, evaluated by the library on the same input.

import (
	"fmt"
	"math/big"
	"strings"
	"testing"
	"unicode/utf8"

	dtpb "github.com/google/fhir/go/proto/google/fhir/proto/r4/core/datatypes_go_proto"
	"github.com/verily-src/fhirpath-go/fhirpath/system"
	"github.com/verily-src/fhirpath-go/internal/fhir"
	"google.golang.org/protobuf/proto"
)

type c10Case struct {
	Res  string `json:"res,omitempty"` // generated resource (prototext); "" = fixture Patient
	Base string `json:"base"`          // expression producing c ("%c" = the variable below)
	C    []Val  `json:"c,omitempty"`
	D    []Val  `json:"d,omitempty"` // the other collection for set functions ("%d")
	Fn   string `json:"fn"`
	Crit string `json:"crit,omitempty"`
	N    int    `json:"n"`
}

// ---------------------------------------------------------------------------
// item model

// itemCmp classifies an evaluated item for the equality model.
func itemCmp(x any) cmpVal {
	sv, err := system.From(x)
	if err != nil {
		if m, ok := x.(proto.Message); ok {
			return cmpVal{fam: "complex", msg: m}
		}
		return cmpVal{fam: "other"}
	}
	switch v := sv.(type) {
	case system.Integer:
		return cmpVal{fam: "num", num: new(big.Rat).SetInt64(int64(v))}
	case system.Decimal:
		return cmpVal{fam: "num", num: ratOf(v.String())}
	case system.String:
		return cmpVal{fam: "str", str: string(v)}
	case system.Boolean:
		return cmpVal{fam: "bool", b: bool(v)}
	case system.Date:
		t, _ := parseAnyTemporal(v.String(), false)
		return cmpVal{fam: "temporal", comp: c05Components(t, false)}
	case system.DateTime:
		t, _ := parseAnyTemporal(v.String(), false)
		return cmpVal{fam: "temporal", comp: c05Components(t, false)}
	case system.Time:
		t, _ := parseAnyTemporal(v.String(), true)
		return cmpVal{fam: "time", comp: c05Components(t, true)}
	case system.Quantity:
		parts := strings.SplitN(v.String(), " ", 2)
		u := ""
		if len(parts) == 2 {
			u = parts[1]
		}
		return cmpVal{fam: "qty", num: ratOf(parts[0]), unit: u}
	}
	return cmpVal{fam: "other"}
}

// itemEqual: the model's "equal" (equality that yields true).
func itemEqual(a, b cmpVal) bool {
	if a.fam == "complex" || b.fam == "complex" {
		return a.fam == b.fam && proto.Equal(a.msg, b.msg)
	}
	eq, _ := c05Model(a, b)
	return eq == "T"
}

// sameItem: identity of a result item with an input item (pointer identity for
// elements, canonical rendering for System values).
// identityStrict is cleared for a case whose base expression synthesises its items
// (reference strings, resources unpacked from a contained Any): two evaluations of
// such a base do not return the same pointers, and elements are compared
// structurally instead.
var identityStrict = true

func sameItem(a, b any) bool {
	ma, oka := a.(proto.Message)
	mb, okb := b.(proto.Message)
	if oka && okb {
		if identityStrict {
			return any(ma) == any(mb)
		}
		return any(ma) == any(mb) || proto.Equal(ma, mb)
	}
	if oka != okb {
		return false
	}
	return renderItem(a) == renderItem(b)
}

func sameList(got system.Collection, want []any) bool {
	if len(got) != len(want) {
		return false
	}
	for i := range want {
		if !sameItem(got[i], want[i]) {
			return false
		}
	}
	return true
}

// ---------------------------------------------------------------------------
// criteria with a harness-side truth function

type c10Crit struct {
	Expr  string
	Truth func(x any) string // T F E (empty) or "n/a" (criterion not applicable to this item)
}

func numOfItem(x any) (*big.Rat, bool) {
	c := itemCmp(x)
	return c.num, c.fam == "num"
}

var c10Crits = map[string]c10Crit{
	"true":   {"true", func(any) string { return "T" }},
	"false":  {"false", func(any) string { return "F" }},
	"empty":  {"{}", func(any) string { return "E" }},
	"one":    {"1", func(any) string { return "T" }},
	"exists": {"$this.exists()", func(any) string { return "T" }},
	// the item itself as criterion: a System Boolean or a FHIR boolean element decides by
	// its value (other items are left to C06)
	"thisBool": {"$this", func(x any) string {
		switch b := x.(type) {
		case system.Boolean:
			if bool(b) {
				return "T"
			}
			return "F"
		case *dtpb.Boolean:
			if b.GetValue() {
				return "T"
			}
			return "F"
		}
		return "n/a"
	}},
	"gt1": {"$this > 1", func(x any) string {
		if r, ok := numOfItem(x); ok {
			if r.Cmp(big.NewRat(1, 1)) > 0 {
				return "T"
			}
			return "F"
		}
		return "n/a"
	}},
	"le2": {"$this <= 2", func(x any) string {
		if r, ok := numOfItem(x); ok {
			if r.Cmp(big.NewRat(2, 1)) <= 0 {
				return "T"
			}
			return "F"
		}
		return "n/a"
	}},
	"len1": {"$this.length() <= 1", func(x any) string {
		if c := itemCmp(x); c.fam == "str" {
			if utf8.RuneCountInString(c.str) <= 1 {
				return "T"
			}
			return "F"
		}
		return "n/a"
	}},
	"isInteger": {"$this is System.Integer", func(x any) string {
		if _, ok := x.(system.Integer); ok {
			return "T"
		}
		if _, ok := x.(system.Any); ok {
			return "F"
		}
		if _, ok := x.(fhir.Base); ok {
			return "F"
		}
		return "n/a"
	}},
	"family": {"family.exists()", func(x any) string {
		if n, ok := x.(*dtpb.HumanName); ok {
			if n.GetFamily() != nil {
				return "T"
			}
			return "F"
		}
		return "n/a"
	}},
	"official": {"use = 'official'", func(x any) string {
		if n, ok := x.(*dtpb.HumanName); ok {
			if n.GetUse() == nil {
				return "E"
			}
			if n.GetUse().GetValue().String() == "OFFICIAL" {
				return "T"
			}
			return "F"
		}
		return "n/a"
	}},
	"given2": {"given.count() > 1", func(x any) string {
		if n, ok := x.(*dtpb.HumanName); ok {
			if len(n.GetGiven()) > 1 {
				return "T"
			}
			return "F"
		}
		return "n/a"
	}},
	"hasId": {"id.exists()", func(x any) string {
		type ider interface{ GetId() *dtpb.String }
		if e, ok := x.(ider); ok {
			if e.GetId() != nil {
				return "T"
			}
			return "F"
		}
		return "n/a"
	}},
	"hasExt": {"extension.exists()", func(x any) string {
		if e, ok := x.(fhir.Extendable); ok {
			if len(e.GetExtension()) > 0 {
				return "T"
			}
			return "F"
		}
		return "n/a"
	}},
}

var c10CritNames = func() []string {
	var out []string
	for k := range c10Crits {
		out = append(out, k)
	}
	return sortedStrings(out)
}()

func sortedStrings(xs []string) []string {
	for i := 1; i < len(xs); i++ {
		for j := i; j > 0 && xs[j] < xs[j-1]; j-- {
			xs[j], xs[j-1] = xs[j-1], xs[j]
		}
	}
	return xs
}

// ---------------------------------------------------------------------------
// generator

var c10Fns = []string{"where", "where", "select-this", "select-given", "exists", "all", "empty", "extension", "first", "tail", "last", "takeskip", "takeskip", "index", "distinct", "distinct", "exclude", "exclude", "intersect", "intersect"}

func c10GenVals(s Src, n int) []Val {
	// duplicates and cross-type equals are common by construction
	base := [][]Val{
		{iv(1), iv(2), iv(3), dv("1.0"), dv("2.0"), dv("2.5"), iv(1), fv("integer", "1"), fv("decimal", "2.50"), fv("positiveInt", "3")},
		{sv("a"), sv("b"), sv("é"), sv("ab"), sv(""), sv("a"), fv("string", "a"), fv("code", "b"), sv("B")},
		{dateV("2020"), dateV("2020-01"), dateV("2020-01-01"), dateV("2020-01"), dtV("2020-01-01T"), dtV("2020-01-01T10:00:00Z"), dtV("2020-01-01T15:30:00+05:30"), timeV("10:00"), timeV("10:00:00")},
		{bv(true), bv(false), bv(true), fv("boolean", "true"), fv("boolean", "false"), fv("boolean", "false")},
		{qv("1", "mg"), qv("1.0", "mg"), qv("1", "kg"), qv("2", "mg"), qv("1", "mg")},
		poolComplex,
	}
	var pool []Val
	switch s.Intn(8) {
	case 0:
		for _, g := range base {
			pool = append(pool, g...)
		}
	default:
		pool = base[s.Intn(len(base))]
		if s.Prob(25) {
			pool = append(append([]Val{}, pool...), base[s.Intn(len(base))]...)
		}
	}
	out := make([]Val, n)
	for i := range out {
		out[i] = pool[s.Intn(len(pool))]
	}
	return out
}

func c10Gen(s Src) c10Case {
	c := c10Case{Fn: pickOne(s, c10Fns), Crit: pickOne(s, c10CritNames)}
	switch s.Intn(10) {
	case 0, 1, 2, 3, 4, 5:
		c.Base = "%c"
		c.C = c10GenVals(s, s.Range(0, 8))
	case 6, 7:
		c.Base = pickOne(s, []string{"Patient.name", "Patient.name.given", "Patient.telecom", "Patient.extension", "Patient.identifier", "Patient.contact.name", "Patient.name.family", "Patient.children()", "Patient.name.descendants()", "Patient.telecom.rank", "Patient.photo", "Patient.address.line"})
	default:
		res := genAnyResource(s, defaultGen)
		c.Res = resToText(res)
		typ := string(res.ProtoReflect().Descriptor().Name())
		c.Base = typ
		if root, _, err := buildTree(res); err == nil {
			var paths []string
			root.walk(func(n *Node) {
				if n.Parent != nil && len(n.pathNames()) <= 3 {
					paths = append(paths, typ+"."+strings.Join(n.pathNames(), "."))
				}
			})
			if len(paths) > 0 {
				c.Base = pickOne(s, paths)
				if strings.Contains(c.Base, ".div") {
					c.Base = typ
				}
			}
		}
		if s.Prob(30) {
			c.Base += pickOne(s, []string{".children()", ".descendants()", ".extension"})
		}
	}
	// the other collection: a subset of c, fresh items and cross-type equals, shuffled
	nd := s.Range(0, 5)
	for i := 0; i < nd; i++ {
		if len(c.C) > 0 && s.Prob(60) {
			c.D = append(c.D, c.C[s.Intn(len(c.C))])
		} else {
			c.D = append(c.D, c10GenVals(s, 1)[0])
		}
	}
	c.N = s.Range(-3, 11)
	if s.Prob(10) {
		c.N = pickOne(s, []int{-2147483648, 2147483647, 2147483646})
	}
	return c
}

// ---------------------------------------------------------------------------

type c10Env struct {
	ctx    *Ctx
	c      c10Case
	vars   map[string]any
	input  []fhir.Resource
	items  []any
	dItems []any
}

func (e *c10Env) eval(src string) evalOut { return evalWith(src, e.input, e.vars) }

func (e *c10Env) fail(sig, src string, out evalOut, want string) {
	e.ctx.Fail("algebra "+sig, fmt.Sprintf("c = %s (%d items: %s)\n%s → %s\nwant %s", e.c.Base, len(e.items), renderItems(e.items), src, clip(out.String(), 600), want))
}

func c10Run(ctx *Ctx, c c10Case) {
	e := &c10Env{ctx: ctx, c: c, vars: map[string]any{}}
	var pat fhir.Resource = fixturePatient()
	if c.Res != "" {
		m, err := resFromText(c.Res)
		if err != nil {
			ctx.Fail("harness: cannot decode case", err.Error())
			return
		}
		pat = m.(fhir.Resource)
	}
	e.input = []fhir.Resource{pat}
	if cc, err := (Coll{Items: c.C}).build(); err == nil {
		e.vars["c"] = cc
	}
	if dd, err := (Coll{Items: c.D}).build(); err == nil {
		e.vars["d"] = dd
		e.dItems = append(e.dItems, dd.(system.Collection)...)
	}
	base := e.eval(c.Base)
	if base.failed() {
		ctx.Eval(c.Base+"|"+c.Fn, false, "base:failed")
		return
	}
	e.items = append(e.items, base.Coll...)
	n := len(e.items)
	// does the base expression return the resource's own nodes, or fresh copies?
	identityStrict = true
	if again := e.eval(c.Base); !again.failed() && len(again.Coll) == n {
		for i := range e.items {
			ma, oka := e.items[i].(proto.Message)
			mb, okb := again.Coll[i].(proto.Message)
			if oka && okb && any(ma) != any(mb) {
				identityStrict = false
			}
		}
	}
	if !identityStrict {
		ctx.Count("base_synthesises_items(structural identity)")
	}
	// numbers and quantities in one collection: whether `1 = 1 'mg'` holds is left open by
	// the statement (C05), so the equality classes are ambiguous
	hasNum, hasQty := false, false
	for _, it := range append(append([]any{}, e.items...), e.dItems...) {
		switch itemCmp(it).fam {
		case "num":
			hasNum = true
		case "qty":
			hasQty = true
		}
	}
	ambiguousEq := hasNum && hasQty
	complexColl := false
	for _, it := range e.items {
		if itemCmp(it).fam == "complex" {
			complexColl = true
		}
	}
	classes := []string{"fn:" + c.Fn}
	if complexColl {
		classes = append(classes, "complex-element-collection")
	}
	nontrivial := n >= 2
	defer func() {
		ctx.Eval(fmt.Sprintf("%s|%s|%v|%v|%s|%s|%d", c.Res, c.Base, c.C, c.D, c.Fn, c.Crit, c.N), nontrivial, classes...)
	}()
	noNil := func(src string, out evalOut) bool {
		for _, it := range out.Coll {
			if it == nil {
				e.fail(c.Fn+": result contains a null item", src, out, "no null items")
				return false
			}
		}
		return true
	}
	switch c.Fn {
	case "where", "exists", "all":
		cr := c10Crits[c.Crit]
		var want []any
		applicable, multiErr := true, false
		pass, total := 0, 0
		for _, it := range e.items {
			switch cr.Truth(it) {
			case "T":
				want = append(want, it)
				pass++
			case "n/a":
				applicable = false
			}
			total++
		}
		_ = multiErr
		if !applicable {
			ctx.Count("criterion_not_applicable_to_some_item(not asserted)")
			nontrivial = false
			// still: exists(p) ≡ where(p).exists() whatever p does
			a, b := e.eval(c.Base+".exists("+cr.Expr+")"), e.eval(c.Base+".where("+cr.Expr+").exists()")
			if a.kind() != b.kind() || (!a.failed() && renderColl(a.Coll) != renderColl(b.Coll)) {
				e.fail("exists(p) differs from where(p).exists()", c.Base+".exists("+cr.Expr+")", a, b.String())
			}
			return
		}
		nontrivial = n >= 2 && pass > 0 && pass < total
		switch c.Fn {
		case "where":
			src := c.Base + ".where(" + cr.Expr + ")"
			out := e.eval(src)
			if out.failed() || !sameList(out.Coll, want) {
				e.fail("where: not the order-preserving sub-collection of passing items ["+c.Crit+"]", src, out, renderItems(want))
				return
			}
			// the passing and the failing items partition c — evaluated by the library in one program,
			// so that c is referenced twice
			allDecided := true
			for _, it := range e.items {
				if t := cr.Truth(it); t != "T" && t != "F" {
					allDecided = false
				}
			}
			if allDecided {
				src2 := c.Base + ".where(" + cr.Expr + ").count() + " + c.Base + ".where((" + cr.Expr + ").not()).count()"
				out2 := e.eval(src2)
				if out2.failed() || renderColl(out2.Coll) != fmt.Sprintf("[Integer:%d]", n) {
					e.fail("where(p) and where(p.not()) do not partition c", src2, out2, fmt.Sprint(n))
				}
			}
		case "exists":
			src := c.Base + ".exists(" + cr.Expr + ")"
			out := e.eval(src)
			if out.failed() || renderColl(out.Coll) != fmt.Sprintf("[Boolean:%v]", len(want) > 0) {
				e.fail("exists(p) differs from where(p).exists() ["+c.Crit+"]", src, out, fmt.Sprint(len(want) > 0))
			}
		case "all":
			src := c.Base + ".all(" + cr.Expr + ")"
			out := e.eval(src)
			if out.failed() || renderColl(out.Coll) != fmt.Sprintf("[Boolean:%v]", len(want) == n) {
				e.fail("all(p) is not 'p is true for every item' ["+c.Crit+"]", src, out, fmt.Sprint(len(want) == n))
			}
		}
	case "select-this":
		src := c.Base + ".select($this)"
		out := e.eval(src)
		if out.failed() || !sameList(out.Coll, e.items) {
			e.fail("select($this) is not the collection itself", src, out, renderItems(e.items))
		}
	case "select-given":
		var want []any
		for _, it := range e.items {
			hn, ok := it.(*dtpb.HumanName)
			if !ok {
				ctx.Count("projection_not_applicable(not asserted)")
				nontrivial = false
				return
			}
			for _, g := range hn.GetGiven() {
				want = append(want, g)
			}
		}
		src := c.Base + ".select(given)"
		out := e.eval(src)
		if n > 0 && (out.failed() || !sameList(out.Coll, want)) {
			e.fail("select(e) is not the in-order concatenation of e over the items", src, out, renderItems(want))
		}
	case "empty":
		a, b := e.eval(c.Base+".empty()"), e.eval(c.Base+".count() = 0")
		if a.failed() || renderColl(a.Coll) != renderColl(b.Coll) || renderColl(a.Coll) != fmt.Sprintf("[Boolean:%v]", n == 0) {
			e.fail("empty() differs from count() = 0", c.Base+".empty()", a, b.String())
		}
		cnt := e.eval(c.Base + ".count()")
		if renderColl(cnt.Coll) != fmt.Sprintf("[Integer:%d]", n) {
			e.fail("count() is not the number of items", c.Base+".count()", cnt, fmt.Sprint(n))
		}
	case "extension":
		urls := []string{"http://example.org/a", "http://example.org/b", "http://hl7.org/fhir/StructureDefinition/ext-1", "http://example.org/none"}
		// the urls actually present, and near misses of them (other case, a prefix, a trailing slash)
		seenURL := map[string]bool{}
		for _, u := range urls {
			seenURL[u] = true
		}
		for _, it := range e.items {
			if ex, ok := it.(fhir.Extendable); ok {
				for _, x := range ex.GetExtension() {
					u := x.GetUrl().GetValue()
					if u == "" || strings.ContainsAny(u, "'\\") || len(seenURL) > 24 {
						continue
					}
					for _, v := range []string{u, strings.ToUpper(u), strings.ToLower(u), u[:len(u)-1], u + "/", strings.ToUpper(u[:1]) + u[1:]} {
						if !seenURL[v] && v != "" {
							seenURL[v] = true
							urls = append(urls, v)
						}
					}
				}
			}
		}
		for _, u := range urls {
			var want []any
			applicable := true
			for _, it := range e.items {
				ex, ok := it.(fhir.Extendable)
				if !ok {
					if _, isSys := it.(system.Any); isSys {
						applicable = false
					}
					continue
				}
				for _, x := range ex.GetExtension() {
					if x.GetUrl().GetValue() == u {
						want = append(want, x)
					}
				}
			}
			if !applicable {
				nontrivial = false
				return
			}
			a := e.eval(c.Base + ".extension('" + u + "')")
			if a.failed() || !sameList(a.Coll, want) {
				e.fail("extension(u) does not select exactly the extensions with that url", c.Base+".extension('"+u+"')", a, renderItems(want))
				return
			}
			allExtendable := true
			for _, it := range e.items {
				if _, ok := it.(fhir.Extendable); !ok {
					allExtendable = false // `.extension` is not an element of every item (e.g. Binary)
				}
			}
			if len(want) > 0 && allExtendable {
				b := e.eval(c.Base + ".extension.where(url = '" + u + "')")
				if b.failed() || !sameList(b.Coll, want) {
					e.fail("extension(u) differs from extension.where(url = u)", c.Base+".extension.where(url = '"+u+"')", b, renderItems(want))
					return
				}
			}
		}
	case "first", "tail", "last", "index":
		check := func(src string, want []any, law string) bool {
			out := e.eval(src)
			if out.failed() || !sameList(out.Coll, want) {
				e.fail(law, src, out, renderItems(want))
				return false
			}
			return noNil(src, out)
		}
		var first, last, tail []any
		if n > 0 {
			first, last, tail = e.items[:1], e.items[n-1:], e.items[1:]
		}
		switch c.Fn {
		case "first":
			_ = check(c.Base+".first()", first, "first() is not the first item") && check(c.Base+"[0]", first, "c[0] is not the first item") && check(c.Base+".take(1)", first, "take(1) is not the first item")
		case "tail":
			_ = check(c.Base+".tail()", tail, "tail() is not all but the first item") && check(c.Base+".skip(1)", tail, "skip(1) is not all but the first item")
		case "last":
			_ = check(c.Base+".last()", last, "last() is not the last item") && (n == 0 || check(fmt.Sprintf("%s.skip(%d)", c.Base, n-1), last, "skip(count()-1) is not the last item"))
		case "index":
			k := c.N
			var want []any
			if k >= 0 && k < n {
				want = e.items[k : k+1]
			}
			e.vars["k"] = system.Integer(int32(k))
			check(c.Base+"[%k]", want, "c[k] is not the k-th item (empty when out of range)")
			nontrivial = n >= 2 && k > 0 && k < n
		}
	case "takeskip":
		k := c.N
		e.vars["k"] = system.Integer(int32(k))
		t, s := e.eval(c.Base+".take(%k)"), e.eval(c.Base+".skip(%k)")
		if t.failed() || s.failed() {
			e.fail("take/skip fail for an integer n", c.Base+".take(%k) / skip(%k) with k="+fmt.Sprint(k), t, "no error; skip → "+s.String())
			return
		}
		cut := k
		if cut < 0 {
			cut = 0
		}
		if cut > n {
			cut = n
		}
		if !sameList(t.Coll, e.items[:cut]) || !sameList(s.Coll, e.items[cut:]) {
			e.fail("take(n) and skip(n) do not partition c", fmt.Sprintf("%s.take(%d) ⧺ skip(%d)", c.Base, k, k), t, renderItems(e.items[:cut])+" ⧺ "+renderItems(e.items[cut:])+" ; skip → "+s.String())
			return
		}
		noNil("take", t)
		noNil("skip", s)
		// windows: skip(a).take(b) and take(a+b).skip(a) with the bounds written as literals, b up to
		// the largest Integer ("no limit"): positional subsetting composes like slicing
		if k >= 0 {
			check := func(src string, want []any, law string) bool {
				out := e.eval(src)
				if out.failed() || !sameList(out.Coll, want) {
					e.fail(law, src, out, renderItems(want))
					return false
				}
				return true
			}
			for _, b := range []int{1, n, 2147483647, 2147483646 - k%3} {
				hi := cut + b
				if hi > n || hi < 0 {
					hi = n
				}
				if !check(fmt.Sprintf("%s.skip(%d).take(%d)", c.Base, k, b), e.items[cut:hi], "skip(a).take(b) is not the window [a, a+b)") {
					return
				}
			}
			if !check(fmt.Sprintf("%s.take(%d).skip(%d)", c.Base, 2147483647, k), e.items[cut:], "take(max).skip(a) is not the tail from a") {
				return
			}
		}
		nontrivial = n >= 2 && k > 0 && k < n
	case "distinct":
		if ambiguousEq {
			ctx.Count("numbers_and_quantities_mixed(not asserted)")
			nontrivial = false
			return
		}
		src := c.Base + ".distinct()"
		out := e.eval(src)
		if out.failed() {
			e.fail("distinct() fails", src, out, "a collection")
			return
		}
		if !noNil(src, out) {
			return
		}
		cmps := make([]cmpVal, n)
		for i, it := range e.items {
			cmps[i] = itemCmp(it)
		}
		res := make([]cmpVal, len(out.Coll))
		for i, it := range out.Coll {
			res[i] = itemCmp(it)
			found := false
			for _, in := range e.items {
				if sameItem(it, in) {
					found = true
				}
			}
			if !found {
				e.fail("distinct() yields an item that is not an item of c", src, out, "items of c only")
				return
			}
		}
		for i := range res {
			for j := i + 1; j < len(res); j++ {
				if itemEqual(res[i], res[j]) {
					e.fail("distinct() keeps two equal items", src, out, "one representative per class")
					return
				}
			}
		}
		dup := false
		for i, ci := range cmps {
			rep := false
			for _, r := range res {
				if itemEqual(ci, r) || (ci.fam != "complex" && sameItem(e.items[i], out.Coll[0]) && false) {
					rep = true
				}
			}
			// an item equal to nothing (not even itself, e.g. incomparable) must still be kept
			if !rep {
				for _, it := range out.Coll {
					if sameItem(it, e.items[i]) {
						rep = true
					}
				}
			}
			if !rep {
				e.fail("distinct() drops a class of items", src, out, "a representative of "+renderItem(e.items[i]))
				return
			}
			for j := 0; j < i; j++ {
				if itemEqual(ci, cmps[j]) {
					dup = true
				}
			}
		}
		isd := e.eval(c.Base + ".isDistinct()")
		cnt := e.eval(c.Base + ".count() = " + c.Base + ".distinct().count()")
		if isd.failed() || renderColl(isd.Coll) != renderColl(cnt.Coll) {
			e.fail("isDistinct() differs from count() = distinct().count()", c.Base+".isDistinct()", isd, cnt.String())
			return
		}
		if renderColl(isd.Coll) != fmt.Sprintf("[Boolean:%v]", !dup) {
			// items that are not equal to themselves (incomparable) make the model's notion of duplicate weaker
			selfUnequal := false
			for _, ci := range cmps {
				if !itemEqual(ci, ci) {
					selfUnequal = true
				}
			}
			if !selfUnequal {
				e.fail("isDistinct() is wrong", c.Base+".isDistinct()", isd, fmt.Sprint(!dup))
			}
		}
		nontrivial = n >= 2 && dup
	case "exclude", "intersect":
		if ambiguousEq {
			ctx.Count("numbers_and_quantities_mixed(not asserted)")
			nontrivial = false
			return
		}
		if n == 0 {
			nontrivial = false
		}
		cmps := make([]cmpVal, n)
		for i, it := range e.items {
			cmps[i] = itemCmp(it)
		}
		dcmps := make([]cmpVal, len(e.dItems))
		for i, it := range e.dItems {
			dcmps[i] = itemCmp(it)
		}
		inD := func(c cmpVal) bool {
			for _, d := range dcmps {
				if itemEqual(c, d) {
					return true
				}
			}
			return false
		}
		overlap, outside := 0, 0
		for _, ci := range cmps {
			if inD(ci) {
				overlap++
			} else {
				outside++
			}
		}
		nontrivial = n >= 2 && overlap > 0 && outside > 0
		// the argument cut from the receiver itself (a view of the same collection): d = the
		// first k / all but the first k items of c
		if n >= 2 {
			for _, k := range []int{1, n / 2, n - 1} {
				for _, cut := range []string{"take", "skip"} {
					lo, hi := 0, k
					if cut == "skip" {
						lo, hi = k, n
					}
					inCut := func(ci cmpVal) bool {
						for j := lo; j < hi; j++ {
							if itemEqual(ci, cmps[j]) {
								return true
							}
						}
						return false
					}
					var wantEx []any
					for i, ci := range cmps {
						if !inCut(ci) {
							wantEx = append(wantEx, e.items[i])
						}
					}
					args := []string{fmt.Sprintf("%s(%d)", cut, k)}
					if strings.HasPrefix(c.Base, "%") && !strings.ContainsAny(c.Base, ".( ") {
						args = append(args, fmt.Sprintf("%s.%s(%d)", c.Base, cut, k)) // a variable means the same collection everywhere
					}
					for _, arg := range args {
						src := c.Base + ".exclude(" + arg + ")"
						if out := e.eval(src); out.failed() || !sameList(out.Coll, wantEx) {
							e.fail("exclude(d) with d cut from the receiver itself is not 'the items of c equal to no item of d'", src, out, renderItems(wantEx))
							return
						}
						src = c.Base + ".intersect(" + arg + ")"
						out := e.eval(src)
						if out.failed() {
							e.fail("intersect(d) fails", src, out, "a collection")
							return
						}
						for i, ci := range cmps {
							got := false
							for _, it := range out.Coll {
								if itemEqual(ci, itemCmp(it)) {
									got = true
								}
							}
							if got != inCut(ci) {
								e.fail("intersect(d) with d cut from the receiver itself is not the set of common items", src, out, fmt.Sprintf("item %d (%s) present: %v", i, renderItem(e.items[i]), inCut(ci)))
								return
							}
						}
					}
				}
			}
			ctx.Count("set_functions_with_argument_cut_from_receiver")
		}
		if c.Fn == "exclude" {
			src := c.Base + ".exclude(%d)"
			out := e.eval(src)
			var want []any
			for i, ci := range cmps {
				if !inD(ci) {
					want = append(want, e.items[i])
				}
			}
			if out.failed() || !sameList(out.Coll, want) {
				// defect model of the pinned behaviour: model result ⧺ (items of d equal to no item of c)
				var extra []any
				for i, d := range dcmps {
					in := false
					for _, ci := range cmps {
						if itemEqual(ci, d) {
							in = true
						}
					}
					if !in {
						extra = append(extra, e.dItems[i])
					}
				}
				tag := ""
				if !out.failed() && len(extra) > 0 && sameList(out.Coll, append(append([]any{}, want...), extra...)) {
					tag = " (= correct result ⧺ the items of the argument that are not in the input: symmetric difference)"
				}
				e.fail("exclude(d) is not 'the items of c equal to no item of d, order and duplicates preserved'"+tag, src, out, renderItems(want))
				return
			}
			noNil(src, out)
			return
		}
		src := c.Base + ".intersect(%d)"
		out := e.eval(src)
		if out.failed() {
			e.fail("intersect(d) fails", src, out, "a collection")
			return
		}
		if !noNil(src, out) {
			return
		}
		res := make([]cmpVal, len(out.Coll))
		for i, it := range out.Coll {
			res[i] = itemCmp(it)
			inC := false
			for _, ci := range cmps {
				if itemEqual(ci, res[i]) {
					inC = true
				}
			}
			if !inC || !inD(res[i]) {
				e.fail("intersect(d) yields an item that is not in both collections", src, out, "items equal to an item of c and an item of d")
				return
			}
			for j := 0; j < i; j++ {
				if itemEqual(res[i], res[j]) {
					e.fail("intersect(d) keeps duplicates", src, out, "a duplicate-free set")
					return
				}
			}
		}
		for i, ci := range cmps {
			if !inD(ci) {
				continue
			}
			rep := false
			for _, r := range res {
				if itemEqual(ci, r) {
					rep = true
				}
			}
			if !rep {
				e.fail("intersect(d) drops a common item", src, out, "a representative of "+renderItem(e.items[i]))
				return
			}
		}
	}
}

func TestC10(t *testing.T) {
	r := newRec("C10",
		"a case is (base collection c, function, criterion / n / other collection d): c comes from a variable holding 0..8 pool items (Integers/Decimals equal across types, strings, dates of mixed precision, Booleans, quantities, FHIR primitive elements, complex elements; duplicates by construction), from a path on the fixture Patient, or from a path / children() / descendants() / extension on a generated resource of any R4 type; criteria have a harness-side truth function ($this > 1, $this.length() <= 1, $this is System.Integer, family.exists(), use = 'official', id.exists(), constants true/false/{}/1); n ∈ [-3, 11] ∪ boundary int32; d = subset of c ∪ fresh items ∪ cross-type equals.  The item list is c's own evaluation result; oracles: list model (pointer identity for elements) + the metamorphic equalities of the statement evaluated by the library.  non-trivial = count(c) ≥ 2 and (the criterion is true for a proper non-empty subset, or n strictly inside (0,count), or c and d overlap partially, or c has duplicates); distinct = FNV-64 of the case",
		"equality classes for distinct/exclude/intersect follow M-CMP (C05) for System values and proto.Equal for complex elements", "criteria that are not applicable to some item of c (wrong type) are executed but only exists(p) ≡ where(p).exists() is asserted")
	runProperty(t, r, Stage[c10Case]{Name: "algebra", Gen: c10Gen, Run: c10Run, N: pick(30000, 250000)})
}
