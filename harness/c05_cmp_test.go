package zzverif

// C05 — equality and ordering operators form one consistent partial order.
// Oracle: a reference comparison model (M-CMP) on the type pairs the statement
// covers, and the relational laws on every pair.

import (
	"regexp"
	"fmt"
	"github.com/verily-src/fhirpath-go/fhirpath/system"
	"strconv"
	"strings"
	"testing"
	"time"

	"google.golang.org/protobuf/proto"
)

type c05Case struct {
	Kind string `json:"kind"` // pair | triple | coll
	A    Val    `json:"a"`
	B    Val    `json:"b"`
	C    Val    `json:"c"`
	LitA bool   `json:"lita"`
	LitB bool   `json:"litb"`
	CA   []Val  `json:"ca,omitempty"` // collection operands
	CB   []Val  `json:"cb,omitempty"`
	// Alias: the second collection is a prefix view of the first one's backing array
	// (what take(n) returns): equality is by value and length, not by storage
	Alias bool `json:"alias,omitempty"`
}

var c05Pool = func() []Val {
	var out []Val
	out = append(out, poolAll...)
	// more temporal combinations: every precision × offset forms
	for _, d := range []string{"2020-02-29", "2020-03-01"} {
		for _, t := range []string{"T10", "T10:30", "T10:30:00", "T10:30:00.0", "T10:30:00.000", "T10:30:00.250"} {
			for _, o := range []string{"", "Z", "+05:30", "-05:00", "+14:00"} {
				v := dtV(d + t + o)
				if _, err := v.build(); err == nil {
					out = append(out, v)
				}
			}
		}
	}
	out = append(out, dtV("2020-02-29T04:30Z"), dtV("2020-02-29T04Z"), dtV("2020-02-29T05Z"), dtV("2020-02-29T15:30:00+05:00"), dtV("2020-02-28T20:30:00-14:00"))
	out = append(out, timeV("10:30:00.25"), timeV("10:30:00.250"), timeV("10:30:01"), timeV("09"), timeV("10:29"))
	out = append(out, iv(3), dv("3.0"), dv("3.00"), dv("2.99999999999999999999"), sv("b"), sv("B"), sv("ab"), sv("é"), sv("z"), sv("日"), qv("1000", "mg"), qv("1", "g"), qv("2", "days"), qv("2", "day"), qv("1", "Mg"), qv("2", "MG"))
	seen := map[string]bool{}
	var uniq []Val
	for _, v := range out {
		k := v.String()
		if !seen[k] {
			seen[k] = true
			uniq = append(uniq, v)
		}
	}
	return uniq
}()

// ---------------------------------------------------------------------------

func c05Operand(v Val, asLit bool, name string, vars map[string]any) string {
	if asLit {
		if l, ok := c08Lit5(v); ok {
			return l
		}
	}
	vars[name] = v.mustBuild()
	return "%" + name
}

// c08Lit5 renders a literal, parenthesising negatives.
func c08Lit5(v Val) (string, bool) {
	if !v.isSystem() {
		return "", false
	}
	if strings.HasPrefix(v.S, "-") && (v.K == "Integer" || v.K == "Decimal" || v.K == "Quantity") {
		if v.S == "-2147483648" {
			return "", false
		}
		p := v
		p.S = v.S[1:]
		l, ok := p.lit()
		if !ok {
			return "", false
		}
		return "(-" + l + ")", true
	}
	return v.lit()
}

func c05Eval(op, l, r string, vars map[string]any) string {
	return c06Tri5(evalWith(l+" "+op+" "+r, nil, vars))
}

func c06Tri5(out evalOut) string {
	switch {
	case out.Panic != "":
		return "panic:" + out.Panic
	case out.CompileErr != nil:
		return "cerror"
	case out.Err != nil:
		return "err"
	case len(out.Coll) == 0:
		return "E"
	case len(out.Coll) == 1:
		switch renderItem(out.Coll[0]) {
		case "Boolean:true":
			return "T"
		case "Boolean:false":
			return "F"
		}
	}
	return "other"
}

func c05GenPair(s Src) c05Case {
	a := pickOne(s, c05Pool)
	b := pickOne(s, c05Pool)
	if s.Prob(70) { // mostly comparable kinds
		fa := c05Classify(a).fam
		for try := 0; try < 12 && c05Classify(b).fam != fa; try++ {
			b = pickOne(s, c05Pool)
		}
	}
	return c05Case{Kind: "pair", A: a, B: b, LitA: s.Bool(), LitB: s.Bool()}
}

func c05GenTriple(s Src) c05Case {
	a := pickOne(s, c05Pool)
	fa := c05Classify(a).fam
	pick := func() Val {
		b := pickOne(s, c05Pool)
		for try := 0; try < 20 && c05Classify(b).fam != fa; try++ {
			b = pickOne(s, c05Pool)
		}
		return b
	}
	return c05Case{Kind: "triple", A: a, B: pick(), C: pick()}
}

// c05GenNear: generated (not pooled) operands and a second operand derived from the first
// by a small, meaning-laden step: the same value in another spelling (scale, offset,
// Integer/Decimal), a neighbour one unit in the last place away, a coarser precision.
// c05ZeroRun: how many trailing zeros a spelling carries — mostly a few, sometimes more than
// a machine word of digits, sometimes beyond any fixed rescaling limit
func c05ZeroRun(s Src) int {
	switch s.Intn(10) {
	case 0:
		return s.Range(18, 40)
	case 1:
		return s.Range(300, 340)
	case 2, 3:
		return s.Range(990, 1700)
	}
	return s.Range(0, 12)
}

// c05Spelling: the number m·10^-k spelt with z further trailing zeros
func c05Spelling(m string, z int) Val {
	if !strings.Contains(m, ".") {
		if z == 0 {
			return iv64s(m)
		}
		return dv(m + "." + strings.Repeat("0", z))
	}
	return dv(m + strings.Repeat("0", z))
}

func iv64s(m string) Val {
	n, err := strconv.ParseInt(m, 10, 64)
	if err != nil || n > 2147483647 || n < -2147483648 {
		return dv(m + ".0")
	}
	return iv(n)
}

func c05GenNear(s Src) c05Case {
	if s.Prob(8) {
		// one number (or two a hair apart) in two spellings of very different scale
		m := pickOne(s, []string{"0", "0", "1", "-1", "0.5", "-0.0", "10", strconv.Itoa(s.Range(-1000, 1000)), strconv.FormatInt(int64(s.Int32()), 10), strconv.Itoa(s.Range(-3, 3)) + "." + s.Str(digits, 1, 6)})
		a, b := c05Spelling(m, c05ZeroRun(s)), c05Spelling(m, c05ZeroRun(s))
		if s.Prob(20) { // a hair larger in magnitude, far down
			z := strings.Repeat("0", c05ZeroRun(s)) + "1"
			if strings.Contains(m, ".") {
				b = dv(m + z)
			} else {
				b = dv(m + "." + z)
			}
		}
		c := c05Case{Kind: "pair", A: a, B: b, LitA: s.Bool(), LitB: s.Bool()}
		if s.Bool() {
			c.A, c.B = c.B, c.A
		}
		return c
	}
	a := c05GenVal(s)
	b := a
	switch a.K {
	case "Integer":
		n, _ := strconv.ParseInt(a.S, 10, 64)
		switch s.Intn(5) {
		case 0:
			b = dv(a.S + "." + strings.Repeat("0", s.Range(1, 20)))
		case 1:
			b = dv(a.S + "." + strings.Repeat("0", s.Range(0, 18)) + "1")
		case 2:
			if n < 2147483647 {
				b = iv(n + 1)
			}
		case 3:
			if n > -2147483648 {
				b = iv(n - 1)
			}
		case 4:
			b = c05GenVal(s)
		}
	case "Decimal":
		switch s.Intn(5) {
		case 0:
			b = dv(a.S + strings.Repeat("0", s.Range(1, 10))) // another scale
		case 1:
			b = dv(a.S + strings.Repeat("0", s.Range(0, 8)) + "1") // a hair larger in magnitude
		case 2:
			if i := strings.Index(a.S, "."); i > 0 && len(a.S)-i > 2 {
				b = dv(a.S[:len(a.S)-1]) // last digit dropped
			}
		case 3:
			if strings.HasPrefix(a.S, "-") {
				b = dv(a.S[1:])
			} else {
				b = dv("-" + a.S)
			}
		case 4:
			b = c05GenVal(s)
		}
	case "String":
		switch s.Intn(5) {
		case 0:
			b = sv(a.S + pickOne(s, []string{"a", " ", "\u0301", "é", "😀", "\x00"}))
		case 1:
			b = sv(strings.ToUpper(a.S))
		case 2:
			r := []rune(a.S)
			if len(r) > 0 {
				i := s.Intn(len(r))
				r[i] = pickOne(s, []rune{'a', 'Z', 'é', '日', '😀', 0xFFFD, 0xE000, 'z' + 1})
				b = sv(string(r))
			}
		case 3:
			r := []rune(a.S)
			if len(r) > 0 {
				b = sv(string(r[:len(r)-1]))
			}
		case 4:
			b = c05GenVal(s)
		}
	case "Date", "DateTime", "Time":
		b = c05NearTemporal(s, a)
	case "Quantity":
		switch s.Intn(4) {
		case 0:
			b = qv(a.S+".0", a.U)
		case 1:
			b = qv(a.S, pickOne(s, []string{"mg", "g", "kg", "1", "days", "day", "Mg", "MG", "Kg", strings.ToUpper(a.U), strings.ToLower(a.U)}))
		case 2:
			b = qv(a.S+".001", a.U)
		case 3:
			b = c05GenVal(s)
		}
	}
	if _, err := b.build(); err != nil {
		b = a
	}
	if s.Bool() {
		a, b = b, a
	}
	if s.Prob(25) {
		c := c05NearTemporalOrSame(s, b)
		return c05Case{Kind: "triple", A: a, B: b, C: c}
	}
	return c05Case{Kind: "pair", A: a, B: b, LitA: s.Bool(), LitB: s.Bool()}
}

func c05NearTemporalOrSame(s Src, v Val) Val {
	switch v.K {
	case "Date", "DateTime", "Time":
		return c05NearTemporal(s, v)
	case "Integer":
		if n, _ := strconv.ParseInt(v.S, 10, 64); n < 2147483647 {
			return iv(n + 1)
		}
	case "Decimal":
		return dv(v.S + "1")
	case "String":
		return sv(v.S + "a")
	}
	return v
}

// c05GenVal: a generated single System value.
func c05GenVal(s Src) Val {
	switch s.Intn(7) {
	case 0:
		return iv(int64(s.Int32()))
	case 1:
		ip := strconv.FormatInt(int64(s.Int32()), 10)
		if s.Bool() {
			ip = strconv.Itoa(s.Range(-3, 3))
		}
		return dv(ip + "." + s.Str(digits, 1, 18))
	case 2:
		return sv(s.Str([]string{"a", "b", "A", "B", " ", "z", "é", "日", "😀", "\u0301"}, 0, 5))
	case 3, 4:
		kind, text := c09GenStart(s)
		if kind == "DateTime" && strings.Contains(text, ":") && s.Prob(60) {
			// any offset of the FHIR range instead of the four of the C09 generator
			text = regexp.MustCompile(`(Z|[+-]\d\d:\d\d)$`).ReplaceAllString(text, "") + genOffset(s)
		}
		return Val{K: kind, S: text}
	case 5:
		return timeV(fmt.Sprintf("%02d:%02d:%02d.%03d", s.Intn(24), s.Intn(60), s.Intn(60), s.Intn(1000)))
	}
	return qv(strconv.Itoa(s.Range(-1000, 1000)), pickOne(s, []string{"mg", "kg", "1", "days", "year", "Mg", "m", "M"}))
}

// c05NearTemporal: the same instant at another offset, a neighbour one unit of the last
// component away, or a coarser precision of the same value.
func c05NearTemporal(s Src, a Val) Val {
	isTime := a.K == "Time"
	t, err := parseAnyTemporal(a.S, isTime)
	if err != nil {
		return a
	}
	render := func(t temporal) Val { return Val{K: a.K, S: renderTemporal(t, a.K)} }
	switch s.Intn(4) {
	case 0: // coarser precision
		if (isTime && t.prec > 3) || (!isTime && t.prec > 0) {
			c := t
			c.prec--
			if c.prec == 5 {
				c.frac = ""
			}
			if c.prec < 3 {
				c.hasOff, c.z, c.off = false, false, 0
			}
			return render(c)
		}
	case 1: // the same instant, another offset
		if a.K == "DateTime" && t.prec >= 3 && t.hasOff {
			var o temporal
			if parseTemporalOffset(&o, genOffset(s)) == nil {
				g := t.goTime().In(time.FixedZone("", o.off*60))
				c := t
				c.Y, c.M, c.D, c.h, c.m, c.s = g.Year(), int(g.Month()), g.Day(), g.Hour(), g.Minute(), g.Second()
				c.hasOff, c.z, c.off = true, false, o.off
				if c.Y >= 1 && c.Y <= 9999 && (t.prec >= 4 || o.off%60 == t.off%60) {
					return render(c)
				}
			}
		}
	case 2: // last component ±1 (no carry: stay inside the component's range)
		c := t
		d := pickOne(s, []int{1, -1})
		switch c.prec {
		case 0:
			c.Y += d
		case 1:
			c.M += d
		case 2:
			c.D += d
		case 3:
			c.h += d
		case 4:
			c.m += d
		default:
			c.s += d
		}
		if c.Y >= 1 && c.Y <= 9999 && c.M >= 1 && c.M <= 12 && c.D >= 1 && c.D <= 28 && c.h >= 0 && c.h <= 23 && c.m >= 0 && c.m <= 59 && c.s >= 0 && c.s <= 59 {
			return render(c)
		}
	}
	return c05GenValOfKind(s, a.K)
}

func c05GenValOfKind(s Src, k string) Val {
	for i := 0; i < 30; i++ {
		if v := c05GenVal(s); v.K == k {
			return v
		}
	}
	return Val{K: k, S: map[string]string{"Date": "2020-02-29", "DateTime": "2020-02-29T10:30:00Z", "Time": "10:30:00"}[k]}
}

func c05EnumPairs(yield func(c05Case)) {
	for _, a := range c05Pool {
		for _, b := range c05Pool {
			yield(c05Case{Kind: "pair", A: a, B: b})
		}
	}
}

func c05EnumQuickPairs(yield func(c05Case)) {
	// every pair within one family of a thinned pool (quick tier)
	for i, a := range c05Pool {
		fa := c05Classify(a).fam
		for j, b := range c05Pool {
			if c05Classify(b).fam == fa && (i+j)%3 == 0 {
				yield(c05Case{Kind: "pair", A: a, B: b})
			}
		}
	}
}

func c05RunPair(ctx *Ctx, c c05Case) {
	if c.Kind == "triple" {
		c05RunTriple(ctx, c)
		return
	}
	if c.Kind == "coll" {
		c05RunColl(ctx, c)
		return
	}
	vars := map[string]any{}
	l := c05Operand(c.A, c.LitA, "a", vars)
	r := c05Operand(c.B, c.LitB, "b", vars)
	ca, cb := c05Classify(c.A), c05Classify(c.B)
	res := map[string]string{}
	for _, op := range []string{"=", "!=", "<", "<=", ">", ">="} {
		res[op] = c05Eval(op, l, r, vars)
		res["r"+op] = c05Eval(op, r, l, vars)
	}
	famA, famB := ca.fam, cb.fam
	var classes []string
	classes = append(classes, "fam:"+famA+"×"+famB)
	if famA == famB && (famA == "temporal" || famA == "time") && len(ca.comp) != len(cb.comp) {
		classes = append(classes, "mixed-precision")
	}
	if famA == "num" && famB == "num" && (c.A.K == "Integer") != (c.B.K == "Integer") {
		classes = append(classes, "Integer×Decimal")
	}
	if famA == "qty" && famB == "qty" && ca.unit != cb.unit {
		classes = append(classes, "unit-mismatch")
	}
	if famA == "temporal" && famB == "temporal" && (strings.ContainsAny(c.A.S[4:], "+Z") || strings.Contains(c.A.S, "T") && strings.Count(c.A.S, "-") > 2) != (strings.ContainsAny(c.B.S[4:], "+Z") || strings.Contains(c.B.S, "T") && strings.Count(c.B.S, "-") > 2) {
		classes = append(classes, "mixed-offset")
	}
	ctx.Eval(c.A.String()+"|"+c.B.String()+fmt.Sprint(c.LitA, c.LitB), famA == famB && famA != "other", classes...)
	desc := fmt.Sprintf("a=%v (%s) b=%v (%s): %v", c.A, l, c.B, r, res)
	for k, v := range res {
		if strings.HasPrefix(v, "panic") {
			ctx.Fail(fmt.Sprintf("cmp %s×%s: %s panics", c.A.K, c.B.K, strings.TrimPrefix(k, "r")), desc+" "+v)
			return
		}
		if v == "cerror" {
			ctx.Fail("harness: comparison does not compile", desc)
			return
		}
	}
	pairTag := fmt.Sprintf("%s×%s", famA, famB)
	// model agreement on the covered pairs
	if eq, lt := c05Model(ca, cb); eq != "" {
		_, gt := c05Model(cb, ca)
		check := func(op, want string) bool {
			if want == "" || res[op] == want {
				return true
			}
			ctx.Fail(fmt.Sprintf("cmp model %s: `%s` want %s got %s%s", pairTag, op, want, res[op], c05Hint(c, ca, cb)), desc)
			return false
		}
		le, ge := "", ""
		if lt != "" {
			le, ge = neg3(gt), neg3(lt)
		}
		if !(check("=", eq) && check("!=", neg3(eq)) && check("<", lt) && check(">", gt) && check("<=", le) && check(">=", ge)) {
			return
		}
	}
	// relational laws on every pair, among non-error outcomes
	ok := func(xs ...string) bool {
		for _, x := range xs {
			if x == "err" || x == "other" {
				return false
			}
		}
		return true
	}
	law := func(name string, holds bool) bool {
		if !holds {
			ctx.Fail(fmt.Sprintf("cmp law %s broken for %s×%s", name, c.A.K, c.B.K), desc)
		}
		return holds
	}
	if ok(res["="], res["r="]) && !law("symmetry of =", res["="] == res["r="]) {
		return
	}
	if (res["="] == "err") != (res["r="] == "err") {
		law("symmetry of = (error on one side only)", false)
		return
	}
	if ok(res["="], res["!="]) && !law("!= is the negation of =", res["!="] == neg3(res["="])) {
		return
	}
	if ok(res["<"], res["r>"]) && !law("a<b iff b>a", res["<"] == res["r>"]) {
		return
	}
	if ok(res["<="], res["r>="]) && !law("a<=b iff b>=a", res["<="] == res["r>="]) {
		return
	}
	if ok(res["<="], res[">"]) && !law("a<=b iff not a>b", res["<="] == neg3(res[">"])) {
		return
	}
	if ok(res[">="], res["<"]) && !law("a>=b iff not a<b", res[">="] == neg3(res["<"])) {
		return
	}
	n := 0
	for _, op := range []string{"<", "=", ">"} {
		if res[op] == "T" {
			n++
		}
	}
	law("at most one of < = >", n <= 1)
}

// c05Hint names the known defect model when the observation matches it.
func c05Hint(c c05Case, a, b cmpVal) string {
	if a.fam == "temporal" && len(a.comp) == len(b.comp) && (len(a.comp) == 4) {
		return " (hour precision: compared by instant, not by UTC-normalised components)"
	}
	return ""
}

func c05RunTriple(ctx *Ctx, c c05Case) {
	vars := map[string]any{"a": c.A.mustBuild(), "b": c.B.mustBuild(), "c": c.C.mustBuild()}
	ab, bc, ac := c05Eval("<", "%a", "%b", vars), c05Eval("<", "%b", "%c", vars), c05Eval("<", "%a", "%c", vars)
	fa, fb, fc := c05Classify(c.A).fam, c05Classify(c.B).fam, c05Classify(c.C).fam
	same := fa == fb && fb == fc && fa != "other"
	ctx.Eval("t|"+c.A.String()+"|"+c.B.String()+"|"+c.C.String(), same && ab == "T" && bc == "T", "triple")
	if !same {
		ctx.Count("triples_across_families(not asserted)")
		return
	}
	if ab == "T" && bc == "T" && ac != "T" {
		ctx.Fail(fmt.Sprintf("cmp law transitivity of < broken for %s", c05Classify(c.A).fam), fmt.Sprintf("a=%v b=%v c=%v: a<b %s, b<c %s, a<c %s", c.A, c.B, c.C, ab, bc, ac))
	}
}

// --- collections -----------------------------------------------------------

func c05GenColl(s Src) c05Case {
	n := s.Range(1, 4)
	var ca, cb []Val
	for i := 0; i < n; i++ {
		var v Val
		if s.Prob(40) {
			v = pickOne(s, poolComplex)
		} else {
			v = genPoolVal(s)
		}
		ca = append(ca, v)
		cb = append(cb, v)
	}
	switch s.Intn(5) {
	case 0: // equal
	case 1, 2: // differ at one position
		i := s.Intn(n)
		if strings.HasPrefix(cb[i].K, "msg.") {
			cb[i] = pickOne(s, poolComplex)
		} else {
			cb[i] = genPoolVal(s)
		}
	case 3: // differ at the last position only
		if strings.HasPrefix(cb[n-1].K, "msg.") {
			cb[n-1] = pickOne(s, poolComplex)
		} else {
			cb[n-1] = genPoolVal(s)
		}
	case 4: // different length
		cb = cb[:n-1]
	}
	if s.Prob(15) {
		return c05Case{Kind: "coll", CA: ca, CB: ca[:s.Range(0, n)], Alias: true}
	}
	return c05Case{Kind: "coll", CA: ca, CB: cb}
}

func c05RunColl(ctx *Ctx, c c05Case) {
	ba, err1 := Coll{Items: c.CA}.build()
	bb, err2 := Coll{Items: c.CB}.build()
	if err1 != nil || err2 != nil {
		ctx.Fail("harness: cannot build collection", fmt.Sprint(err1, err2))
		return
	}
	if c.Alias {
		if ca, ok := ba.(system.Collection); ok && len(c.CB) <= len(ca) {
			bb = ca[:len(c.CB)]
		}
	}
	vars := map[string]any{"a": ba, "b": bb}
	eq, req, ne := c05Eval("=", "%a", "%b", vars), c05Eval("=", "%b", "%a", vars), c05Eval("!=", "%a", "%b", vars)
	if c.Alias && len(c.CB) > 0 {
		// the same comparison spelled inside the language
		if got := c05Eval("=", "%a", fmt.Sprintf("%%a.take(%d)", len(c.CB)), vars); got != eq {
			ctx.Fail("collection equality: `%a = %a.take(n)` differs from comparing with the same prefix held in another variable", fmt.Sprintf("a=%v n=%d: %s vs %s", c.CA, len(c.CB), got, eq))
			return
		}
	}
	// model: same length and every pair equal
	want := "T"
	hasComplex, diffAt := false, -1
	if len(c.CB) == 0 {
		want = "E"
	} else if len(c.CA) != len(c.CB) {
		want = "F"
	} else {
		for i := range c.CA {
			a, b := c.CA[i], c.CB[i]
			ac, bc := strings.HasPrefix(a.K, "msg."), strings.HasPrefix(b.K, "msg.")
			if ac || bc {
				hasComplex = true
				if ac != bc {
					want, diffAt = "F", i
					break
				}
				ma, mb := a.mustBuild().(proto.Message), b.mustBuild().(proto.Message)
				if !proto.Equal(ma, mb) {
					want, diffAt = "F", i
					break
				}
				continue
			}
			e, _ := c05Model(c05Classify(a), c05Classify(b))
			if e == "" {
				want = "" // a pair the statement does not cover: only symmetry is asserted
				break
			}
			if e == "F" {
				want, diffAt = "F", i
				break
			}
			if e == "E" {
				want = ""
				break
			}
		}
	}
	cls := []string{"coll"}
	if hasComplex {
		cls = append(cls, "coll:complex-elements")
	}
	if diffAt >= 1 {
		cls = append(cls, "coll:difference-at-index>=1")
	}
	ctx.Eval(fmt.Sprint(c.CA, c.CB), len(c.CA) >= 2 && len(c.CA) == len(c.CB), cls...)
	desc := fmt.Sprintf("a=%v b=%v: a=b %s, b=a %s, a!=b %s", c.CA, c.CB, eq, req, ne)
	for _, v := range []string{eq, req, ne} {
		if strings.HasPrefix(v, "panic") {
			ctx.Fail("cmp collections: panic", desc)
			return
		}
	}
	if eq != "err" && req != "err" && eq != req {
		ctx.Fail("cmp law symmetry of = broken for collections", desc)
		return
	}
	if want != "" && eq != want {
		tag := ""
		if want == "F" && eq == "T" && hasComplex && diffAt >= 1 {
			tag = " (returned after the first matching complex pair)"
		}
		ctx.Fail(fmt.Sprintf("cmp collections: = want %s got %s%s", want, eq, tag), desc)
		return
	}
	if want != "" && eq != "err" && ne != "err" && ne != neg3(eq) {
		ctx.Fail("cmp law != is the negation of = broken for collections", desc)
	}
}

func TestC05(t *testing.T) {
	r := newRec("C05",
		fmt.Sprintf("value pool of %d single items (every System type, every Date/DateTime/Time precision × {no offset, Z, +05:30, -05:00, +14:00}, 0..3 fraction digits, Integer/Decimal boundary and scale variants, quantities with equal/different/calendar units, FHIR primitive elements of every kind, complex elements); a pair case evaluates = != < <= > >= in both directions (12 evaluations), delivered as literals or variables; triples check transitivity; collection cases (length 1..4, equal / differing at one position / at the last position only / in length, with complex elements) check `=`/`!=`; thorough enumerates all ordered pairs of the pool; non-trivial = both operands of one comparable family (pairs), a<b and b<c both true (triples), equal-length collections of ≥ 2 items; distinct = FNV-64 of the operands and deliveries", len(c05Pool)),
		"the near stage also draws one number in two spellings whose scales differ by up to 1700 digits (and a hair apart far down); M-CMP is written from the statement: numbers by big.Rat, strings by code point, temporal values component-wise after UTC normalisation down to the shared precision (no offset = UTC; seconds and fractions one precision), quantities within one unit string", "model agreement is asserted only within one family (num, str, bool, Date/DateTime, Time, Quantity); across families only the relational laws, among non-error outcomes")
	stages := []stageRunner{}
	if thorough() {
		stages = append(stages, Stage[c05Case]{Name: "all-pairs", Enum: c05EnumPairs, Run: c05RunPair})
	} else {
		stages = append(stages, Stage[c05Case]{Name: "family-pairs", Enum: c05EnumQuickPairs, Run: c05RunPair})
	}
	stages = append(stages,
		Stage[c05Case]{Name: "pairs", Gen: c05GenPair, Run: c05RunPair, N: pick(9000, 60000)},
		Stage[c05Case]{Name: "triples", Gen: c05GenTriple, Run: c05RunPair, N: pick(9000, 100000)},
		Stage[c05Case]{Name: "collections", Gen: c05GenColl, Run: c05RunPair, N: pick(9000, 60000)},
		Stage[c05Case]{Name: "near", Gen: c05GenNear, Run: c05RunPair, N: pick(18000, 150000)},
	)
	runProperty(t, r, stages...)
}

// renderTemporal spells a temporal value at its precision (DateTime values below hour
// precision carry the trailing T of the literal syntax).
func renderTemporal(t temporal, kind string) string {
	var b strings.Builder
	if kind != "Time" {
		fmt.Fprintf(&b, "%04d", t.Y)
		if t.prec >= 1 {
			fmt.Fprintf(&b, "-%02d", t.M)
		}
		if t.prec >= 2 {
			fmt.Fprintf(&b, "-%02d", t.D)
		}
		if kind == "DateTime" {
			b.WriteString("T")
		}
	}
	if t.prec >= 3 {
		fmt.Fprintf(&b, "%02d", t.h)
	}
	if t.prec >= 4 {
		fmt.Fprintf(&b, ":%02d", t.m)
	}
	if t.prec >= 5 {
		fmt.Fprintf(&b, ":%02d", t.s)
	}
	if t.prec >= 6 && t.frac != "" {
		b.WriteString("." + t.frac)
	}
	if kind == "DateTime" && t.prec >= 3 && t.hasOff {
		b.WriteString(t.tzString())
	}
	return b.String()
}
