package zzverif

// C03 — evaluation never mutates its inputs (resources, environment values incl.
// the backing arrays of collections, the compiled expression), and FHIR elements
// in a result are the input's own nodes.

import (
	"fmt"
	opb "github.com/google/fhir/go/proto/google/fhir/proto/r4/core/resources/observation_go_proto"
	"reflect"
	"sort"
	"strings"
	"testing"
	"unsafe"

	dtpb "github.com/google/fhir/go/proto/google/fhir/proto/r4/core/datatypes_go_proto"
	"github.com/verily-src/fhirpath-go/fhirpath"
	"github.com/verily-src/fhirpath-go/fhirpath/evalopts"
	"github.com/verily-src/fhirpath-go/fhirpath/system"
	"github.com/verily-src/fhirpath-go/internal/fhir"
	"google.golang.org/protobuf/proto"
	"google.golang.org/protobuf/reflect/protoreflect"
)

type c03Case struct {
	Src   string   `json:"src"`
	Res   []string `json:"res,omitempty"` // generated resources (besides the fixture Patient)
	Spare int      `json:"spare"`         // spare capacity of the collection variables
	Empty bool     `json:"empty"`         // %e is an empty slice with capacity (else a nil slice)
	// Sloppy: the temporal primitives of the inputs lack precision and time zone, as in
	// hand-built protos (&dtpb.Date{ValueUs: …}); evaluation may fail but must not "repair" them
	Sloppy bool `json:"sloppy,omitempty"`
}

var c03Templates = []string{
	"%e & 'x'", "'x' & %e", "%e & %e", "%spare & 'x'", "%one & 'x'", "%one & %e",
	"%spare.where($this != 'b')", "%spare.where($this = 'a')", "%shared1.where($this = 's1')", "%names.where(use != 'official')", "%spare.exists($this = 'a')", "%spare.select($this.where($this = 'a'))", "%spare.exclude(%one)", "%spare.where($this != 'b').count() + %spare.count()", "%names.where(family.exists().not())",
	"%nested", "%nested.count()", "%nested.first()", "%nested.tail()", "%nested.where(true)", "%nested.select($this)", "%nested.distinct()", "%nested & 'x'", "%nested.exclude(%one)", "%spare.count() + 1",
	"%spare.tail()", "%spare.skip(1)", "%spare.take(2)", "%spare.first()", "%spare.where($this.exists())", "%spare.select($this)", "%spare.distinct()", "%spare.exclude(%shared1)", "%spare.intersect(%shared2)",
	"%shared1.exclude(%shared2)", "%shared1.where(true)", "%shared1 = %shared2", "%shared1.tail().tail()", "%shared1.select($this & 'y')", "%shared1.children()", "%names.descendants()", "%names.select(given)", "%names.where(use = 'official').given",
	"%names.first().given.tail()", "%pat.name.given", "%pat.children().descendants()", "%pat.extension('http://example.org/a').value", "%pat.managingOrganization.reference", "%pat.contained", "%name.given & 'x'", "%names.exclude(%pat.name)", "%names.intersect(%pat.name)",
	"Patient.name.tail().given", "Patient.name.where(family.exists()).select(given.first())", "Patient.deceased as boolean", "Patient.name[0] is HumanName", "Patient.telecom.rank.skip(1)", "Patient.children()", "Patient.descendants().where($this is string)", "Patient.extension.value", "Patient.name.given.distinct()", "Patient.name.given.toChars()",
	"Patient.name.given.intersect(%givens)", "%givens.intersect(Patient.name.given)", "Patient.name.given.exclude(%givens)", "%givens.exclude(Patient.name.given)", "%prims.distinct()", "%prims.isDistinct()", "%prims.intersect(%prims)", "%prims = %prims", "%prims.where($this = 1)", "%prims.select($this.toString())", "%givens.where($this = 'zz')", "%givens & 'x'", "%prims.exclude(%givens)", "Patient.name.use.intersect(%prims)", "%prims.first() + 1", "%givens.first().length()", "%prims.skip(5) < @2021", "%givens.all($this.exists())", "%prims.take(2).combine(%givens)",
	"Patient.birthDate = @1974-12-25", "Patient.birthDate < today()", "Patient.birthDate.toString()", "Patient.birthDate + 1 year", "Patient.descendants().where($this is date or $this is dateTime).select($this.toString())", "Patient.birthDate | Patient.deceased", "Patient.birthDate is date", "%pat.birthDate.toDateTime()", "Patient.descendants().select($this = $this)",
	"%names.select(%spare)", "%names.select(%spare.take(1))", "%names.select(%shared1)", "Patient.name.select(%spare.take(2))", "%names.select(%one)", "%names.select(%shared1.take(1))", "%spare.select(%one)", "%names.select(%givens.take(1))", "%names.select(%spare.skip(1))", "%names.select(%spare.tail())", "%context.select(%names.take(1))", "%names.select(%e | %one)", "%spare.where(true).select(%shared2)", "%names.select(iif(true, %spare.take(1)))",
	"%context.descendants().select($this = $this)", "%context.descendants().where($this is Reference).select($this = $this)", "%context.descendants().where($this is Reference).distinct()", "%context.children().select($this != $this)", "Observation.subject = Observation.performer", "Observation.subject != Observation.subject", "Observation.performer.distinct()", "Observation.performer.exclude(Observation.subject)", "Observation.subject.reference",
	"Patient.name.exclude(Patient.name.take(1))", "Patient.name.intersect(%names)", "iif(%e.exists(), %spare, %shared1)", "%spare.join(',')", "%strs2.join('-') & %e", "%spare.count() + %e.count()", "%spare.zzNoSuchFn()", "%spare.where($this > 'x')", "%names.family.upper() & %e",
}

func c03Gen(s Src) c03Case {
	c := c03Case{Spare: s.Range(1, 3), Empty: s.Bool(), Sloppy: s.Prob(20)}
	switch s.Intn(12) {
	case 10, 11:
		// systematic: every implemented table function applied to a caller-owned collection,
		// optionally narrowed by a subsetting function that returns a sub-slice of it
		vs := []string{"%spare", "%names", "%shared1", "%shared2", "%givens", "%prims", "%one", "%strs2"}
		subs := []string{"", "", ".take(1)", ".take(2)", ".skip(1)", ".tail()", ".first()", ".where(true)", ".take(1).tail()", ".skip(1).take(1)"}
		for try := 0; try < 20; try++ {
			f := pickOne(s, fnSpecs)
			if placeholderFuncs()[f.Name] || f.Spec == "STU" {
				continue
			}
			args := append([]string{}, f.Args...)
			if len(args) > f.Max {
				args = args[:f.Max]
			}
			n := f.Min
			if f.Max > f.Min && s.Bool() {
				n = f.Max
			}
			args = args[:n]
			for i := range args {
				if i < len(f.Kinds) && f.Kinds[i] == "coll" && s.Bool() {
					args[i] = pickOne(s, vs) + pickOne(s, subs)
				}
			}
			c.Src = pickOne(s, vs) + pickOne(s, subs) + "." + f.Name + "(" + strings.Join(args, ", ") + ")"
			break
		}
		if c.Src == "" {
			c.Src = pickOne(s, c03Templates)
		}
	case 0, 1, 2, 3:
		c.Src = pickOne(s, c03Templates)
	case 4:
		c.Src = pickOne(s, c03Templates) + pickOne(s, []string{".tail()", ".first()", ".where(true)", " & 'z'", ".select($this)", ".exists()", ".distinct()", ".skip(1).take(1)", ".children()"})
	default:
		p := genProgramOf(s, pickOne(s, []string{"C", "C", "E", "S", "B", "C"}), s.Range(1, 4), pickOne(s, []int{0, 10}))
		c.Src = p.min()
		// make the generated program use the aliasing variables
		for _, r := range [][2]string{{"%ints", "%spare"}, {"%strs", "%shared1"}, {"%none", "%e"}, {"%mixed", "%prims"}, {"%names", "%givens"}} {
			if s.Prob(60) {
				c.Src = strings.ReplaceAll(c.Src, r[0], r[1])
			}
		}
	}
	if s.Prob(40) {
		n := 1 + s.Intn(2)
		for i := 0; i < n; i++ {
			o := smallGen
			o.Contained = s.Prob(30)
			c.Res = append(c.Res, resToText(genAnyResource(s, o)))
		}
	}
	return c
}


// exprFingerprint renders the compiled expression structurally, reading unexported
// fields through reflection (no Interface() calls on them).
func exprFingerprint(e *fhirpath.Expression) string {
	var sb strings.Builder
	seen := map[uintptr]bool{}
	var walk func(v reflect.Value, depth int)
	walk = func(v reflect.Value, depth int) {
		if depth > 60 {
			sb.WriteString("…")
			return
		}
		switch v.Kind() {
		case reflect.Invalid:
			sb.WriteString("nil")
		case reflect.Ptr:
			if v.IsNil() {
				sb.WriteString("nil")
				return
			}
			p := v.Pointer()
			if seen[p] {
				fmt.Fprintf(&sb, "↑%x", p)
				return
			}
			seen[p] = true
			fmt.Fprintf(&sb, "&%x", p)
			walk(v.Elem(), depth+1)
		case reflect.Interface:
			if v.IsNil() {
				sb.WriteString("nil")
				return
			}
			sb.WriteString(v.Elem().Type().String() + ":")
			walk(v.Elem(), depth+1)
		case reflect.Struct:
			sb.WriteString(v.Type().String() + "{")
			for i := 0; i < v.NumField(); i++ {
				sb.WriteString(v.Type().Field(i).Name + "=")
				f := v.Field(i)
				if !f.CanInterface() && f.CanAddr() {
					f = reflect.NewAt(f.Type(), unsafe.Pointer(f.UnsafeAddr())).Elem()
				}
				walk(f, depth+1)
				sb.WriteString(";")
			}
			sb.WriteString("}")
		case reflect.Slice, reflect.Array:
			if v.Kind() == reflect.Slice {
				fmt.Fprintf(&sb, "[len=%d cap=%d ptr=%x:", v.Len(), v.Cap(), v.Pointer())
			} else {
				sb.WriteString("[")
			}
			for i := 0; i < v.Len(); i++ {
				walk(v.Index(i), depth+1)
				sb.WriteString(",")
			}
			sb.WriteString("]")
		case reflect.Map:
			keys := v.MapKeys()
			strs := make([]string, len(keys))
			for i, k := range keys {
				strs[i] = fmt.Sprint(k)
			}
			sort.Strings(strs)
			fmt.Fprintf(&sb, "map(%d)%v", v.Len(), strs)
		case reflect.Func:
			if v.IsNil() {
				sb.WriteString("func(nil)")
			} else {
				fmt.Fprintf(&sb, "func@%x", v.Pointer())
			}
		case reflect.String:
			fmt.Fprintf(&sb, "%q", v.String())
		case reflect.Bool:
			fmt.Fprint(&sb, v.Bool())
		case reflect.Int, reflect.Int8, reflect.Int16, reflect.Int32, reflect.Int64:
			fmt.Fprint(&sb, v.Int())
		case reflect.Uint, reflect.Uint8, reflect.Uint16, reflect.Uint32, reflect.Uint64, reflect.Uintptr:
			fmt.Fprint(&sb, v.Uint())
		case reflect.Float32, reflect.Float64:
			fmt.Fprint(&sb, v.Float())
		default:
			sb.WriteString(v.Kind().String())
		}
	}
	v := reflect.ValueOf(e).Elem()
	v = reflect.NewAt(v.Type(), unsafe.Pointer(v.UnsafeAddr())).Elem()
	walk(v, 0)
	return sb.String()
}

// --- the aliasing environment -----------------------------------------------------

type backing struct {
	name  string
	full  []any // the whole backing array, including the sentinels behind len
	items []string
}

func (b *backing) changed() string {
	for i, x := range b.full {
		if itemID(x) != b.items[i] {
			return fmt.Sprintf("slot %d of the backing array of %s changed: %s → %s", i, b.name, b.items[i], itemID(x))
		}
	}
	return ""
}

func newBacking(name string, full []any) *backing {
	b := &backing{name: name, full: full}
	for _, x := range full {
		b.items = append(b.items, itemID(x))
	}
	return b
}

// c03Sloppify clears precision and timezone of every Date/DateTime/Time/Instant below m.
func c03Sloppify(m protoreflect.Message, depth int) {
	if depth > 40 {
		return
	}
	switch m.Descriptor().FullName() {
	case "google.fhir.r4.core.Date", "google.fhir.r4.core.DateTime", "google.fhir.r4.core.Time", "google.fhir.r4.core.Instant":
		for _, n := range []protoreflect.Name{"precision", "timezone"} {
			if f := m.Descriptor().Fields().ByName(n); f != nil {
				m.Clear(f)
			}
		}
		return
	case "google.protobuf.Any":
		return
	}
	m.Range(func(fd protoreflect.FieldDescriptor, v protoreflect.Value) bool {
		if fd.Message() == nil {
			return true
		}
		if fd.IsList() {
			for i := 0; i < v.List().Len(); i++ {
				c03Sloppify(v.List().Get(i).Message(), depth+1)
			}
		} else if !fd.IsMap() {
			c03Sloppify(v.Message(), depth+1)
		}
		return true
	})
}

func c03Run(ctx *Ctx, c c03Case) {
	pat := fixturePatient()
	resources := []fhir.Resource{pat}
	noContained := true
	for _, t := range c.Res {
		if r, err := resFromText(t); err == nil {
			resources = append(resources, r.(fhir.Resource))
			if f := r.ProtoReflect().Descriptor().Fields().ByName("contained"); f != nil && r.ProtoReflect().Has(f) {
				noContained = false
			}
			if r.ProtoReflect().Descriptor().Name() == "Bundle" || r.ProtoReflect().Descriptor().Name() == "Parameters" {
				noContained = false
			}
		}
	}
	// a resource whose references are stored in uri form (relative, versioned, fragment, absolute)
	uriRef := func(u string) *dtpb.Reference {
		return &dtpb.Reference{Reference: &dtpb.Reference_Uri{Uri: &dtpb.String{Value: u}}}
	}
	resources = append(resources, &opb.Observation{
		Id:        &dtpb.Id{Value: "o1"},
		Subject:   uriRef("Patient/123"),
		Performer: []*dtpb.Reference{uriRef("Practitioner/7/_history/2"), uriRef("#p1"), uriRef("http://example.org/fhir/Patient/123"), uriRef("Patient/123")},
	})
	sentinel := func(i int) any { return system.String(fmt.Sprintf("SENTINEL-%d", i)) }
	var backs []*backing
	mk := func(name string, items []any, spare int) system.Collection {
		full := make([]any, 0, len(items)+spare)
		full = append(full, items...)
		for i := 0; i < spare; i++ {
			full = append(full, sentinel(i))
		}
		backs = append(backs, newBacking(name, full))
		return system.Collection(full[:len(items)])
	}
	vars := progVarsFor(pat)
	vars["spare"] = mk("%spare", []any{system.String("b"), system.String("a"), system.String("b")}, c.Spare)
	vars["one"] = mk("%one", []any{system.String("o")}, c.Spare)
	vars["strs2"] = mk("%strs2", []any{system.String("p"), system.String("q")}, c.Spare)
	if c.Empty {
		vars["e"] = mk("%e", nil, c.Spare)
	} else {
		vars["e"] = system.Collection(nil)
	}
	// two collections sharing one backing array: an append to the first overwrites the second
	shared := []any{system.String("s0"), system.String("s1"), pat.Name[0], system.String("s3"), sentinel(9)}
	backs = append(backs, newBacking("%shared1/%shared2", shared))
	vars["shared1"] = system.Collection(shared[0:2])
	vars["shared2"] = system.Collection(shared[2:4])
	vars["names"] = mk("%names", []any{pat.Name[0], pat.Name[1], pat.Name[2]}, c.Spare)
	// collections of FHIR primitive elements (the resource's own nodes and free-standing ones):
	// functions that convert their operands to System values must not write the converted
	// values back into the caller's collection
	vars["givens"] = mk("%givens", []any{pat.Name[0].Given[0], pat.Name[1].Given[0], &dtpb.String{Value: "zz"}}, c.Spare)
	vars["prims"] = mk("%prims", []any{&dtpb.String{Value: "a"}, &dtpb.Integer{Value: 1}, &dtpb.Boolean{Value: true}, &dtpb.Code{Value: "official"}, &dtpb.Decimal{Value: "1.0"}, pat.BirthDate}, c.Spare)

	// collections nested in a variable's collection (accepted by the option): the outer and the
	// inner backing arrays are the caller's
	inner1 := mk("%nested(inner 1)", []any{system.String("n1")}, c.Spare)
	inner0 := mk("%nested(empty inner)", nil, c.Spare)
	inner2 := mk("%nested(inner 2)", []any{system.Integer(7), pat.Name[0]}, c.Spare)
	vars["nested"] = mk("%nested", []any{system.String("n0"), inner1, system.String("n2"), inner0, inner2, system.String("n3")}, c.Spare)

	e, cerr, pan, _ := compileGuarded(c.Src)
	if pan != "" || cerr != nil || e == nil {
		ctx.Eval(c.Src, false, "outcome:compile-error")
		return
	}
	// reference strings are synthesised by the evaluator (documented exemption)
	synth := map[string]bool{}
	for _, r := range resources {
		if root, _, err := buildTree(r); err == nil {
			root.walk(func(n *Node) {
				if n.Synth {
					if s, ok := n.JSON.(string); ok {
						synth[s] = true
					}
				}
			})
		}
	}
	if c.Sloppy {
		for _, r := range resources {
			c03Sloppify(r.ProtoReflect(), 0)
		}
	}
	// snapshots
	var snaps []snap
	own := map[any]bool{}
	for _, r := range resources {
		snaps = append(snaps, snapshot(r))
		ownNodes(r.ProtoReflect(), own, 0)
	}
	// elements supplied through variables are inputs, too
	var addOwn func(v any)
	addOwn = func(v any) {
		switch x := v.(type) {
		case system.Collection:
			for _, it := range x {
				addOwn(it)
			}
		case proto.Message:
			if x != nil && x.ProtoReflect().IsValid() {
				ownNodes(x.ProtoReflect(), own, 0)
			}
		}
	}
	for _, k := range sortedKeys(vars) {
		addOwn(vars[k])
	}
	fpBefore := exprFingerprint(e)
	var eopts []fhirpath.EvaluateOption
	for _, k := range sortedKeys(vars) {
		eopts = append(eopts, evalopts.EnvVariable(k, vars[k]))
	}
	eopts = append(eopts, evalopts.OverrideTime(fixedNow))
	touches := strings.Contains(c.Src, "%") || strings.Contains(c.Src, "Patient")
	outcome := "value"
	for round := 0; round < 2; round++ {
		var coll system.Collection
		var err error
		g := guard(func() { coll, err = e.Evaluate(resources, eopts...) })
		if g.Panic != "" {
			outcome = "panic"
			ctx.Count("panics(C01)")
			break
		}
		if err != nil {
			outcome = "error"
		}
		// the resources
		for i, r := range resources {
			if why := snaps[i].changed(r); why != "" {
				ctx.Fail("mutation: an input resource changed: "+why, fmt.Sprintf("%s (evaluation %d) changed %T", c.Src, round+1, r))
				return
			}
		}
		// the backing arrays of the variables
		for _, b := range backs {
			if why := b.changed(); why != "" {
				ctx.Fail("mutation: the backing array of a collection variable changed", fmt.Sprintf("%s (evaluation %d): %s", c.Src, round+1, why))
				return
			}
		}
		// the compiled expression
		if fp := exprFingerprint(e); fp != fpBefore {
			ctx.Fail("mutation: the compiled expression changed", fmt.Sprintf("%s (evaluation %d)", c.Src, round+1))
			return
		}
		// own-node rule
		if err == nil && noContained {
			for _, it := range coll {
				m, ok := it.(proto.Message)
				if !ok || own[any(m)] {
					continue
				}
				if s, isStr := m.(*dtpb.String); isStr && synth[s.GetValue()] {
					ctx.Count("synthesised_reference_strings(exempt)")
					continue
				}
				ctx.Fail("own-node rule: a FHIR element in the result is not one of the input's own nodes", fmt.Sprintf("%s → %s (a %T that is not reachable in any input)", c.Src, clip(renderItem(m), 200), m))
				return
			}
		}
	}
	ctx.Eval(c.Src+fmt.Sprint(c.Spare, c.Empty, len(c.Res)), touches && outcome != "panic", "outcome:"+outcome)
}

func TestC03(t *testing.T) {
	r := newRec("C03",
		"a case is one program (a template that feeds aliasing collections to & / tail / skip / take / select / where / exclude / intersect / distinct / children / descendants / extension / as, a template with one more step appended, or a generated program whose variables are replaced by the aliasing ones) evaluated twice on the fixture Patient (+ 0..2 generated resources) with environment variables that alias the Patient and its sub-elements, collections built with 1..3 slots of spare capacity pre-filled with sentinels, an empty collection with spare capacity, and two collections that are adjacent sub-slices of one backing array; oracle: before/after comparison of deterministic serialisation, presence bits and proto.Equal of every resource, every slot of every backing array up to its capacity, a reflective fingerprint of the compiled expression, and the own-node rule (result elements are pointer-identical to nodes of the inputs; synthesised reference strings exempt; skipped when an input has contained resources); non-trivial = the program compiled, did not panic and refers to a variable or the resource; distinct = FNV-64 of (source, capacity, resources)",
		"memory the harness cannot reach (unexported caches inside third-party messages) is seen only through serialisation")
	runProperty(t, r, Stage[c03Case]{Name: "programs", Gen: c03Gen, Run: c03Run, N: pick(5000, 120000)})
}
