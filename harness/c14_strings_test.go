package zzverif

// C14 — string functions operate on characters and are mutually consistent.
// Oracle: a reference model over []rune, plus the metamorphic programs of the
// statement evaluated by the library.

import (
	dtpb "github.com/google/fhir/go/proto/google/fhir/proto/r4/core/datatypes_go_proto"
	"fmt"
	"strconv"
	"strings"
	"testing"
	"unicode"
	"unicode/utf8"

	"github.com/verily-src/fhirpath-go/fhirpath/system"
	"github.com/verily-src/fhirpath-go/internal/fhir"
	"google.golang.org/protobuf/proto"
	"google.golang.org/protobuf/reflect/protoreflect"
)

type c14Case struct {
	Fn    string `json:"fn"` // length substring1 substring2 indexOf toChars startsWith endsWith contains replace upper lower law-chars law-split law-index law-contains
	S     string `json:"s"`
	T     string `json:"t,omitempty"` // pattern
	R     string `json:"r,omitempty"` // replacement
	Start int    `json:"start"`
	Len   int    `json:"len"`
	Recv  string `json:"recv"`  // lit | fhir.string | fhir.code | fhir.markdown | fhir.uri | var
	ArgsV bool   `json:"argsv"` // deliver arguments through variables
	// Lang: evaluated on a Patient whose Resource.language is this tag ("" = no input resource):
	// string functions do not depend on anything but their operands, whatever locale the data declares
	Lang string `json:"lang,omitempty"`
	// Prev: the receiver element held this other text when the same program was evaluated on it a
	// moment ago (the caller edits its element in place between two evaluations): the answer is
	// about the characters the element holds now
	Prev    string `json:"prev,omitempty"`
	HasPrev bool   `json:"has_prev,omitempty"`
}

var c14Langs = []string{"en", "en-US", "tr", "tr-TR", "az", "az-Latn", "lt", "el", "de", "nl", "ja"}

func c14Input(c c14Case) []fhir.Resource {
	if c.Lang == "" {
		return nil
	}
	p := fixturePatient()
	p.Language = &dtpb.Code{Value: c.Lang}
	return []fhir.Resource{p}
}

var c14Alphabet = []string{"a", "b", "Z", " ", "é", "€", "😀", "́", "ß", "İ", "'", "\\", "x", "i", "I", "ı",
	// characters with a case mapping outside the Lu/Ll categories (title case, letter numbers,
	// enclosed letters), and the characters a regexp/template engine treats specially
	"ǅ", "Ⅷ", "Ⓐ", "ᾈ", "\uFFFD", "$", "1", "{", "}", ".", "*", "(", "[", "^", "+", "?", "|"}
var c14Small = []string{"a", "b", "é", "€", "😀"}

// c14LenChanging: every rune whose simple upper- or lower-case form has another UTF-8 length
// (computed from the Unicode tables, e.g. ı→I, ſ→S, ɐ→Ɐ, Ⱥ→ⱥ, K→k)
var c14LenChanging = func() []rune {
	var out []rune
	for r := rune(0x80); r <= unicode.MaxRune; r++ {
		if !utf8.ValidRune(r) {
			continue
		}
		if utf8.RuneLen(unicode.ToUpper(r)) != utf8.RuneLen(r) || utf8.RuneLen(unicode.ToLower(r)) != utf8.RuneLen(r) {
			out = append(out, r)
		}
	}
	return out
}()

// c14Rune: one character — mostly from the small alphabet (so that patterns recur), otherwise
// any graphic, non-space rune of Unicode, drawn per UTF-8 shape (2 bytes; 3 bytes with lead
// byte E0; other 3 bytes; 4 bytes) or from the runes whose case mapping changes the length
func c14Rune(s Src) string {
	if !s.Prob(22) {
		return pickOne(s, c14Alphabet)
	}
	return c14RandRune(s)
}

func c14RandRune(s Src) string {
	for try := 0; try < 20; try++ {
		var r rune
		switch s.Intn(5) {
		case 0:
			r = rune(s.Range(0x80, 0x7FF))
		case 1:
			r = rune(s.Range(0x800, 0xFFF))
		case 2:
			r = rune(s.Range(0x1000, 0xFFFF))
		case 3:
			r = rune(s.Range(0x10000, 0x10FFFF))
		default:
			r = pickOne(s, c14LenChanging)
		}
		if utf8.ValidRune(r) && unicode.IsGraphic(r) && !unicode.IsSpace(r) {
			return string(r)
		}
	}
	return "é"
}

func c14GenStr(s Src, lo, hi int) string {
	n := s.Range(lo, hi)
	var sb strings.Builder
	for i := 0; i < n; i++ {
		sb.WriteString(c14Rune(s))
	}
	return sb.String()
}

func c14Gen(s Src) c14Case {
	c := c14Case{S: c14GenStr(s, 0, 12), Recv: pickOne(s, []string{"lit", "lit", "var", "fhir.string", "fhir.code", "fhir.markdown", "fhir.uri", "fhir.id", "fhir.url", "fhir.canonical", "fhir.uuid", "fhir.oid"}), ArgsV: s.Prob(40)}
	if s.Prob(30) {
		c.Lang = pickOne(s, c14Langs)
	}
	if strings.HasPrefix(c.Recv, "fhir.") && s.Prob(35) {
		c.HasPrev, c.Prev = true, c14GenStr(s, 0, 12)
	}
	c.Fn = pickOne(s, []string{"length", "substring1", "substring2", "substring2", "indexOf", "indexOf", "toChars", "startsWith", "endsWith", "contains", "replace", "upper", "lower", "law-chars", "law-split", "law-index", "law-contains"})
	n := utf8.RuneCountInString(c.S)
	c.Start = s.Range(-2, n+2)
	c.Len = s.Range(-1, n+2)
	if s.Prob(8) {
		c.Start = pickOne(s, []int{-2147483648, 2147483647, 2147483646, -2147483647})
	}
	if s.Prob(8) {
		c.Len = pickOne(s, []int{2147483647, 2147483646, -2147483648})
	}
	// pattern: a rune-aligned substring, a near miss, the empty string or anything
	rs := []rune(c.S)
	switch s.Intn(6) {
	case 0:
		c.T = ""
	case 1, 2, 3:
		if n > 0 {
			i := s.Intn(n)
			j := i + 1 + s.Intn(n-i)
			c.T = string(rs[i:j])
			if s.Prob(30) { // near miss
				c.T += c14Rune(s)
			}
		}
	default:
		c.T = c14GenStr(s, 0, 3)
	}
	c.R = c14GenStr(s, 0, 3)
	return c
}

func c14Enum(yield func(c14Case)) {
	var strs []string
	var rec func(prefix string, n int)
	rec = func(prefix string, n int) {
		strs = append(strs, prefix)
		if n == 0 {
			return
		}
		for _, a := range c14Small {
			rec(prefix+a, n-1)
		}
	}
	rec("", pick(3, 5))
	for _, s := range strs {
		n := utf8.RuneCountInString(s)
		yield(c14Case{Fn: "length", S: s, Recv: "lit"})
		yield(c14Case{Fn: "toChars", S: s, Recv: "lit"})
		yield(c14Case{Fn: "law-chars", S: s, Recv: "lit"})
		for st := -1; st <= n+1; st++ {
			yield(c14Case{Fn: "substring1", S: s, Start: st, Recv: "lit"})
			for l := 0; l <= n+1; l++ {
				yield(c14Case{Fn: "substring2", S: s, Start: st, Len: l, Recv: "lit"})
			}
			yield(c14Case{Fn: "law-split", S: s, Start: st, Recv: "lit"})
		}
		rs := []rune(s)
		for i := 0; i <= n; i++ {
			for j := i; j <= n && j <= i+2; j++ {
				t := string(rs[i:j])
				for _, fn := range []string{"indexOf", "startsWith", "endsWith", "contains", "law-index", "law-contains"} {
					yield(c14Case{Fn: fn, S: s, T: t, Recv: "lit"})
				}
			}
		}
	}
}

// model ---------------------------------------------------------------------

func runeIndex(s, t []rune) int {
	for i := 0; i+len(t) <= len(s); i++ {
		ok := true
		for j := range t {
			if s[i+j] != t[j] {
				ok = false
				break
			}
		}
		if ok {
			return i
		}
	}
	return -1
}

func c14Source(c c14Case) (string, map[string]any, string) {
	vars := map[string]any{}
	recv := quoteFP(c.S)
	switch c.Recv {
	case "var":
		vars["s"] = system.String(c.S)
		recv = "%s"
	case "fhir.string", "fhir.code", "fhir.markdown", "fhir.uri", "fhir.id", "fhir.url", "fhir.canonical", "fhir.uuid", "fhir.oid":
		vars["s"] = Val{K: c.Recv, S: c.S}.mustBuild()
		recv = "%s"
	}
	intArg := func(name string, n int) string {
		if c.ArgsV {
			vars[name] = system.Integer(n)
			return "%" + name
		}
		if n < 0 {
			if n == -2147483648 {
				vars[name] = system.Integer(n)
				return "%" + name
			}
			return fmt.Sprintf("-%d", -n)
		}
		return fmt.Sprint(n)
	}
	strArg := func(name, v string) string {
		if c.ArgsV {
			vars[name] = system.String(v)
			return "%" + name
		}
		return quoteFP(v)
	}
	var src string
	switch c.Fn {
	case "length", "toChars", "upper", "lower":
		src = recv + "." + c.Fn + "()"
	case "substring1":
		src = recv + ".substring(" + intArg("a", c.Start) + ")"
	case "substring2":
		src = recv + ".substring(" + intArg("a", c.Start) + ", " + intArg("b", c.Len) + ")"
	case "indexOf", "startsWith", "endsWith", "contains":
		src = recv + "." + c.Fn + "(" + strArg("t", c.T) + ")"
	case "replace":
		src = recv + ".replace(" + strArg("t", c.T) + ", " + strArg("r", c.R) + ")"
	case "law-chars":
		src = recv + ".toChars().count() = " + recv + ".length()"
	case "law-split":
		k := intArg("a", c.Start)
		src = recv + ".substring(0, " + k + ") & " + recv + ".substring(" + k + ") = " + recv
	case "law-index":
		t := strArg("t", c.T)
		src = recv + ".substring(" + recv + ".indexOf(" + t + ")).startsWith(" + t + ")"
	case "law-contains":
		t := strArg("t", c.T)
		src = recv + ".contains(" + t + ") = (" + recv + ".indexOf(" + t + ") >= 0)"
	}
	return src, vars, recv
}

func c14Run(ctx *Ctx, c c14Case) {
	src, vars, _ := c14Source(c)
	if el, ok := vars["s"].(proto.Message); ok && c.HasPrev {
		// the same element object, first holding Prev, then S
		fd := el.ProtoReflect().Descriptor().Fields().ByName("value")
		el.ProtoReflect().Set(fd, protoreflect.ValueOfString(c.Prev))
		evalWith(src, c14Input(c), vars)
		el.ProtoReflect().Set(fd, protoreflect.ValueOfString(c.S))
	}
	out := evalWith(src, c14Input(c), vars)
	rs, rt := []rune(c.S), []rune(c.T)
	n := len(rs)
	multibyte := len(c.S) != n
	// non-trivial: bytes ≠ characters before the position/pattern, or the position is out of range
	nontrivial := false
	switch c.Fn {
	case "substring1", "substring2", "law-split":
		nontrivial = c.Start < 0 || c.Start >= n || (multibyte && c.Start > 0 && len(string(rs[:min(c.Start, n)])) != min(c.Start, n))
	case "indexOf", "law-index":
		i := runeIndex(rs, rt)
		nontrivial = i > 0 && len(string(rs[:i])) != i
	default:
		nontrivial = multibyte
	}
	ctx.Eval(src+"|"+c.S+"|"+c.T+"|"+c.R+"|"+c.Lang+"|"+c.Prev, nontrivial, "fn:"+c.Fn, "recv:"+c.Recv, "input-language:"+c.Lang, fmt.Sprintf("element-edited-in-place:%v", c.HasPrev && c.Prev != c.S))
	fail := func(what, want string) {
		ctx.Fail(fmt.Sprintf("strings %s: %s", strings.TrimRight(c.Fn, "12"), what), fmt.Sprintf("%s with s=%q t=%q r=%q start=%d len=%d: want %s, got %s", src, c.S, c.T, c.R, c.Start, c.Len, want, out))
	}
	if out.Panic != "" {
		fail("panic@"+out.Panic, "no panic")
		return
	}
	if out.CompileErr != nil {
		ctx.Fail("harness: program does not compile", src+": "+out.CompileErr.Error())
		return
	}
	// every returned string is valid UTF-8
	if out.Err == nil {
		for _, it := range out.Coll {
			if s, ok := it.(system.String); ok && !utf8.ValidString(string(s)) {
				fail("result is not valid UTF-8", "valid UTF-8")
				return
			}
		}
	}
	wantStr := func(w string) {
		if out.Err != nil || len(out.Coll) != 1 || renderItem(out.Coll[0]) != renderItem(system.String(w)) {
			fail("wrong string", fmt.Sprintf("%q", w))
		}
	}
	wantInt := func(w int) {
		if out.Err != nil || len(out.Coll) != 1 || renderItem(out.Coll[0]) != fmt.Sprintf("Integer:%d", w) {
			tag := "wrong number"
			if out.Err == nil && len(out.Coll) == 1 {
				// defect model: byte-based
				if c.Fn == "length" && renderItem(out.Coll[0]) == fmt.Sprintf("Integer:%d", len(c.S)) {
					tag += " (=byte length)"
				}
				if c.Fn == "indexOf" && renderItem(out.Coll[0]) == fmt.Sprintf("Integer:%d", strings.Index(c.S, c.T)) {
					tag += " (=byte offset)"
				}
			}
			fail(tag, fmt.Sprint(w))
		}
	}
	wantBool := func(w bool) {
		if out.Err != nil || len(out.Coll) != 1 || renderItem(out.Coll[0]) != fmt.Sprintf("Boolean:%v", w) {
			fail("wrong truth value", fmt.Sprint(w))
		}
	}
	wantEmpty := func() {
		if out.Err != nil || len(out.Coll) != 0 {
			fail("want empty for an out-of-range position", "empty")
		}
	}
	switch c.Fn {
	case "length":
		wantInt(n)
	case "toChars":
		if out.Err != nil || len(out.Coll) != n {
			fail("wrong number of characters", fmt.Sprint(n))
			return
		}
		for i, r := range rs {
			if renderItem(out.Coll[i]) != renderItem(system.String(string(r))) {
				fail("wrong character", string(r))
				return
			}
		}
	case "substring1":
		if c.Start < 0 || c.Start >= n {
			wantEmpty()
			return
		}
		wantStr(string(rs[c.Start:]))
	case "substring2":
		if c.Start < 0 || c.Start >= n {
			wantEmpty()
			return
		}
		switch {
		case c.Len < 0:
			// the statement is silent: any non-crashing outcome (valid UTF-8 checked above)
			ctx.Count("substring_negative_length(not asserted)")
		case c.Len == 0:
			if !(out.Err == nil && (len(out.Coll) == 0 || renderColl(out.Coll) == `[String:""]`)) {
				fail("length 0 must give '' or empty", "'' or empty")
			}
		default:
			end := c.Start + c.Len
			if end > n || end < 0 {
				end = n
			}
			wantStr(string(rs[c.Start:end]))
		}
	case "indexOf":
		wantInt(runeIndex(rs, rt))
	case "startsWith":
		wantBool(len(rt) <= n && string(rs[:len(rt)]) == c.T)
	case "endsWith":
		wantBool(len(rt) <= n && string(rs[n-len(rt):]) == c.T)
	case "contains":
		wantBool(runeIndex(rs, rt) >= 0)
	case "replace":
		wantStr(c14Replace(rs, rt, []rune(c.R)))
	case "upper", "lower":
		f := unicode.ToUpper
		if c.Fn == "lower" {
			f = unicode.ToLower
		}
		if strings.ContainsAny(c.S, "ßİ") {
			ctx.Count("special_casing_runes(not asserted)")
			return
		}
		wantStr(strings.Map(f, c.S))
	case "law-chars":
		wantBool(true)
	case "law-split":
		if c.Start > 0 && c.Start < n {
			wantBool(true)
		}
	case "law-index":
		if i := runeIndex(rs, rt); i >= 0 && i < n {
			wantBool(true)
		}
	case "law-contains":
		wantBool(true)
	}
}

// c14Replace: replace all non-overlapping occurrences left to right; an empty
// pattern surrounds every character with the substitution (N1 §5.6.8).
func c14Replace(s, p, r []rune) string {
	var out []rune
	if len(p) == 0 {
		out = append(out, r...)
		for _, c := range s {
			out = append(out, c)
			out = append(out, r...)
		}
		return string(out)
	}
	for i := 0; i < len(s); {
		if i+len(p) <= len(s) && string(s[i:i+len(p)]) == string(p) {
			out = append(out, r...)
			i += len(p)
		} else {
			out = append(out, s[i])
			i++
		}
	}
	return string(out)
}

// --- nested string expressions -------------------------------------------------------------

// A case is a generated expression in which string functions occur inside the receiver
// and inside the integer arguments of other string functions; the harness computes the
// expected string from the same tree (rune model), staying inside the in-range cases the
// statement defines.
type c14NestCase struct {
	Src  string `json:"src"`
	Want string `json:"want"`
}

var c14NestAlphabet = []string{"a", "b", "Z", " ", "é", "€", "😀", "x", "ǅ", "$", "1", "."}

func c14NestLit(s Src, n int) []rune {
	var out []rune
	for len(out) < n {
		if s.Prob(15) {
			out = append(out, []rune(c14RandRune(s))[0])
			continue
		}
		out = append(out, []rune(pickOne(s, c14NestAlphabet))[0])
	}
	return out
}

// c14NestInt: an integer expression whose value is exactly k, built from string functions.
func c14NestInt(s Src, k, depth int) string {
	if depth <= 0 || s.Prob(25) {
		return strconv.Itoa(k)
	}
	switch s.Intn(4) {
	case 0:
		return quoteFP(string(c14NestLit(s, k))) + ".length()"
	case 1:
		if k == 0 {
			return "0" // substring at the very end is the out-of-range case (empty): not a number
		}
		d := s.Range(0, 3)
		return quoteFP(string(c14NestLit(s, k+d))) + ".substring(" + c14NestInt(s, d, depth-1) + ").length()"
	case 2:
		a := s.Range(0, k)
		return "(" + quoteFP(string(c14NestLit(s, a))) + " & " + quoteFP(string(c14NestLit(s, k-a))) + ").length()"
	}
	// the position of a marker that does not occur before
	pre := make([]rune, k)
	for i := range pre {
		pre[i] = []rune(pickOne(s, []string{"a", "é", "😀", " "}))[0]
	}
	return quoteFP(string(pre)+"Q"+string(c14NestLit(s, s.Range(0, 2)))) + ".indexOf('Q')"
}

func c14NestStr(s Src, depth int) (string, []rune) {
	if depth <= 0 || s.Prob(20) {
		v := c14NestLit(s, s.Range(1, 8))
		return quoteFP(string(v)), v
	}
	src, v := c14NestStr(s, depth-1)
	switch s.Intn(6) {
	case 0: // substring(start)
		if len(v) == 0 {
			return src, v
		}
		k := s.Intn(len(v))
		return "(" + src + ").substring(" + c14NestInt(s, k, depth-1) + ")", v[k:]
	case 1, 2: // substring(start, length): the length argument is itself built from string functions
		if len(v) == 0 {
			return src, v
		}
		k := s.Intn(len(v))
		l := s.Range(1, len(v)-k)
		return "(" + src + ").substring(" + c14NestInt(s, k, depth-1) + ", " + c14NestInt(s, l, depth-1) + ")", v[k : k+l]
	case 3:
		src2, v2 := c14NestStr(s, depth-1)
		return "(" + src + " & " + src2 + ")", append(append([]rune{}, v...), v2...)
	case 4:
		if strings.ContainsAny(string(v), "ßİ") {
			return src, v
		}
		if s.Bool() {
			return "(" + src + ").upper()", []rune(strings.Map(unicode.ToUpper, string(v)))
		}
		return "(" + src + ").lower()", []rune(strings.Map(unicode.ToLower, string(v)))
	}
	if len(v) == 0 {
		return src, v
	}
	i := s.Intn(len(v))
	pat := v[i : i+1+s.Intn(len(v)-i)]
	rep := c14NestLit(s, s.Range(0, 2))
	return "(" + src + ").replace(" + quoteFP(string(pat)) + ", " + quoteFP(string(rep)) + ")", []rune(c14Replace(v, pat, rep))
}

func c14GenNest(s Src) c14NestCase {
	src, v := c14NestStr(s, s.Range(1, 4))
	return c14NestCase{Src: src, Want: string(v)}
}

func c14RunNest(ctx *Ctx, c c14NestCase) {
	out := evalWith(c.Src, nil, nil)
	ctx.Eval(c.Src, strings.Count(c.Src, "(") >= 2, "fn:nested", fmt.Sprintf("depth:%d", strings.Count(c.Src, ".substring(")))
	if out.Panic != "" {
		ctx.Fail("strings nested: panic@"+out.Panic, c.Src)
		return
	}
	want := `[String:` + strconv.Quote(c.Want) + `]`
	if c.Want == "" && out.Err == nil && len(out.Coll) == 0 {
		return // an empty string result may also be the empty collection (substring at the end)
	}
	if out.failed() || renderColl(out.Coll) != want {
		ctx.Fail("strings nested: a composition of string functions differs from the character model", fmt.Sprintf("%s → %s, want %s", c.Src, out, want))
	}
}

func TestC14(t *testing.T) {
	r := newRec("C14",
		"cases are (function, receiver string, pattern/replacement, start, length, delivery): strings of 0..12 runes over {ASCII, space, é (2 bytes), € (3), 😀 (4), combining acute, ß, İ, quote, backslash, regexp metacharacters} and, for 22% of the characters, any graphic rune of Unicode drawn per UTF-8 shape (2 bytes, 3 bytes with lead byte E0, other 3 bytes, 4 bytes) or from the runes whose case mapping changes the encoded length, start ∈ [-2,len+2] ∪ boundary int32, length ∈ [-1,len+2] ∪ boundary int32, patterns = rune-aligned substrings, near misses, '' and random strings; receivers as literals, System variables and FHIR string/code/markdown/uri/id/url/canonical/uuid/oid elements (a third of the element receivers held another text when the same program ran on the same element object a moment before); an exhaustive stage enumerates every string of length ≤ 3 (quick) / ≤ 5 (thorough) over a 5-rune alphabet × all positions × all short substrings; non-trivial = bytes ≠ characters before the position/pattern, or the position is out of range, or (other functions) the receiver has a multi-byte rune; distinct = FNV-64 of (source, operands)",
		"reference model over []rune; upper/lower asserted only on runes without special casing; substring with a negative length is not asserted (statement silent)")
	runProperty(t, r,
		Stage[c14Case]{Name: "short-strings", Enum: c14Enum, Run: c14Run},
		Stage[c14Case]{Name: "random", Gen: c14Gen, Run: c14Run, N: pick(30000, 250000)},
		Stage[c14NestCase]{Name: "nested", Gen: c14GenNest, Run: c14RunNest, N: pick(6000, 150000)},
	)
}

// --- native go-fuzz target (thorough tier): the coverage-guided mutator chooses the operands,
// the stage's own Run function (reference model inside the target) judges them ---------------

var c14FuzzFns = []string{"length", "substring1", "substring2", "indexOf", "toChars", "startsWith", "endsWith", "contains", "replace", "upper", "lower", "law-chars", "law-split", "law-index", "law-contains"}

func FuzzC14(f *testing.F) {
	f.Add("héllo", "l", "€", int32(1), int32(2), uint8(2))
	f.Add("a😀b́c", "b", "", int32(2), int32(1), uint8(3))
	f.Add("", "", "x", int32(0), int32(0), uint8(8))
	f.Add("ǅⅧⒶ", "Ⓐ", "$1", int32(-1), int32(2147483647), uint8(0x88))
	f.Add("abcabc", "bc", "\\", int32(3), int32(-1), uint8(0x1d))
	f.Fuzz(func(t *testing.T, s, p, r string, start, ln int32, sel uint8) {
		if len(s) > 48 || len(p) > 16 || len(r) > 16 || !utf8.ValidString(s) || !utf8.ValidString(p) || !utf8.ValidString(r) {
			return
		}
		c := c14Case{Fn: c14FuzzFns[int(sel&0x0f)%len(c14FuzzFns)], S: s, T: p, R: r, Start: int(start), Len: int(ln),
			Recv: []string{"lit", "var", "fhir.string", "lit"}[int(sel>>4)&3], ArgsV: sel&0x80 != 0}
		fuzzCase(t, "C14", "random", c, c14Run)
	})
}

