package zzverif

// G-RES: schema-driven generator of R4 resources (walks protobuf descriptors).
// G-TREE: the oracle tree: google/fhir's JSON rendering of the resource, paired
// node by node with the proto message by an independent descriptor walk.

import (
	"bytes"
	"encoding/json"
	"fmt"
	"sort"
	"strings"
	"sync"
	"time"
	"unicode"

	"github.com/google/fhir/go/fhirversion"
	"github.com/google/fhir/go/jsonformat"
	apb "github.com/google/fhir/go/proto/google/fhir/proto/annotations_go_proto"
	dtpb "github.com/google/fhir/go/proto/google/fhir/proto/r4/core/datatypes_go_proto"
	bcrpb "github.com/google/fhir/go/proto/google/fhir/proto/r4/core/resources/bundle_and_contained_resource_go_proto"
	"google.golang.org/protobuf/encoding/prototext"
	"google.golang.org/protobuf/proto"
	"google.golang.org/protobuf/reflect/protoreflect"
	"google.golang.org/protobuf/reflect/protoregistry"
	"google.golang.org/protobuf/types/known/anypb"
)

// ---------------------------------------------------------------------------
// resource type registry, taken from the ContainedResource oneof (independent of
// the repository's own registries)

type resType struct {
	Name  string
	Field protoreflect.FieldDescriptor // member of ContainedResource.oneof_resource
}

var allResTypes = func() []resType {
	md := (&bcrpb.ContainedResource{}).ProtoReflect().Descriptor()
	var out []resType
	fs := md.Fields()
	for i := 0; i < fs.Len(); i++ {
		f := fs.Get(i)
		if f.ContainingOneof() == nil || f.Message() == nil {
			continue
		}
		out = append(out, resType{Name: string(f.Message().Name()), Field: f})
	}
	sort.Slice(out, func(i, j int) bool { return out[i].Name < out[j].Name })
	return out
}()

var resTypeByName = func() map[string]resType {
	m := map[string]resType{}
	for _, r := range allResTypes {
		m[r.Name] = r
	}
	return m
}()

func newResource(name string) proto.Message {
	rt, ok := resTypeByName[name]
	if !ok {
		panic("harness: unknown resource type " + name)
	}
	cr := &bcrpb.ContainedResource{}
	return cr.ProtoReflect().Mutable(rt.Field).Message().Interface()
}

// wrapCR wraps a resource into a ContainedResource (harness-side, by descriptor).
func wrapCR(res proto.Message) *bcrpb.ContainedResource {
	name := string(res.ProtoReflect().Descriptor().Name())
	rt := resTypeByName[name]
	cr := &bcrpb.ContainedResource{}
	cr.ProtoReflect().Set(rt.Field, protoreflect.ValueOfMessage(res.ProtoReflect()))
	return cr
}

func unwrapCR(cr *bcrpb.ContainedResource) proto.Message {
	m := cr.ProtoReflect()
	od := m.Descriptor().Oneofs().Get(0)
	fd := m.WhichOneof(od)
	if fd == nil {
		return nil
	}
	return m.Get(fd).Message().Interface()
}

// resToText / resFromText: the replay representation of a resource.
func resToText(res proto.Message) string {
	b, err := prototext.MarshalOptions{Multiline: false}.Marshal(wrapCR(res))
	if err != nil {
		panic(err)
	}
	return strings.Join(strings.Fields(string(b)), " ")
}

func resFromText(s string) (proto.Message, error) {
	cr := &bcrpb.ContainedResource{}
	if err := prototext.Unmarshal([]byte(s), cr); err != nil {
		return nil, err
	}
	r := unwrapCR(cr)
	if r == nil {
		return nil, fmt.Errorf("empty contained resource")
	}
	return r, nil
}

// ---------------------------------------------------------------------------
// descriptor classification

func sdKind(md protoreflect.MessageDescriptor) apb.StructureDefinitionKindValue {
	return proto.GetExtension(md.Options(), apb.E_StructureDefinitionKind).(apb.StructureDefinitionKindValue)
}

func isPrimitiveMD(md protoreflect.MessageDescriptor) bool {
	return sdKind(md) == apb.StructureDefinitionKindValue_KIND_PRIMITIVE_TYPE
}

func isResourceMD(md protoreflect.MessageDescriptor) bool {
	return sdKind(md) == apb.StructureDefinitionKindValue_KIND_RESOURCE
}

func isChoiceMD(md protoreflect.MessageDescriptor) bool {
	return md != nil && proto.HasExtension(md.Options(), apb.E_IsChoiceType) && proto.GetExtension(md.Options(), apb.E_IsChoiceType).(bool)
}

func isReferenceMD(md protoreflect.MessageDescriptor) bool {
	return proto.HasExtension(md.Options(), apb.E_FhirReferenceType) || md.FullName() == "google.fhir.r4.core.Reference"
}

func sdURL(md protoreflect.MessageDescriptor) string {
	return proto.GetExtension(md.Options(), apb.E_FhirStructureDefinitionUrl).(string)
}

func valuesetURL(md protoreflect.MessageDescriptor) string {
	return proto.GetExtension(md.Options(), apb.E_FhirValuesetUrl).(string)
}

// ---------------------------------------------------------------------------
// generator

type genOpts struct {
	MaxDepth  int // nesting bound
	Budget    int // bound on generated nodes
	P0        int // inclusion percentage at depth 0
	Contained bool
	// Force lists the JSON names of top-level fields that must be populated when
	// they exist on the type.
	Force []string
	// ForceDeep lists JSON names that must be populated wherever they occur down to depth 2
	ForceDeep []string
	// MisAny: percentage of Any-typed slots (contained) that are filled with something other
	// than a packed ContainedResource — the proto API permits it, the JSON form cannot express
	// it; only totality checks use it.
	MisAny int
}

var defaultGen = genOpts{MaxDepth: 4, Budget: 110, P0: 28, Contained: true}
var smallGen = genOpts{MaxDepth: 2, Budget: 18, P0: 25, Contained: false}

type resGen struct {
	s      Src
	o      genOpts
	budget int
}

func genResource(s Src, typeName string, o genOpts) proto.Message {
	g := &resGen{s: s, o: o, budget: o.Budget}
	res := newResource(typeName)
	g.fill(res.ProtoReflect(), 0)
	return res
}

func genAnyResource(s Src, o genOpts) proto.Message {
	return genResource(s, allResTypes[s.Intn(len(allResTypes))].Name, o)
}

var genWords = []string{"a", "b", "Smith", "official", "x y", "Zoë", "é", "日本", "😀", "O'Neil", "back\\slash", "UPPER", "http://example.org/fhir/x", "1", "true", "2020-01-01", " lead", "mg", "α/β"}
var genTokens = []string{"a", "b", "c", "official", "usual", "final", "active", "in-progress", "mg", "kg", "min", "1", "<", ">=", "A1", "entered-in-error", "x.y"}
var genIDs = []string{"1", "abc", "A-1.b", "123e4567-e89b-12d3-a456-426614174000", "p1", "p2", "x"}
var genURLs = []string{"http://example.org/a", "http://example.org/b", "http://hl7.org/fhir/StructureDefinition/ext-1", "urn:oid:1.2.3", "https://example.com/fhir/ValueSet/vs|1.0"}
var genDecimals = []string{"0", "1", "1.0", "1.50", "-0.001", "100", "3.14159", "0.000000001", "123456789.123456789", "-7", "2147483648"}
var genZones = []string{"Z", "Z", "UTC", "+05:30", "-11:00", "+14:00", "-03:00"}

func (g *resGen) pct(p int) bool { return g.s.Prob(p) }

func (g *resGen) incl(depth int) bool {
	if g.budget <= 0 || depth > g.o.MaxDepth {
		return false
	}
	p := g.o.P0
	switch depth {
	case 0:
	case 1:
		p = p * 3 / 2
	case 2:
		p = p
	default:
		p = p / 2
	}
	return g.s.Prob(p)
}

func (g *resGen) fill(m protoreflect.Message, depth int) {
	md := m.Descriptor()
	g.budget--
	switch {
	case isPrimitiveMD(md):
		g.fillPrimitive(m, depth)
		return
	case md.FullName() == "google.fhir.r4.core.ContainedResource":
		g.fillContained(m, depth)
		return
	case isChoiceMD(md):
		g.fillChoice(m, depth)
		return
	case md.FullName() == "google.fhir.r4.core.Reference":
		g.fillReference(m, depth)
		return
	case md.FullName() == "google.fhir.r4.core.Extension":
		g.fillExtension(m, depth)
		return
	}
	fs := md.Fields()
	populated := 0
	for i := 0; i < fs.Len(); i++ {
		f := fs.Get(i)
		if f.ContainingOneof() != nil {
			continue // only Reference/ContainedResource/choices have oneofs; handled above
		}
		force := false
		if depth == 0 {
			for _, fn := range g.o.Force {
				if fn == f.JSONName() {
					force = true
				}
			}
		}
		if depth <= 2 {
			for _, fn := range g.o.ForceDeep {
				if fn == f.JSONName() {
					force = true
				}
			}
		}
		if !force && !g.inclField(f, depth) {
			continue
		}
		g.fillField(m, f, depth)
		populated++
	}
	// avoid completely empty complex elements (they vanish from the JSON and are not valid FHIR)
	if populated == 0 && depth > 0 {
		for i := 0; i < fs.Len(); i++ {
			f := fs.Get(i)
			if f.ContainingOneof() == nil && f.Message() != nil && isPrimitiveMD(f.Message()) && f.JSONName() != "id" {
				g.fillField(m, f, depth)
				break
			}
		}
	}
}

func (g *resGen) inclField(f protoreflect.FieldDescriptor, depth int) bool {
	switch f.JSONName() {
	case "extension", "modifierExtension":
		return depth <= g.o.MaxDepth && g.budget > 0 && g.pct(6)
	case "id":
		if depth == 0 {
			return g.pct(70)
		}
		return g.budget > 0 && g.pct(5)
	case "contained":
		return g.o.Contained && depth == 0 && g.pct(12)
	case "meta", "implicitRules", "language", "text":
		return depth == 0 && g.budget > 0 && g.pct(10)
	}
	return g.incl(depth)
}

func (g *resGen) fillField(m protoreflect.Message, f protoreflect.FieldDescriptor, depth int) {
	if f.Message() == nil {
		return // only primitives carry scalar fields; handled in fillPrimitive
	}
	if f.Message().FullName() == "google.protobuf.Any" && !f.IsList() {
		// a single Any-typed field: packed ContainedResource
		cr := &bcrpb.ContainedResource{}
		sub := &resGen{s: g.s, o: smallGen, budget: smallGen.Budget}
		sub.fillContained(cr.ProtoReflect(), 1)
		a, err := anypb.New(cr)
		if err != nil {
			panic(err)
		}
		m.Set(f, protoreflect.ValueOfMessage(a.ProtoReflect()))
		return
	}
	if f.Message().FullName() == "google.protobuf.Any" {
		n := 1 + g.s.Intn(2)
		l := m.Mutable(f).List()
		for i := 0; i < n; i++ {
			if g.o.MisAny > 0 && g.pct(g.o.MisAny) {
				l.Append(protoreflect.ValueOfMessage(g.misAny().ProtoReflect()))
				continue
			}
			cr := &bcrpb.ContainedResource{}
			sub := &resGen{s: g.s, o: smallGen, budget: smallGen.Budget}
			sub.fillContained(cr.ProtoReflect(), 1)
			a, err := anypb.New(cr)
			if err != nil {
				panic(err)
			}
			l.Append(protoreflect.ValueOfMessage(a.ProtoReflect()))
		}
		return
	}
	if f.IsList() {
		n := []int{1, 1, 2, 2, 3}[g.s.Intn(5)]
		l := m.Mutable(f).List()
		for i := 0; i < n; i++ {
			e := l.NewElement().Message()
			g.fill(e, depth+1)
			l.Append(protoreflect.ValueOfMessage(e))
		}
		return
	}
	g.fill(m.Mutable(f).Message(), depth+1)
}

func (g *resGen) fillChoice(m protoreflect.Message, depth int) {
	od := m.Descriptor().Oneofs().Get(0)
	fs := od.Fields()
	// prefer primitive/small members when the budget is low
	var f protoreflect.FieldDescriptor
	for try := 0; try < 6; try++ {
		f = fs.Get(g.s.Intn(fs.Len()))
		if g.budget > 10 || isPrimitiveMD(f.Message()) {
			break
		}
	}
	g.fill(m.Mutable(f).Message(), depth+1)
}

// misAny: an Any that does not hold a ContainedResource.
func (g *resGen) misAny() *anypb.Any {
	sub := &resGen{s: g.s, o: smallGen, budget: smallGen.Budget}
	switch g.s.Intn(6) {
	case 0: // a bare resource
		cr := &bcrpb.ContainedResource{}
		sub.fillContained(cr.ProtoReflect(), 1)
		if inner := unwrapCR(cr); inner != nil {
			if a, err := anypb.New(inner); err == nil {
				return a
			}
		}
	case 1: // a datatype
		if a, err := anypb.New(&dtpb.HumanName{Family: &dtpb.String{Value: "x"}}); err == nil {
			return a
		}
	case 2: // a message outside FHIR
		if a, err := anypb.New(&anypb.Any{TypeUrl: "x"}); err == nil {
			return a
		}
	case 3: // an unknown type
		return &anypb.Any{TypeUrl: "type.googleapis.com/example.Unknown", Value: []byte{8, 1}}
	case 4: // the right type, undecodable payload
		return &anypb.Any{TypeUrl: "type.googleapis.com/google.fhir.r4.core.ContainedResource", Value: []byte{0xff, 0xff, 0xff}}
	}
	return &anypb.Any{}
}

func (g *resGen) fillContained(m protoreflect.Message, depth int) {
	small := []string{"Patient", "Observation", "Organization", "Practitioner", "Medication", "Basic", "Binary", "Location", "Device", "Encounter"}
	var name string
	if g.s.Prob(70) {
		name = small[g.s.Intn(len(small))]
	} else {
		name = allResTypes[g.s.Intn(len(allResTypes))].Name
	}
	sub := &resGen{s: g.s, o: smallGen, budget: smallGen.Budget}
	sub.o.Contained = false
	r := m.Mutable(resTypeByName[name].Field).Message()
	sub.fill(r, 0)
	// a contained/bundled resource with an id is the common case
	if idf := r.Descriptor().Fields().ByName("id"); idf != nil && !r.Has(idf) {
		sub.fill(r.Mutable(idf).Message(), 1)
	}
}

func (g *resGen) fillExtension(m protoreflect.Message, depth int) {
	md := m.Descriptor()
	m.Set(md.Fields().ByName("url"), protoreflect.ValueOfMessage((&dtpb.Uri{Value: pickOne(g.s, genURLs[:3])}).ProtoReflect()))
	if depth < g.o.MaxDepth+1 && g.budget > 0 && g.s.Prob(15) {
		// complex extension: nested extensions, no value
		f := md.Fields().ByName("extension")
		l := m.Mutable(f).List()
		n := 1 + g.s.Intn(2)
		for i := 0; i < n; i++ {
			e := l.NewElement().Message()
			g.budget--
			g.fillExtension(e, depth+2)
			l.Append(protoreflect.ValueOfMessage(e))
		}
		return
	}
	g.fillChoice(m.Mutable(md.Fields().ByName("value")).Message(), g.o.MaxDepth) // keep extension values shallow
	if g.s.Prob(5) {
		m.Set(md.Fields().ByName("id"), protoreflect.ValueOfMessage((&dtpb.String{Value: pickOne(g.s, genIDs)}).ProtoReflect()))
	}
}

func (g *resGen) fillReference(m protoreflect.Message, depth int) {
	md := m.Descriptor()
	od := md.Oneofs().ByName("reference")
	switch g.s.Intn(10) {
	case 0: // no literal reference: identifier/display only
	case 1:
		m.Set(md.Fields().ByName("uri"), protoreflect.ValueOfMessage((&dtpb.String{Value: pickOne(g.s, []string{"http://example.org/fhir/Patient/1", "urn:uuid:123e4567-e89b-12d3-a456-426614174000", "urn:oid:1.2.3", "Patient?identifier=x", "http://example.org/fhir/Observation/o1/_history/2"})}).ProtoReflect()))
	case 2:
		m.Set(md.Fields().ByName("fragment"), protoreflect.ValueOfMessage((&dtpb.String{Value: pickOne(g.s, genIDs)}).ProtoReflect()))
	default:
		fs := od.Fields()
		var typed []protoreflect.FieldDescriptor
		for i := 0; i < fs.Len(); i++ {
			if strings.HasSuffix(string(fs.Get(i).Name()), "_id") {
				typed = append(typed, fs.Get(i))
			}
		}
		f := typed[g.s.Intn(len(typed))]
		if g.s.Prob(50) { // common targets more often
			for _, n := range []string{"patient_id", "practitioner_id", "organization_id", "observation_id"} {
				if g.s.Prob(40) {
					f = md.Fields().ByName(protoreflect.Name(n))
				}
			}
		}
		rid := &dtpb.ReferenceId{Value: pickOne(g.s, genIDs)}
		if g.s.Prob(30) {
			rid.History = &dtpb.Id{Value: pickOne(g.s, []string{"1", "2", "v3"})}
		}
		m.Set(f, protoreflect.ValueOfMessage(rid.ProtoReflect()))
	}
	if g.s.Prob(25) {
		m.Set(md.Fields().ByName("display"), protoreflect.ValueOfMessage((&dtpb.String{Value: pickOne(g.s, genWords)}).ProtoReflect()))
	}
	if g.s.Prob(10) {
		m.Set(md.Fields().ByName("type"), protoreflect.ValueOfMessage((&dtpb.Uri{Value: "Patient"}).ProtoReflect()))
	}
	if g.s.Prob(8) && depth <= g.o.MaxDepth {
		id := &dtpb.Identifier{Value: &dtpb.String{Value: pickOne(g.s, genIDs)}}
		if g.s.Bool() {
			id.System = &dtpb.Uri{Value: pickOne(g.s, genURLs)}
		}
		m.Set(md.Fields().ByName("identifier"), protoreflect.ValueOfMessage(id.ProtoReflect()))
	}
	if m.WhichOneof(od) == nil && !m.Has(md.Fields().ByName("display")) && !m.Has(md.Fields().ByName("identifier")) {
		m.Set(md.Fields().ByName("display"), protoreflect.ValueOfMessage((&dtpb.String{Value: "d"}).ProtoReflect()))
	}
}

func (g *resGen) fillPrimitive(m protoreflect.Message, depth int) {
	md := m.Descriptor()
	fs := md.Fields()
	vf := fs.ByName("value")
	name := string(md.Name())
	switch name {
	case "Date", "DateTime", "Instant", "Time":
		g.fillTemporal(m)
	default:
		if vf == nil {
			break
		}
		switch vf.Kind() {
		case protoreflect.StringKind:
			m.Set(vf, protoreflect.ValueOfString(g.stringFor(name)))
		case protoreflect.BoolKind:
			m.Set(vf, protoreflect.ValueOfBool(g.s.Bool()))
		case protoreflect.Int32Kind, protoreflect.Sint32Kind:
			m.Set(vf, protoreflect.ValueOfInt32(pickOne(g.s, []int32{0, 1, -1, 7, 42, 2147483647, -2147483648, 100})))
		case protoreflect.Uint32Kind:
			v := pickOne(g.s, []uint32{1, 2, 7, 42, 2147483647, 100})
			if name == "UnsignedInt" && g.s.Prob(20) {
				v = 0
			}
			m.Set(vf, protoreflect.ValueOfUint32(v))
		case protoreflect.BytesKind:
			m.Set(vf, protoreflect.ValueOfBytes([]byte(pickOne(g.s, []string{"hello", "\x00\x01\xff", "a"}))))
		case protoreflect.EnumKind:
			vals := vf.Enum().Values()
			if vals.Len() > 1 {
				m.Set(vf, protoreflect.ValueOfEnum(vals.Get(1+g.s.Intn(vals.Len()-1)).Number()))
			}
		}
	}
	if g.budget > 0 && depth <= g.o.MaxDepth+1 {
		if idf := fs.ByName("id"); idf != nil && idf.Message() != nil && g.s.Prob(3) {
			m.Set(idf, protoreflect.ValueOfMessage((&dtpb.String{Value: pickOne(g.s, genIDs)}).ProtoReflect()))
		}
		if ef := fs.ByName("extension"); ef != nil && g.s.Prob(4) {
			l := m.Mutable(ef).List()
			e := l.NewElement().Message()
			g.budget--
			g.fillExtension(e, g.o.MaxDepth)
			l.Append(protoreflect.ValueOfMessage(e))
		}
	}
}

func (g *resGen) stringFor(name string) string {
	switch name {
	case "Id":
		return pickOne(g.s, genIDs)
	case "Uri", "Url", "Canonical":
		return pickOne(g.s, genURLs)
	case "Oid":
		return "urn:oid:1.2.840." + fmt.Sprint(1+g.s.Intn(99))
	case "Uuid":
		return "urn:uuid:123e4567-e89b-12d3-a456-42661417400" + fmt.Sprint(g.s.Intn(10))
	case "Decimal":
		if g.s.Prob(35) {
			// 16..21 digits with the point anywhere (around the width of a 64-bit coefficient), or a
			// value between -1 and 1 with its zero written out
			if g.s.Prob(30) {
				return pickOne(g.s, []string{"-0.", "0.", "-0.0", "-0.00"}) + g.s.Str(digits, 1, 6)
			}
			ds := pickOne(g.s, []string{"9223372036854775807", "9223372036854775808", "9999999999999999999", "18446744073709551616", "1000000000000000000", ""})
			if ds == "" {
				ds = g.s.Str([]string{"1", "2", "9", "8", "5"}, 1, 1) + g.s.Str(digits, 15, 20)
			}
			k := g.s.Range(1, len(ds))
			txt := ds[:k]
			if k < len(ds) {
				txt += "." + ds[k:]
			}
			if g.s.Bool() {
				txt = "-" + txt
			}
			return txt
		}
		return pickOne(g.s, genDecimals)
	case "Xhtml":
		return "<div xmlns=\"http://www.w3.org/1999/xhtml\">" + pickOne(g.s, []string{"x", "y", "text"}) + "</div>"
	case "String", "Markdown":
		return pickOne(g.s, genWords)
	}
	return pickOne(g.s, genTokens) // Code and string-valued bound codes
}

// fillTemporal populates value_us/timezone/precision consistently.
func (g *resGen) fillTemporal(m protoreflect.Message) {
	md := m.Descriptor()
	fs := md.Fields()
	name := string(md.Name())
	pf := fs.ByName("precision")
	pvals := pf.Enum().Values()
	// precision: any non-zero enum value
	pv := pvals.Get(1 + g.s.Intn(pvals.Len()-1))
	pname := string(pv.Name())
	if name == "Time" {
		us := int64(g.s.Intn(24))*3600e6 + int64(g.s.Intn(60))*60e6 + int64(g.s.Intn(60))*1e6
		switch pname {
		case "MILLISECOND":
			us += int64(g.s.Intn(1000)) * 1000
		case "MICROSECOND":
			us += int64(g.s.Intn(1000000))
		}
		m.Set(fs.ByName("value_us"), protoreflect.ValueOfInt64(us))
		m.Set(pf, protoreflect.ValueOfEnum(pv.Number()))
		return
	}
	zone := pickOne(g.s, genZones)
	loc := zoneLoc(zone)
	year := pickOne(g.s, []int{1, 1970, 1999, 2000, 2020, 2024, 9999, 2021})
	mon := 1 + g.s.Intn(12)
	day := 1 + g.s.Intn(28)
	if g.s.Prob(10) {
		mon, day = 2, 29
		year = 2020
	}
	if g.s.Prob(10) {
		mon, day = 12, 31
	}
	h, mi, sec, ns := 0, 0, 0, 0
	switch pname {
	case "YEAR":
		mon, day = 1, 1
	case "MONTH":
		day = 1
	case "DAY":
	default:
		h, mi, sec = g.s.Intn(24), g.s.Intn(60), g.s.Intn(60)
		if pname == "MILLISECOND" {
			ns = g.s.Intn(1000) * 1e6
		}
		if pname == "MICROSECOND" {
			ns = g.s.Intn(1000000) * 1e3
		}
	}
	t := time.Date(year, time.Month(mon), day, h, mi, sec, ns, loc)
	if pname != "YEAR" && pname != "MONTH" && pname != "DAY" && g.s.Prob(5) {
		// boundary instants: the epoch itself (value_us = 0, the zero value of the field), the
		// microsecond before it, local midnight
		switch g.s.Intn(3) {
		case 0:
			t = time.UnixMicro(0)
		case 1:
			t = time.UnixMicro(-1000000)
		default:
			t = time.Date(year, time.Month(mon), day, 0, 0, 0, 0, loc)
		}
	}
	m.Set(fs.ByName("value_us"), protoreflect.ValueOfInt64(t.UnixMicro()))
	m.Set(fs.ByName("timezone"), protoreflect.ValueOfString(zone))
	m.Set(pf, protoreflect.ValueOfEnum(pv.Number()))
}

func zoneLoc(zone string) *time.Location {
	switch zone {
	case "Z", "UTC", "":
		return time.UTC
	}
	var hh, mm int
	fmt.Sscanf(zone[1:], "%d:%d", &hh, &mm)
	off := hh*3600 + mm*60
	if zone[0] == '-' {
		off = -off
	}
	return time.FixedZone(zone, off)
}

// ---------------------------------------------------------------------------
// JSON rendering (google/fhir) and the paired tree

var marshalOnce sync.Once
var theMarshaller *jsonformat.Marshaller

func marshaller() *jsonformat.Marshaller {
	marshalOnce.Do(func() {
		m, err := jsonformat.NewMarshaller(false, "", "", fhirversion.R4)
		if err != nil {
			panic(err)
		}
		theMarshaller = m
	})
	return theMarshaller
}

// resJSON renders a clone of the resource (the marshaller denormalises references
// in place) and decodes it with UseNumber.
func resJSON(res proto.Message) (map[string]any, []byte, error) {
	b, err := marshaller().MarshalResource(proto.Clone(res))
	if err != nil {
		return nil, nil, err
	}
	dec := json.NewDecoder(bytes.NewReader(b))
	dec.UseNumber()
	var out map[string]any
	if err := dec.Decode(&out); err != nil {
		return nil, b, err
	}
	return out, b, nil
}

// Node is one element of the oracle tree.
type Node struct {
	Name     string // FHIRPath element name under the parent
	JSONKey  string // key in the parent's JSON object
	Msg      proto.Message
	JSON     any  // JSON value (nil when only the _x companion exists)
	Prim     bool // primitive element
	Synth    bool // no proto node: the synthesised `reference` string
	ViaAny   bool // reached through a contained Any (no pointer identity)
	Choice   bool // reached through a choice wrapper
	IsList   bool // the field is repeated
	Index    int  // position in the parent's list (0 for scalars)
	Parent   *Node
	Kids     map[string][]*Node
	KidOrder []string
	TypeName string // proto message name of Msg
	Backbone bool
}

type pairErr struct{ msgs []string }

func (p *pairErr) add(format string, a ...any) {
	if len(p.msgs) < 20 {
		p.msgs = append(p.msgs, fmt.Sprintf(format, a...))
	}
}

func snakeToLowerCamel(s string) string {
	parts := strings.Split(s, "_")
	for i := 1; i < len(parts); i++ {
		if parts[i] != "" {
			r := []rune(parts[i])
			r[0] = unicode.ToUpper(r[0])
			parts[i] = string(r)
		}
	}
	return strings.Join(parts, "")
}

func camelToSnake(s string) string {
	var sb strings.Builder
	for i, r := range s {
		if unicode.IsUpper(r) {
			if i > 0 {
				sb.WriteByte('_')
			}
			sb.WriteRune(unicode.ToLower(r))
		} else {
			sb.WriteRune(r)
		}
	}
	return sb.String()
}

// buildTree pairs the resource with its JSON rendering.  Any JSON key that the
// descriptor walk does not account for, or any populated proto field without a
// JSON counterpart, is reported in errs (a harness/oracle inconsistency, never a
// property violation).
func buildTree(res proto.Message) (*Node, []string, error) {
	j, _, err := resJSON(res)
	if err != nil {
		return nil, nil, err
	}
	pe := &pairErr{}
	root := &Node{Name: string(res.ProtoReflect().Descriptor().Name()), Msg: res, JSON: j, TypeName: string(res.ProtoReflect().Descriptor().Name())}
	pairObject(root, res.ProtoReflect(), j, nil, false, pe)
	return root, pe.msgs, nil
}

func (n *Node) addKid(k *Node) {
	if n.Kids == nil {
		n.Kids = map[string][]*Node{}
	}
	if _, ok := n.Kids[k.Name]; !ok {
		n.KidOrder = append(n.KidOrder, k.Name)
	}
	k.Parent = n
	n.Kids[k.Name] = append(n.Kids[k.Name], k)
}

// pairObject pairs message m with JSON object j (and, for primitives, companion
// object jx from the `_name` key).
func pairObject(n *Node, m protoreflect.Message, j map[string]any, jx map[string]any, viaAny bool, pe *pairErr) {
	md := m.Descriptor()
	used := map[string]bool{"resourceType": true}
	src := j
	if isPrimitiveMD(md) {
		src = jx // a primitive's children (id, extension) live in the companion object
	}
	isRef := md.FullName() == "google.fhir.r4.core.Reference"
	m.Range(func(f protoreflect.FieldDescriptor, v protoreflect.Value) bool {
		if f.Message() == nil {
			return true // value / value_us / timezone / precision of a primitive
		}
		key := f.JSONName()
		name := key
		if isRef && f.ContainingOneof() != nil {
			// uri / fragment / typed id → the single JSON string "reference"
			key, name = "reference", "reference"
			jv, ok := src[key]
			if !ok {
				pe.add("%s: reference missing in JSON", md.Name())
				return true
			}
			used[key] = true
			used["_"+key] = true
			n.addKid(&Node{Name: name, JSONKey: key, JSON: jv, Prim: true, Synth: true, TypeName: "String", ViaAny: viaAny})
			return true
		}
		fmd := f.Message()
		if fmd.FullName() == "google.protobuf.Any" {
			used[key] = true
			var arr []any
			var anys []protoreflect.Message
			if f.IsList() {
				arr, _ = src[key].([]any)
				l := v.List()
				for i := 0; i < l.Len(); i++ {
					anys = append(anys, l.Get(i).Message())
				}
			} else { // Parameters.parameter.resource: a single Any
				arr = []any{src[key]}
				anys = []protoreflect.Message{v.Message()}
			}
			if len(arr) != len(anys) {
				pe.add("%s.%s: %d JSON items vs %d proto items", md.Name(), key, len(arr), len(anys))
				return true
			}
			for i := 0; i < len(anys); i++ {
				a := anys[i].Interface().(*anypb.Any)
				cr := &bcrpb.ContainedResource{}
				if err := a.UnmarshalTo(cr); err != nil {
					pe.add("contained: %v", err)
					continue
				}
				inner := unwrapCR(cr)
				obj, _ := arr[i].(map[string]any)
				k := &Node{Name: name, JSONKey: key, Msg: inner, JSON: obj, ViaAny: true, IsList: f.IsList(), Index: i, TypeName: string(inner.ProtoReflect().Descriptor().Name())}
				n.addKid(k)
				pairObject(k, inner.ProtoReflect(), obj, nil, true, pe)
			}
			return true
		}
		one := func(item protoreflect.Message, jv any, jxv any, isList bool, idx int) {
			imd := item.Descriptor()
			choice := false
			k := &Node{Name: name, IsList: isList, Index: idx, ViaAny: viaAny}
			if isChoiceMD(imd) {
				od := imd.Oneofs().Get(0)
				fd := item.WhichOneof(od)
				if fd == nil {
					pe.add("%s.%s: empty choice", md.Name(), key)
					return
				}
				choice = true
				item = item.Get(fd).Message()
				imd = item.Descriptor()
				ckey := snakeToLowerCamel(string(f.Name()) + "_" + camelToSnake(fd.JSONName()))
				k.JSONKey = ckey
				jv = src[ckey]
				jxv = src["_"+ckey]
				used[ckey] = true
				used["_"+ckey] = true
			} else {
				k.JSONKey = key
			}
			k.Choice = choice
			if imd.FullName() == "google.fhir.r4.core.ContainedResource" {
				inner := unwrapCR(item.Interface().(*bcrpb.ContainedResource))
				if inner == nil {
					pe.add("%s.%s: empty ContainedResource", md.Name(), key)
					return
				}
				item = inner.ProtoReflect()
				imd = item.Descriptor()
			}
			k.Msg = item.Interface()
			k.TypeName = string(imd.Name())
			k.JSON = jv
			if isPrimitiveMD(imd) {
				k.Prim = true
				n.addKid(k)
				cx, _ := jxv.(map[string]any)
				if jv == nil && cx == nil {
					pe.add("%s.%s: primitive without JSON value or companion", md.Name(), k.JSONKey)
				}
				pairObject(k, item, nil, cx, viaAny, pe)
				return
			}
			obj, ok := jv.(map[string]any)
			if !ok {
				pe.add("%s.%s: expected JSON object, got %T", md.Name(), k.JSONKey, jv)
				return
			}
			k.Backbone = sdURL(imd) == "" && !isResourceMD(imd)
			n.addKid(k)
			pairObject(k, item, obj, nil, viaAny, pe)
		}
		if f.IsList() {
			used[key] = true
			used["_"+key] = true
			l := v.List()
			arr, _ := src[key].([]any)
			xarr, _ := src["_"+key].([]any)
			for i := 0; i < l.Len(); i++ {
				var jv, jxv any
				if i < len(arr) {
					jv = arr[i]
				}
				if i < len(xarr) {
					jxv = xarr[i]
				}
				one(l.Get(i).Message(), jv, jxv, true, i)
			}
			if arr != nil && len(arr) != l.Len() {
				pe.add("%s.%s: %d JSON items vs %d proto items", md.Name(), key, len(arr), l.Len())
			}
			return true
		}
		used[key] = true
		used["_"+key] = true
		one(v.Message(), src[key], src["_"+key], false, 0)
		return true
	})
	for k := range src {
		if !used[k] {
			pe.add("%s: JSON key %q not accounted for", md.Name(), k)
		}
	}
}

// walk visits every node below n (pre-order, kids in KidOrder).
func (n *Node) walk(f func(*Node)) {
	for _, name := range n.KidOrder {
		for _, k := range n.Kids[name] {
			f(k)
			k.walk(f)
		}
	}
}

// pathNames returns the element names from the root (exclusive) to n.
func (n *Node) pathNames() []string {
	var rev []string
	for x := n; x.Parent != nil; x = x.Parent {
		rev = append(rev, x.Name)
	}
	for i, j := 0, len(rev)-1; i < j; i, j = i+1, j-1 {
		rev[i], rev[j] = rev[j], rev[i]
	}
	return rev
}

// step is one path step: element name and optional index (-1 = none).
type step struct {
	Name string `json:"n"`
	Idx  int    `json:"i"`
}

// modelEval evaluates a dotted path on the tree by plain tree semantics.
func modelEval(root *Node, steps []step) []*Node {
	cur := []*Node{root}
	for _, st := range steps {
		var next []*Node
		for _, p := range cur {
			next = append(next, p.Kids[st.Name]...)
		}
		if st.Idx >= 0 {
			if st.Idx < len(next) {
				next = []*Node{next[st.Idx]}
			} else {
				next = nil
			}
		}
		cur = next
	}
	return cur
}

func renderSteps(rootName string, steps []step) string {
	var sb strings.Builder
	sb.WriteString(rootName)
	for i, st := range steps {
		if i > 0 || rootName != "" {
			sb.WriteByte('.')
		}
		sb.WriteString(fpIdent(st.Name))
		if st.Idx >= 0 {
			fmt.Fprintf(&sb, "[%d]", st.Idx)
		}
	}
	return sb.String()
}

// renderStepsDelimited spells every identifier - the root type name too - as a delimited
// identifier (`Patient`.`name`[0].`given`): the same path.
func renderStepsDelimited(rootName string, steps []step) string {
	var sb strings.Builder
	if rootName != "" {
		sb.WriteString("`" + rootName + "`")
	}
	for i, st := range steps {
		if i > 0 || rootName != "" {
			sb.WriteByte('.')
		}
		sb.WriteString("`" + st.Name + "`")
		if st.Idx >= 0 {
			fmt.Fprintf(&sb, "[%d]", st.Idx)
		}
	}
	return sb.String()
}

// c02IndexedSteps renders the path to n with an indexer on every repeated step
// selected by mask (bit i = step i).  The index is the position in the flattened
// collection of that step, which equals the list index when all earlier steps are
// indexed; for the mixed spelling the model re-evaluates the result anyway.
func c02IndexedSteps(n *Node, mask int) []step {
	var chain []*Node
	for x := n; x.Parent != nil; x = x.Parent {
		chain = append([]*Node{x}, chain...)
	}
	steps := make([]step, len(chain))
	for i, x := range chain {
		steps[i] = step{x.Name, -1}
		if x.IsList && (mask>>(uint(i)%16))&1 == 1 {
			steps[i].Idx = x.Index
		}
	}
	return steps
}

var fpKeywords = map[string]bool{"div": true, "mod": true, "and": true, "or": true, "xor": true, "implies": true, "true": true, "false": true,
	"year": true, "years": true, "month": true, "months": true, "week": true, "weeks": true, "day": true, "days": true, "hour": true, "hours": true,
	"minute": true, "minutes": true, "second": true, "seconds": true, "millisecond": true, "milliseconds": true}

// fpIdent spells an element name as a FHIRPath identifier (delimited when it is a keyword).
func fpIdent(name string) string {
	if fpKeywords[name] {
		return "`" + name + "`"
	}
	return name
}

// protoregistryFind looks a generated message type up by full name.
func protoregistryFind(name protoreflect.FullName) (protoreflect.MessageType, error) {
	return protoregistry.GlobalTypes.FindMessageByName(name)
}

// namesakes: message types of the R4 packages that share a short name with another type
// (Patient.GenderCode / Person.GenderCode, Patient.Contact / Organization.Contact …).
var (
	namesakeOnce sync.Once
	namesakeMap  map[protoreflect.Name][]protoreflect.MessageDescriptor
)

func namesakeOf(md protoreflect.MessageDescriptor, pick int) protoreflect.MessageDescriptor {
	namesakeOnce.Do(func() {
		namesakeMap = map[protoreflect.Name][]protoreflect.MessageDescriptor{}
		seen := map[protoreflect.FullName]bool{}
		var walk func(m protoreflect.MessageDescriptor)
		walk = func(m protoreflect.MessageDescriptor) {
			if seen[m.FullName()] || !strings.HasPrefix(string(m.FullName()), "google.fhir.r4.core.") {
				return
			}
			seen[m.FullName()] = true
			namesakeMap[m.Name()] = append(namesakeMap[m.Name()], m)
			fs := m.Fields()
			for i := 0; i < fs.Len(); i++ {
				if fm := fs.Get(i).Message(); fm != nil {
					walk(fm)
				}
			}
		}
		for _, r := range allResTypes {
			walk(r.Field.Message())
		}
		for k := range namesakeMap {
			sort.Slice(namesakeMap[k], func(i, j int) bool { return namesakeMap[k][i].FullName() < namesakeMap[k][j].FullName() })
		}
	})
	var others []protoreflect.MessageDescriptor
	for _, m := range namesakeMap[md.Name()] {
		if m.FullName() != md.FullName() {
			others = append(others, m)
		}
	}
	if len(others) == 0 {
		return nil
	}
	if pick < 0 {
		pick = -pick
	}
	return others[pick%len(others)]
}

// dynamicNew creates a new generated-code message for a descriptor of the R4 packages.
func dynamicNew(md protoreflect.MessageDescriptor) protoreflect.Message {
	mt, err := protoregistryFind(md.FullName())
	if err != nil {
		return nil
	}
	return mt.New()
}

// fixedSrc: a deterministic Src for building values from a drawn seed (keeps value
// construction out of the rapid bit stream so replays stay small).
type fixedSrc struct{ seed int }

func (f fixedSrc) next(n int) int {
	x := mix64(uint64(f.seed)*0x9e3779b97f4a7c15 + uint64(n))
	return int(x >> 33)
}

var fixedCounter int

func (f fixedSrc) Intn(n int) int {
	if n <= 1 {
		return 0
	}
	fixedCounter++
	return f.next(fixedCounter) % n
}
func (f fixedSrc) Range(lo, hi int) int {
	if hi <= lo {
		return lo
	}
	return lo + f.Intn(hi-lo+1)
}
func (f fixedSrc) Bool() bool        { return f.Intn(2) == 1 }
func (f fixedSrc) Prob(pct int) bool { return f.Intn(100) < pct }
func (f fixedSrc) Int32() int32      { return int32(f.Intn(1 << 30)) }
func (f fixedSrc) Int64() int64      { return int64(f.Intn(1 << 30)) }
func (f fixedSrc) Str(alphabet []string, lo, hi int) string {
	n := f.Range(lo, hi)
	var sb strings.Builder
	for i := 0; i < n; i++ {
		sb.WriteString(alphabet[f.Intn(len(alphabet))])
	}
	return sb.String()
}

// ---------------------------------------------------------------------------
// aliasing: a resource built through the proto API may hold the same message object at
// two positions (a shared HumanName under two contacts …).  That is a valid proto tree and
// renders as two equal JSON elements; generators that allocate every element afresh never
// produce it, and the text form of a case cannot express it, so it is a deterministic
// post-pass driven by a number stored in the case.

type aliasSlot struct {
	parent protoreflect.Message
	fd     protoreflect.FieldDescriptor
	idx    int // -1: singular field
	val    protoreflect.Message
}

func collectAliasSlots(m protoreflect.Message, out *[]aliasSlot, depth int) {
	if depth > 40 {
		return
	}
	m.Range(func(f protoreflect.FieldDescriptor, v protoreflect.Value) bool {
		if f.Message() == nil || f.Message().FullName() == "google.protobuf.Any" || f.IsMap() {
			return true
		}
		if f.JSONName() == "id" {
			// an element id is a bare string in JSON: a String that carries extensions or an id of
			// its own must not end up there, nor the id's String in a place that expects a full element
			return true
		}
		if f.IsList() {
			l := v.List()
			for i := 0; i < l.Len(); i++ {
				*out = append(*out, aliasSlot{m, f, i, l.Get(i).Message()})
				collectAliasSlots(l.Get(i).Message(), out, depth+1)
			}
			return true
		}
		*out = append(*out, aliasSlot{m, f, -1, v.Message()})
		collectAliasSlots(v.Message(), out, depth+1)
		return true
	})
}

func reachesMsg(from protoreflect.Message, target any, depth int) bool {
	if any(from.Interface()) == target {
		return true
	}
	if depth > 40 {
		return true // be conservative
	}
	found := false
	from.Range(func(f protoreflect.FieldDescriptor, v protoreflect.Value) bool {
		if f.Message() == nil || f.IsMap() {
			return true
		}
		if f.IsList() {
			l := v.List()
			for i := 0; i < l.Len() && !found; i++ {
				found = reachesMsg(l.Get(i).Message(), target, depth+1)
			}
			return !found
		}
		found = reachesMsg(v.Message(), target, depth+1)
		return !found
	})
	return found
}

type aliasRnd struct{ seed, n uint64 }

func (a *aliasRnd) Intn(n int) int {
	if n <= 1 {
		return 0
	}
	a.n++
	return int(mix64(a.seed*0x9e3779b97f4a7c15+a.n)>>33) % n
}

// aliasSubtrees makes up to 3 positions of res hold a message object that also sits at another
// position (same message type, no cycle).  Returns the number of positions rewritten.
func aliasSubtrees(res proto.Message, seed int) int {
	if seed == 0 {
		return 0
	}
	s := &aliasRnd{seed: uint64(seed)}
	done := 0
	rounds := 1 + seed%3
	for r := 0; r < rounds; r++ {
		var slots []aliasSlot
		collectAliasSlots(res.ProtoReflect(), &slots, 0)
		// deterministic order: Range over fields is by field number for generated messages
		by := map[protoreflect.FullName][]int{}
		var names []protoreflect.FullName
		for i, sl := range slots {
			n := sl.val.Descriptor().FullName()
			if _, ok := by[n]; !ok {
				names = append(names, n)
			}
			by[n] = append(by[n], i)
		}
		var cands []protoreflect.FullName
		for _, n := range names {
			if len(by[n]) >= 2 {
				cands = append(cands, n)
			}
		}
		if len(cands) == 0 {
			return done
		}
		// prefer complex elements (their children are navigated) two times out of three
		var cx []protoreflect.FullName
		for _, n := range cands {
			if !isPrimitiveMD(slots[by[n][0]].val.Descriptor()) {
				cx = append(cx, n)
			}
		}
		pool := cands
		if len(cx) > 0 && s.Intn(3) != 0 {
			pool = cx
		}
		g := by[pool[s.Intn(len(pool))]]
		a := slots[g[s.Intn(len(g))]]
		b := slots[g[s.Intn(len(g))]]
		if any(a.val.Interface()) == any(b.val.Interface()) {
			continue
		}
		if reachesMsg(a.val, any(b.parent.Interface()), 0) {
			continue // would close a cycle
		}
		if b.idx >= 0 {
			b.parent.Mutable(b.fd).List().Set(b.idx, protoreflect.ValueOfMessage(a.val))
		} else {
			b.parent.Set(b.fd, protoreflect.ValueOfMessage(a.val))
		}
		done++
	}
	return done
}
