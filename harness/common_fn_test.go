package zzverif

// M-FN: the FHIRPath N1 function list (hand-copied from the specification, §5 and
// §6.5, plus the R4 `extension` helper and the STU `join`), with the specification's
// argument counts, a well-typed receiver and arguments, the kind of each argument
// position, and one characteristic example whose result distinguishes the function
// from every other function of the same arity.

import (
	"reflect"
	"strings"

	"github.com/verily-src/fhirpath-go/fhirpath/internal/funcs"
)

type fnSpec struct {
	Name      string
	Min, Max  int      // argument counts the specification allows
	Recv      string   // well-typed non-empty receiver
	Args      []string // well-typed arguments (Max of them)
	Kinds     []string // per argument: single | crit | coll | type
	Aggregate bool     // listed by C07 as an aggregate (defined on empty input)
	Example   string   // characteristic example ("" = none)
	Want      string   // expected rendering of the example
	Spec      string   // N1 | R4 | STU
}

var fnSpecs = []fnSpec{
	// existence
	{Name: "empty", Recv: "%ints", Aggregate: true, Example: `%none.empty().toString() & %ints.empty().toString() & %strs.take(2).empty().toString()`, Want: `[String:"truefalsefalse"]`, Spec: "N1"},
	{Name: "exists", Max: 1, Recv: "%ints", Args: []string{"$this > 1"}, Kinds: []string{"crit"}, Aggregate: true, Example: "%ints.exists($this > 2147483646)", Want: "[Boolean:true]", Spec: "N1"},
	{Name: "all", Min: 1, Max: 1, Recv: "%ints", Args: []string{"$this > 0"}, Kinds: []string{"crit"}, Aggregate: true, Example: "%ints.all($this > 1)", Want: "[Boolean:false]", Spec: "N1"},
	{Name: "allTrue", Recv: "%bools", Aggregate: true, Example: `%bools.allTrue().toString() & %trues.allTrue().toString() & %falses.allTrue().toString()`, Want: `[String:"falsetruefalse"]`, Spec: "N1"},
	{Name: "anyTrue", Recv: "%bools", Aggregate: true, Example: `%bools.anyTrue().toString() & %trues.anyTrue().toString() & %falses.anyTrue().toString() & %bools.skip(1).anyTrue().toString() & %bools.take(2).anyTrue().toString()`, Want: `[String:"truetruefalsetruetrue"]`, Spec: "N1"},
	{Name: "allFalse", Recv: "%bools", Aggregate: true, Example: `%bools.allFalse().toString() & %trues.allFalse().toString() & %falses.allFalse().toString()`, Want: `[String:"falsefalsetrue"]`, Spec: "N1"},
	{Name: "anyFalse", Recv: "%bools", Aggregate: true, Example: `%bools.anyFalse().toString() & %trues.anyFalse().toString() & %falses.anyFalse().toString()`, Want: `[String:"truefalsetrue"]`, Spec: "N1"},
	{Name: "subsetOf", Min: 1, Max: 1, Recv: "%ints", Args: []string{"%ints"}, Kinds: []string{"coll"}, Example: "%ints.take(1).subsetOf(%ints)", Want: "[Boolean:true]", Spec: "N1"},
	{Name: "supersetOf", Min: 1, Max: 1, Recv: "%ints", Args: []string{"%ints"}, Kinds: []string{"coll"}, Example: "%ints.supersetOf(%ints.take(1))", Want: "[Boolean:true]", Spec: "N1"},
	{Name: "count", Recv: "%ints", Aggregate: true, Example: "%ints.count()", Want: "[Integer:5]", Spec: "N1"},
	{Name: "distinct", Recv: "%ints", Example: `%strs.distinct()`, Want: `[String:"b", String:"a", String:"é"]`, Spec: "N1"},
	{Name: "isDistinct", Recv: "%ints", Aggregate: true, Example: `%strs.isDistinct().toString() & %strs.take(2).isDistinct().toString()`, Want: `[String:"falsetrue"]`, Spec: "N1"},
	// filtering and projection
	{Name: "where", Min: 1, Max: 1, Recv: "%ints", Args: []string{"$this > 1"}, Kinds: []string{"crit"}, Example: "%ints.where($this = 1)", Want: "[Integer:1, Decimal:1]", Spec: "N1"},
	{Name: "select", Min: 1, Max: 1, Recv: "%ints", Args: []string{"$this"}, Kinds: []string{"crit"}, Example: "%strs.select($this & 'x')", Want: `[String:"bx", String:"ax", String:"bx", String:"éx"]`, Spec: "N1"},
	{Name: "repeat", Min: 1, Max: 1, Recv: "%ints", Args: []string{"$this"}, Kinds: []string{"crit"}, Spec: "N1"},
	{Name: "ofType", Min: 1, Max: 1, Recv: "%mixed", Args: []string{"Integer"}, Kinds: []string{"type"}, Example: "%mixed.ofType(String)", Want: `[String:"1"]`, Spec: "N1"},
	// subsetting
	{Name: "single", Recv: "%ints.take(1)", Example: "%ints.take(1).single()", Want: "[Integer:3]", Spec: "N1"},
	{Name: "first", Recv: "%ints", Example: "%strs.first()", Want: `[String:"b"]`, Spec: "N1"},
	{Name: "last", Recv: "%ints", Example: "%strs.last()", Want: `[String:"é"]`, Spec: "N1"},
	{Name: "tail", Recv: "%ints", Example: "%strs.tail()", Want: `[String:"a", String:"b", String:"é"]`, Spec: "N1"},
	{Name: "skip", Min: 1, Max: 1, Recv: "%ints", Args: []string{"1"}, Kinds: []string{"single"}, Example: "%strs.skip(3)", Want: `[String:"é"]`, Spec: "N1"},
	{Name: "take", Min: 1, Max: 1, Recv: "%ints", Args: []string{"1"}, Kinds: []string{"single"}, Example: "%strs.take(1)", Want: `[String:"b"]`, Spec: "N1"},
	{Name: "intersect", Min: 1, Max: 1, Recv: "%ints", Args: []string{"%ints"}, Kinds: []string{"coll"}, Example: "%strs.intersect(%strs.take(2))", Want: `[String:"b", String:"a"]`, Spec: "N1"},
	{Name: "exclude", Min: 1, Max: 1, Recv: "%ints", Args: []string{"%ints"}, Kinds: []string{"coll"}, Example: "%strs.exclude(%strs.take(2))", Want: `[String:"é"]`, Spec: "N1"},
	// combining
	{Name: "union", Min: 1, Max: 1, Recv: "%ints", Args: []string{"%ints"}, Kinds: []string{"coll"}, Example: `%strs.union(%strs.take(1))`, Want: `[String:"b", String:"a", String:"é"]`, Spec: "N1"},
	{Name: "combine", Min: 1, Max: 1, Recv: "%ints", Args: []string{"%ints"}, Kinds: []string{"coll"}, Example: `%strs.take(2).combine(%strs.take(1))`, Want: `[String:"b", String:"a", String:"b"]`, Spec: "N1"},
	// conversion
	{Name: "iif", Min: 2, Max: 3, Recv: "%ints", Args: []string{"true", "1", "2"}, Kinds: []string{"crit", "coll", "coll"}, Aggregate: true, Example: "iif(1 > 2, 'a', 'b')", Want: `[String:"b"]`, Spec: "N1"},
	{Name: "toBoolean", Recv: "'true'", Example: `'true'.toBoolean().toString() & 'false'.toBoolean().toString() & 'abc'.toBoolean().toString()`, Want: `[String:"truefalse"]`, Spec: "N1"},
	{Name: "convertsToBoolean", Recv: "'true'", Example: `'abc'.convertsToBoolean().toString() & 'true'.convertsToBoolean().toString() & '2'.convertsToBoolean().toString()`, Want: `[String:"falsetruefalse"]`, Spec: "N1"},
	{Name: "toInteger", Recv: "'1'", Example: "'42'.toInteger()", Want: "[Integer:42]", Spec: "N1"},
	{Name: "convertsToInteger", Recv: "'1'", Example: `'1.5'.convertsToInteger().toString() & '15'.convertsToInteger().toString() & 'true'.convertsToInteger().toString() & '150'.convertsToInteger().toString()`, Want: `[String:"falsetruefalsetrue"]`, Spec: "N1"},
	{Name: "toDate", Recv: "'2020-01-01'", Example: "'2020-01-02'.toDate()", Want: "[Date:2020-01-02]", Spec: "N1"},
	{Name: "convertsToDate", Recv: "'2020-01-01'", Example: `'2020-01-02T10:00:00Z'.convertsToDate().toString() & '2020-01-02'.convertsToDate().toString() & '10:00:00'.convertsToDate().toString()`, Want: `[String:"falsetruefalse"]`, Spec: "N1"},
	{Name: "toDateTime", Recv: "'2020-01-01'", Example: "'2020-01-02T10:00:00Z'.toDateTime()", Want: "[DateTime:2020-01-02T10:00:00Z]", Spec: "N1"},
	{Name: "convertsToDateTime", Recv: "'2020-01-01'", Example: `'2020-01-02T10:00:00Z'.convertsToDateTime().toString() & '2020-01-02'.convertsToDateTime().toString() & '10:00:00'.convertsToDateTime().toString()`, Want: `[String:"truetruefalse"]`, Spec: "N1"},
	{Name: "toDecimal", Recv: "'1.5'", Example: "'1.50'.toDecimal()", Want: "[Decimal:1.5]", Spec: "N1"},
	{Name: "convertsToDecimal", Recv: "'1.5'", Example: `'1.5.5'.convertsToDecimal().toString() & '1.5'.convertsToDecimal().toString() & '5 days'.convertsToDecimal().toString()`, Want: `[String:"falsetruefalse"]`, Spec: "N1"},
	{Name: "toQuantity", Max: 1, Recv: "5", Args: []string{"'mg'"}, Kinds: []string{"single"}, Example: "5.toQuantity() is System.Quantity", Want: "[Boolean:true]", Spec: "N1"},
	{Name: "convertsToQuantity", Max: 1, Recv: "5", Args: []string{"'mg'"}, Kinds: []string{"single"}, Example: `'1.5.5'.convertsToQuantity().toString() & '1.5'.convertsToQuantity().toString() & '5 days'.convertsToQuantity().toString()`, Want: `[String:"falsetruetrue"]`, Spec: "N1"},
	{Name: "toString", Recv: "1", Example: "42.toString()", Want: `[String:"42"]`, Spec: "N1"},
	{Name: "convertsToString", Recv: "1", Example: `'abc'.convertsToString().toString() & 42.convertsToString().toString() & %name.convertsToString().toString()`, Want: `[String:"truetruefalse"]`, Spec: "N1"},
	{Name: "toTime", Recv: "'10:00:00'", Example: "'10:30:00'.toTime()", Want: "[Time:10:30:00]", Spec: "N1"},
	{Name: "convertsToTime", Recv: "'10:00:00'", Example: `'2020-01-02T10:00:00Z'.convertsToTime().toString() & '2020-01-02'.convertsToTime().toString() & '10:00:00'.convertsToTime().toString()`, Want: `[String:"falsefalsetrue"]`, Spec: "N1"},
	// strings
	{Name: "indexOf", Min: 1, Max: 1, Recv: "'abcdef'", Args: []string{"'cd'"}, Kinds: []string{"single"}, Example: "'abcdef'.indexOf('cd')", Want: "[Integer:2]", Spec: "N1"},
	{Name: "substring", Min: 1, Max: 2, Recv: "'abcdef'", Args: []string{"1", "2"}, Kinds: []string{"single", "single"}, Example: "'abcdef'.substring(1, 2)", Want: `[String:"bc"]`, Spec: "N1"},
	{Name: "startsWith", Min: 1, Max: 1, Recv: "'abcdef'", Args: []string{"'ab'"}, Kinds: []string{"single"}, Example: "'abcdef'.startsWith('ab') and 'abcdef'.startsWith('ef').not()", Want: "[Boolean:true]", Spec: "N1"},
	{Name: "endsWith", Min: 1, Max: 1, Recv: "'abcdef'", Args: []string{"'ef'"}, Kinds: []string{"single"}, Example: "'abcdef'.endsWith('ef') and 'abcdef'.endsWith('ab').not()", Want: "[Boolean:true]", Spec: "N1"},
	{Name: "contains", Min: 1, Max: 1, Recv: "'abcdef'", Args: []string{"'cd'"}, Kinds: []string{"single"}, Example: `'abcdef'.contains('cd') and 'abcdef'.contains('dc').not() and 'abc'.contains('.c').not()`, Want: `[Boolean:true]`, Spec: "N1"},
	{Name: "upper", Recv: "'abc'", Example: "'aBc'.upper()", Want: `[String:"ABC"]`, Spec: "N1"},
	{Name: "lower", Recv: "'ABC'", Example: "'aBc'.lower()", Want: `[String:"abc"]`, Spec: "N1"},
	{Name: "replace", Min: 2, Max: 2, Recv: "'abcabc'", Args: []string{"'b'", "'x'"}, Kinds: []string{"single", "single"}, Example: "'a.c.'.replace('.', 'x')", Want: `[String:"axcx"]`, Spec: "N1"},
	{Name: "matches", Min: 1, Max: 1, Recv: "'abc'", Args: []string{"'a.c'"}, Kinds: []string{"single"}, Example: `'abc'.matches('^a.c$').toString() & 'abd'.matches('^a.c$').toString()`, Want: `[String:"truefalse"]`, Spec: "N1"},
	{Name: "replaceMatches", Min: 2, Max: 2, Recv: "'abcabc'", Args: []string{"'b'", "'x'"}, Kinds: []string{"single", "single"}, Example: "'a.cb'.replaceMatches('[a-b]', 'x')", Want: `[String:"x.cx"]`, Spec: "N1"},
	{Name: "length", Recv: "'abc'", Example: "'abcd'.length()", Want: "[Integer:4]", Spec: "N1"},
	{Name: "toChars", Recv: "'abc'", Example: "'ab'.toChars()", Want: `[String:"a", String:"b"]`, Spec: "N1"},
	// math
	{Name: "abs", Recv: "(0 - 5)", Example: "(0 - 5).abs()", Want: "[Integer:5]", Spec: "N1"},
	{Name: "ceiling", Recv: "1.5", Example: "1.5.ceiling()", Want: "[Integer:2]", Spec: "N1"},
	{Name: "exp", Recv: "0", Example: "0.exp()", Want: "[Decimal:1]", Spec: "N1"},
	{Name: "floor", Recv: "1.5", Example: "(0 - 1.5).floor()", Want: "[Integer:-2]", Spec: "N1"},
	{Name: "ln", Recv: "1", Example: "1.ln()", Want: "[Decimal:0]", Spec: "N1"},
	{Name: "log", Min: 1, Max: 1, Recv: "8", Args: []string{"2"}, Kinds: []string{"single"}, Example: "8.log(2)", Want: "[Decimal:3]", Spec: "N1"},
	{Name: "power", Min: 1, Max: 1, Recv: "2", Args: []string{"3"}, Kinds: []string{"single"}, Example: "2.power(3)", Want: "[Integer:8]", Spec: "N1"},
	{Name: "round", Max: 1, Recv: "1.55", Args: []string{"1"}, Kinds: []string{"single"}, Example: "1.26.round(1)", Want: "[Decimal:1.3]", Spec: "N1"},
	{Name: "sqrt", Recv: "4", Example: "16.sqrt()", Want: "[Decimal:4]", Spec: "N1"},
	{Name: "truncate", Recv: "1.5", Example: `(0 - 1.5).truncate().toString() & 1.5.truncate().toString()`, Want: `[String:"-11"]`, Spec: "N1"},
	// tree navigation
	{Name: "children", Recv: "%name", Example: `%pat.children().count() < %pat.descendants().count() and %name.children().count() = 4`, Want: `[Boolean:true]`, Spec: "N1"},
	{Name: "descendants", Recv: "%name", Example: `%pat.descendants().count() > %pat.children().count() and %name.descendants().count() = 4`, Want: `[Boolean:true]`, Spec: "N1"},
	// utility
	{Name: "trace", Min: 1, Max: 2, Recv: "%ints", Args: []string{"'t'", "$this"}, Kinds: []string{"single", "crit"}, Spec: "N1"},
	{Name: "now", Aggregate: true, Example: "now() is System.DateTime", Want: "[Boolean:true]", Spec: "N1"},
	{Name: "timeOfDay", Aggregate: true, Example: "timeOfDay() is System.Time", Want: "[Boolean:true]", Spec: "N1"},
	{Name: "today", Aggregate: true, Example: "today() is System.Date", Want: "[Boolean:true]", Spec: "N1"},
	// boolean logic
	{Name: "not", Recv: "true", Example: `(1 > 2).not().toString() & (1 < 2).not().toString() & %none.not().toString()`, Want: `[String:"truefalse"]`, Spec: "N1"},
	// R4 / STU
	{Name: "extension", Min: 1, Max: 1, Recv: "%pat", Args: []string{"'http://example.org/a'"}, Kinds: []string{"single"}, Example: "%pat.extension('http://example.org/b').value", Want: "[Integer{value:7}]", Spec: "R4"},
	{Name: "join", Max: 1, Recv: "%strs", Args: []string{"','"}, Kinds: []string{"single"}, Example: "%strs.join('-')", Want: `[String:"b-a-b-é"]`, Spec: "STU"},
}

var fnSpecByName = func() map[string]fnSpec {
	m := map[string]fnSpec{}
	for _, f := range fnSpecs {
		m[f.Name] = f
	}
	return m
}()

// placeholderFuncs returns the names whose table entry is the shared
// "not implemented" placeholder: the one function value bound to several names.
func placeholderFuncs() map[string]bool {
	base := funcs.Clone()
	byPtr := map[uintptr][]string{}
	for k, f := range base {
		p := reflect.ValueOf(f.Func).Pointer()
		byPtr[p] = append(byPtr[p], k)
	}
	out := map[string]bool{}
	for _, names := range byPtr {
		if len(names) >= 3 {
			for _, n := range names {
				out[n] = true
			}
		}
	}
	return out
}

// fnVars: the variables the examples use (on top of progVarsFor).
func fnVars() map[string]any {
	p := fixturePatient()
	v := progVarsFor(p)
	v["bools"] = collOfVals(bv(true), bv(false), bv(true))
	v["trues"] = collOfVals(bv(true), bv(true))
	v["falses"] = collOfVals(bv(false), bv(false))
	return v
}

func collOfVals(vs ...Val) any {
	items := make([]any, len(vs))
	for i, v := range vs {
		items[i] = v.mustBuild()
	}
	return collOf(false, items)
}

// (shared by C01 and C04)
var c01KindLits = func() map[string][]string {
	m := map[string][]string{}
	for _, v := range poolAll {
		if l, ok := v.lit(); ok && v.isSystem() {
			k := v.K
			if k == "Integer" || k == "Decimal" {
				m["num"] = append(m["num"], l)
			}
			m[k] = append(m[k], l)
		}
	}
	m["Integer"] = append(m["Integer"], "(0 - 2147483647 - 1)", "(0 - 1)", "(0 - 2147483647)")
	m["num"] = append(m["num"], "(0 - 2147483647 - 1)", "(0 - 1)", "(0 - 1.5)", "(1/3)", "0.0000000001")
	return m
}()

// c01KindTerms: boundary literals of the kind of a well-typed example term (nil when
// the example is not a literal).
func c01KindTerms(example string) []string {
	switch {
	case example == "":
		return nil
	case example[0] == '\'':
		return c01KindLits["String"]
	case example[0] == '@' && strings.HasPrefix(example, "@T"):
		return c01KindLits["Time"]
	case example[0] == '@' && strings.Contains(example, "T"):
		return c01KindLits["DateTime"]
	case example[0] == '@':
		return c01KindLits["Date"]
	case example[0] >= '0' && example[0] <= '9' && strings.Contains(example, "'"):
		return c01KindLits["Quantity"]
	case example[0] >= '0' && example[0] <= '9' && strings.Contains(example, "."):
		return c01KindLits["num"]
	case example[0] >= '0' && example[0] <= '9':
		return c01KindLits["Integer"]
	}
	return nil
}


// well-typed but unusable literal arguments (C07, C16): a string that is no regular expression,
// no unit and no type name; integers at a boundary
var c07OddStr = []string{"", "'['", "'*'", "'a{2,1}'", "''"}
var c07OddInt = []string{"", "-1", "2147483647", "0", "-1"}
