package zzverif

// Recorder, stage runner, known-finding matching, replay and watchdog: the
// plumbing shared by every property check.  Every check has the shape
//
//	case := Gen(src)        // rapid draws only; JSON-serialisable
//	Run(ctx, case)          // execute under recover() + oracle; ctx.Fail(sig, detail)
//
// and the runner turns unknown failures into violations (with the shrunk case as
// the replay body), known ones into KNOWN-FINDING counters.

import (
	"encoding/json"
	"flag"
	"fmt"
	"hash/fnv"
	"os"
	"regexp"
	"runtime"
	"runtime/debug"
	"sort"
	"strconv"
	"strings"
	"sync"
	"sync/atomic"
	"testing"
	"time"

	"pgregory.net/rapid"
)

// ---------------------------------------------------------------------------
// environment

type envT struct {
	Tier     string // quick | thorough
	Seed     int64
	Shard    int
	NShards  int
	Out      string
	Known    string
	Replay   string
	VerifDir string
	RepoDir  string
}

var env = func() envT {
	e := envT{Tier: "quick", Seed: 1, NShards: 1}
	if v := os.Getenv("VERIF_TIER"); v == "thorough" {
		e.Tier = v
	}
	if v, err := strconv.ParseInt(os.Getenv("VERIF_SEED"), 10, 64); err == nil && v != 0 {
		e.Seed = v
	}
	if v := os.Getenv("VERIF_SHARD"); v != "" {
		fmt.Sscanf(v, "%d/%d", &e.Shard, &e.NShards)
		if e.NShards < 1 {
			e.NShards = 1
		}
	}
	e.Out = os.Getenv("VERIF_OUT")
	e.Known = os.Getenv("VERIF_KNOWN")
	e.Replay = os.Getenv("VERIF_REPLAY")
	e.VerifDir = os.Getenv("VERIF_DIR")
	e.RepoDir = os.Getenv("VERIF_REPO")
	if e.RepoDir == "" {
		e.RepoDir = "/repo"
	}
	return e
}()

func thorough() bool { return env.Tier == "thorough" }

// pick returns q in the quick tier and t in the thorough tier.
func pick(q, t int) int {
	if thorough() {
		return t
	}
	return q
}

// ---------------------------------------------------------------------------
// known findings

type knownEntry struct {
	Property string `json:"property"`
	Status   string `json:"status"` // "known" suppresses; "fixed" is documentation only
	Match    string `json:"match"`  // regular expression over the signature (anchored)
	What     string `json:"what"`
	re       *regexp.Regexp
}

type knownFile struct {
	Findings []knownEntry `json:"findings"`
}

func loadKnown(prop string) []knownEntry {
	var kf knownFile
	if env.Known == "" {
		return nil
	}
	b, err := os.ReadFile(env.Known)
	if err != nil {
		return nil
	}
	if err := json.Unmarshal(b, &kf); err != nil {
		panic("known_findings.json: " + err.Error())
	}
	var out []knownEntry
	for _, k := range kf.Findings {
		if k.Property != prop || k.Status != "known" {
			continue
		}
		k.re = regexp.MustCompile("^(?:" + k.Match + ")$")
		out = append(out, k)
	}
	return out
}

// ---------------------------------------------------------------------------
// recorder

type violation struct {
	Sig    string `json:"sig"`
	Stage  string `json:"stage"`
	Detail string `json:"detail"`
	Case   any    `json:"case"`
}

type knownHit struct {
	Count   int64  `json:"count"`
	What    string `json:"what"`
	Example any    `json:"example,omitempty"`
}

type stageInfo struct {
	Name       string `json:"name"`
	Requested  int    `json:"requested"`
	Done       int    `json:"done"`
	Exhaustive bool   `json:"exhaustive"`
}

const maxHashes = 400000

type Rec struct {
	mu          sync.Mutex
	Prop        string
	Rule        string
	Assumptions []string
	evals       int64
	hashes      map[uint64]struct{}
	overflow    int64
	classes     map[string]int64
	counters    map[string]int64
	samples     []any
	sampleKeys  map[string]bool
	violations  map[string]*violation
	known       map[string]*knownHit
	stages      []*stageInfo
	knownList   []knownEntry
	exhaustive  bool
	complete    bool
	start       time.Time
}

func newRec(prop, rule string, assumptions ...string) *Rec {
	return &Rec{
		Prop: prop, Rule: rule, Assumptions: assumptions,
		hashes: map[uint64]struct{}{}, classes: map[string]int64{}, counters: map[string]int64{},
		sampleKeys: map[string]bool{}, violations: map[string]*violation{}, known: map[string]*knownHit{},
		knownList: loadKnown(prop), exhaustive: true, start: time.Now(),
	}
}

func hash64(s string) uint64 {
	h := fnv.New64a()
	h.Write([]byte(s))
	return h.Sum64() >> 1 // keep it inside int63 for JSON consumers
}

func (r *Rec) count(name string, n int64) {
	r.mu.Lock()
	r.counters[name] += n
	r.mu.Unlock()
}

func (r *Rec) write() {
	if env.Out == "" {
		return
	}
	r.mu.Lock()
	defer r.mu.Unlock()
	hs := make([]uint64, 0, len(r.hashes))
	for h := range r.hashes {
		hs = append(hs, h)
	}
	sort.Slice(hs, func(i, j int) bool { return hs[i] < hs[j] })
	vs := []*violation{}
	for _, v := range r.violations {
		vs = append(vs, v)
	}
	sort.Slice(vs, func(i, j int) bool { return vs[i].Sig < vs[j].Sig })
	out := map[string]any{
		"property":            r.Prop,
		"rule":                r.Rule,
		"assumptions":         r.Assumptions,
		"evaluations":         r.evals,
		"nontrivial_hashes":   hs,
		"nontrivial_overflow": r.overflow,
		"classes":             r.classes,
		"counters":            r.counters,
		"samples":             r.samples,
		"violations":          vs,
		"known":               r.known,
		"stages":              r.stages,
		"exhaustive":          r.exhaustive && len(r.stages) > 0,
		"complete":            r.complete,
		"wall_s":              time.Since(r.start).Seconds(),
	}
	b, err := json.Marshal(out)
	if err != nil {
		b, _ = json.Marshal(map[string]any{"property": r.Prop, "complete": false, "marshal_error": err.Error()})
	}
	tmp := env.Out + ".tmp"
	if err := os.WriteFile(tmp, b, 0o644); err == nil {
		os.Rename(tmp, env.Out)
	}
}

// ---------------------------------------------------------------------------
// per-case context

type Ctx struct {
	r        *Rec
	stage    string
	c        any
	failed   bool // an unknown failure was recorded for this case
	fails    []string
	evalDone bool
}

// Eval registers one executed case.  key identifies the case for distinctness;
// nontrivial is the property's stated rule; classes feed the histogram.
func (c *Ctx) Eval(key string, nontrivial bool, classes ...string) {
	r := c.r
	r.mu.Lock()
	r.evals++
	if nontrivial {
		if len(r.hashes) < maxHashes {
			r.hashes[hash64(c.stage+"|"+key)] = struct{}{}
		} else {
			r.overflow++
		}
		r.classes["nontrivial"]++
	}
	for _, cl := range classes {
		r.classes[cl]++
	}
	n := r.evals
	r.mu.Unlock()
	c.evalDone = true
	// deterministic sampling: the first two cases of a stage and every case whose
	// ordinal is a power of four; at most 4 per stage
	if nontrivial && (n&(n-1)) == 0 {
		c.sample()
	}
}

func (c *Ctx) sample() {
	r := c.r
	r.mu.Lock()
	defer r.mu.Unlock()
	k := c.stage
	cnt := 0
	for key := range r.sampleKeys {
		if strings.HasPrefix(key, k+"#") {
			cnt++
		}
	}
	if cnt >= 4 {
		return
	}
	r.sampleKeys[fmt.Sprintf("%s#%d", k, cnt)] = true
	r.samples = append(r.samples, map[string]any{"stage": c.stage, "case": jsonable(c.c)})
}

func (c *Ctx) Class(cl string) {
	c.r.mu.Lock()
	c.r.classes[cl]++
	c.r.mu.Unlock()
}

func (c *Ctx) Count(name string) { c.r.count(name, 1) }

func jsonable(v any) any {
	b, err := json.Marshal(v)
	if err != nil {
		return fmt.Sprintf("%+v", v)
	}
	var out any
	json.Unmarshal(b, &out)
	return out
}

// Fail reports that the oracle rejected the outcome of this case.  sig is the
// stable signature (call site / operand class / outcome class / discriminating
// predicate); detail is free text.  Returns true when the failure is not a listed
// known finding.
func (c *Ctx) Fail(sig, detail string) bool {
	r := c.r
	sig = r.Prop + " " + sig
	r.mu.Lock()
	defer r.mu.Unlock()
	for _, k := range r.knownList {
		if k.re.MatchString(sig) {
			h := r.known[k.Match]
			if h == nil {
				h = &knownHit{What: k.What, Example: map[string]any{"sig": sig, "detail": clip(detail, 400), "case": jsonable(c.c)}}
				r.known[k.Match] = h
			}
			h.Count++
			return false
		}
	}
	c.failed = true
	c.fails = append(c.fails, sig)
	// keep the latest case for this signature: rapid re-runs the shrunk case last
	r.violations[sig] = &violation{Sig: sig, Stage: c.stage, Detail: clip(detail, 4000), Case: jsonable(c.c)}
	return true
}

func clip(s string, n int) string {
	if len(s) > n {
		return s[:n] + "…"
	}
	return s
}

// ---------------------------------------------------------------------------
// watchdog: a case that runs longer than the cap is a hang

type curCase struct {
	start time.Time
	ctx   *Ctx
}

var current atomic.Pointer[curCase]
var hangCap = 30 * time.Second
var watchdogOnce sync.Once

func startWatchdog(r *Rec) {
	watchdogOnce.Do(func() {
		// self-test hook of the driver's hang confirmation: a tiny cap for the main run only
		if ms, err := strconv.Atoi(os.Getenv("VERIF_TEST_HANGCAP_MS")); err == nil && ms > 0 && os.Getenv("VERIF_REPLAY") == "" {
			hangCap = time.Duration(ms) * time.Millisecond
		}
		go func() {
			for {
				time.Sleep(500 * time.Millisecond)
				cc := current.Load()
				if cc == nil {
					continue
				}
				if time.Since(cc.start) > hangCap {
					cc.ctx.Fail("hang: case still running after "+hangCap.String(), "the case did not terminate within the cap; goroutine dump omitted")
					r.complete = false
					r.count("hung_cases", 1)
					r.write()
					os.Exit(3)
				}
			}
		}()
	})
}

// ---------------------------------------------------------------------------
// stages

type Src interface {
	Intn(n int) int       // uniform in [0,n)
	Range(lo, hi int) int // uniform in [lo,hi]
	Bool() bool           // fair coin
	Prob(pct int) bool    // true with pct percent
	Int32() int32         // any int32
	Int64() int64         // any int64
	Str(alphabet []string, lo, hi int) string
}

type rapidSrc struct{ t *rapid.T }

func (s rapidSrc) Intn(n int) int {
	if n <= 1 {
		return 0
	}
	return rapid.IntRange(0, n-1).Draw(s.t, "i")
}
func (s rapidSrc) Range(lo, hi int) int {
	if hi <= lo {
		return lo
	}
	return rapid.IntRange(lo, hi).Draw(s.t, "r")
}
func (s rapidSrc) Bool() bool { return rapid.Bool().Draw(s.t, "b") }

// Prob is true with (close to) pct percent.  rapid's integer generators favour
// small values, which would make small percentages far too likely; the drawn word
// is therefore mixed (a bijection) before it is reduced.  The offset makes the
// fully shrunk draw (0) map to 99, i.e. to "false".
func (s rapidSrc) Prob(pct int) bool {
	u := rapid.Uint64().Draw(s.t, "p")
	return int((mix64(u)-mix64(0)+99)%100) < pct
}

func mix64(x uint64) uint64 {
	x += 0x9e3779b97f4a7c15
	x = (x ^ (x >> 30)) * 0xbf58476d1ce4e5b9
	x = (x ^ (x >> 27)) * 0x94d049bb133111eb
	return x ^ (x >> 31)
}
func (s rapidSrc) Int32() int32 { return rapid.Int32().Draw(s.t, "i32") }
func (s rapidSrc) Int64() int64 { return rapid.Int64().Draw(s.t, "i64") }
func (s rapidSrc) Str(alphabet []string, lo, hi int) string {
	n := s.Range(lo, hi)
	var sb strings.Builder
	for i := 0; i < n; i++ {
		sb.WriteString(alphabet[s.Intn(len(alphabet))])
	}
	return sb.String()
}

func pickOne[T any](s Src, xs []T) T { return xs[s.Intn(len(xs))] }

// Stage is one generator+oracle pair of a property.
type Stage[C any] struct {
	Name string
	// Gen draws one case (rapid stage).  Exactly one of Gen / Enum is set.
	Gen func(s Src) C
	// Enum enumerates a finite space completely (exhaustive stage).
	Enum func(yield func(C))
	// Run executes the case and applies the oracle.
	Run func(ctx *Ctx, c C)
	// N is the number of generated cases per shard (ignored for Enum).
	N int
}

type stageRunner interface {
	name() string
	run(t *testing.T, r *Rec)
	replay(r *Rec, raw json.RawMessage) error
}

func (s Stage[C]) name() string { return s.Name }

func (s Stage[C]) exec(r *Rec, c C) *Ctx {
	ctx := &Ctx{r: r, stage: s.Name, c: c}
	current.Store(&curCase{start: time.Now(), ctx: ctx})
	defer current.Store(nil)
	func() {
		defer func() {
			if p := recover(); p != nil {
				// a panic that escaped the property's own recover() is a harness
				// defect or an unguarded library call: report it, never swallow it
				ctx.Fail("harness: uncaught panic in stage "+s.Name+": "+panicClass(p), fmt.Sprintf("%v\n%s", p, debug.Stack()))
			}
		}()
		s.Run(ctx, c)
	}()
	if !ctx.evalDone {
		ctx.Eval(fmt.Sprintf("%v", jsonable(c)), false)
	}
	return ctx
}

func (s Stage[C]) run(t *testing.T, r *Rec) {
	info := &stageInfo{Name: s.Name, Exhaustive: s.Enum != nil}
	r.mu.Lock()
	r.stages = append(r.stages, info)
	if s.Enum == nil {
		r.exhaustive = false
	}
	r.mu.Unlock()
	if s.Enum != nil {
		idx := 0
		s.Enum(func(c C) {
			mine := idx%env.NShards == env.Shard
			idx++
			if !mine {
				return
			}
			info.Requested++
			s.exec(r, c)
			info.Done++
		})
		return
	}
	info.Requested = s.N
	if s.N <= 0 {
		return
	}
	flag.Set("rapid.checks", strconv.Itoa(s.N))
	done := 0
	t.Run(s.Name, func(t *testing.T) {
		rapid.Check(t, func(rt *rapid.T) {
			var c C
			func() {
				defer func() {
					p := recover()
					if p == nil {
						return
					}
					// rapid steers generation and shrinking with panics of its own types
					// (invalid data, stop test): those must propagate untouched
					if strings.HasPrefix(fmt.Sprintf("%T", p), "rapid.") {
						panic(p)
					}
					// any other panic inside a generator is a harness defect: report it, never lose it
					r.mu.Lock()
					r.violations["harness: generator panic in stage "+s.Name] = &violation{Sig: r.Prop + " harness: generator panic in stage " + s.Name, Stage: s.Name, Detail: clip(fmt.Sprintf("%v\n%s", p, debug.Stack()), 4000)}
					r.mu.Unlock()
					rt.Fatalf("generator panic: %v", p)
				}()
				c = s.Gen(rapidSrc{rt})
			}()
			ctx := s.exec(r, c)
			done++
			if ctx.failed && os.Getenv("VERIF_NOSTOP") == "" {
				rt.Fatalf("violation: %s", strings.Join(ctx.fails, "; "))
			}
		})
	})
	r.count("rapid_invocations:"+s.Name, int64(done))
	if done > s.N {
		done = s.N // shrinking re-executes cases; report generated cases only
	}
	info.Done = done
}

func (s Stage[C]) replay(r *Rec, raw json.RawMessage) error {
	var c C
	if err := json.Unmarshal(raw, &c); err != nil {
		return err
	}
	s.exec(r, c)
	return nil
}

// runProperty is the body of every TestCxx.
func runProperty(t *testing.T, r *Rec, stages ...stageRunner) {
	debug.SetMaxStack(256 << 20)
	startWatchdog(r)
	defer r.write()
	if env.Replay != "" {
		b, err := os.ReadFile(env.Replay)
		if err != nil {
			t.Fatalf("replay: %v", err)
		}
		var body struct {
			Property string          `json:"property"`
			Stage    string          `json:"stage"`
			Case     json.RawMessage `json:"case"`
		}
		if err := json.Unmarshal(b, &body); err != nil {
			t.Fatalf("replay: %v", err)
		}
		for _, s := range stages {
			if s.name() == body.Stage {
				if err := s.replay(r, body.Case); err != nil {
					t.Fatalf("replay decode: %v", err)
				}
				r.stages = append(r.stages, &stageInfo{Name: s.name(), Requested: 1, Done: 1})
				r.complete = true
				return
			}
		}
		t.Fatalf("replay: unknown stage %q", body.Stage)
	}
	only := os.Getenv("VERIF_STAGE")
	for _, s := range stages {
		if only != "" && only != s.name() {
			continue
		}
		s.run(t, r)
		r.write() // checkpoint after each stage
	}
	r.complete = true
}

// ---------------------------------------------------------------------------
// guarded execution

type outcome struct {
	Panic string // non-empty: class of the recovered panic
	Stack string
}

// guard runs f under recover(); a panic becomes an outcome, not a crash.
func guard(f func()) (o outcome) {
	defer func() {
		if p := recover(); p != nil {
			o.Panic = panicClass(p)
			o.Stack = string(debug.Stack())
		}
	}()
	f()
	return
}

var hexRe = regexp.MustCompile(`0x[0-9a-f]+`)
var numRe = regexp.MustCompile(`-?\d+`)

// panicClass normalises a panic value to a stable class: message with numbers
// removed plus the innermost frame inside the repository.
func panicClass(p any) string {
	msg := fmt.Sprintf("%v", p)
	if e, ok := p.(runtime.Error); ok {
		msg = e.Error()
	}
	msg = hexRe.ReplaceAllString(msg, "N")
	msg = numRe.ReplaceAllString(msg, "N")
	if len(msg) > 120 {
		msg = msg[:120]
	}
	return repoFrame() + ": " + msg
}

// repoFrame returns the innermost function of the repository's module on the
// panicking stack (outside the harness package).
func repoFrame() string {
	pcs := make([]uintptr, 64)
	n := runtime.Callers(3, pcs)
	frames := runtime.CallersFrames(pcs[:n])
	for {
		f, more := frames.Next()
		fn := f.Function
		if strings.Contains(fn, "verily-src/fhirpath-go") && !strings.Contains(fn, "zzverif") {
			fn = strings.TrimPrefix(fn, "github.com/verily-src/fhirpath-go/")
			return fn
		}
		if !more {
			break
		}
	}
	return "?"
}
