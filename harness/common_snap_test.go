package zzverif

// Before/after snapshots of proto messages (shared by C03, C04, C18).

import (
	"bytes"
	"fmt"
	"strings"

	"google.golang.org/protobuf/proto"
	"google.golang.org/protobuf/reflect/protoreflect"
)

// --- snapshots ------------------------------------------------------------------

func detBytes(m proto.Message) []byte {
	b, err := proto.MarshalOptions{Deterministic: true}.Marshal(m)
	if err != nil {
		return []byte("marshal error: " + err.Error())
	}
	return b
}

// presence fingerprint: deterministic serialisation does not distinguish an
// absent message field from one that was materialised empty by Mutable(); walk it.
func presence(m protoreflect.Message, sb *strings.Builder, depth int) {
	if depth > 40 {
		return
	}
	fs := m.Descriptor().Fields()
	for i := 0; i < fs.Len(); i++ {
		f := fs.Get(i)
		if !m.Has(f) {
			continue
		}
		fmt.Fprintf(sb, "%d{", f.Number())
		switch {
		case f.IsList():
			l := m.Get(f).List()
			fmt.Fprintf(sb, "#%d", l.Len())
			if f.Message() != nil {
				for j := 0; j < l.Len(); j++ {
					presence(l.Get(j).Message(), sb, depth+1)
				}
			}
		case f.Message() != nil:
			presence(m.Get(f).Message(), sb, depth+1)
		}
		sb.WriteString("}")
	}
}

type snap struct {
	bytes    []byte
	presence string
	clone    proto.Message
}

func snapshot(m proto.Message) snap {
	var sb strings.Builder
	presence(m.ProtoReflect(), &sb, 0)
	return snap{detBytes(m), sb.String(), proto.Clone(m)}
}

func (s snap) changed(m proto.Message) string {
	if !bytes.Equal(s.bytes, detBytes(m)) {
		return "serialisation changed"
	}
	var sb strings.Builder
	presence(m.ProtoReflect(), &sb, 0)
	if sb.String() != s.presence {
		return "presence bits changed (a field was materialised)"
	}
	if !proto.Equal(s.clone, m) {
		return "proto.Equal(before, after) is false"
	}
	return ""
}

// ownNodes collects every message reachable in m (pointer identity).
func ownNodes(m protoreflect.Message, set map[any]bool, depth int) {
	if depth > 40 {
		return
	}
	set[m.Interface()] = true
	m.Range(func(f protoreflect.FieldDescriptor, v protoreflect.Value) bool {
		if f.Message() == nil {
			return true
		}
		if f.IsList() {
			l := v.List()
			for i := 0; i < l.Len(); i++ {
				ownNodes(l.Get(i).Message(), set, depth+1)
			}
			return true
		}
		ownNodes(v.Message(), set, depth+1)
		return true
	})
}
