#!/usr/bin/env python3
"""Regenerates MANIFEST.json from the table below (kept next to the checks so the
manifest never drifts from what exists in harness/)."""
import glob
import json
import os

HERE = os.path.dirname(os.path.abspath(__file__))

TECH = {
    "C01": ("grammar-directed + byte-mutated program fuzzing, direct System API calls and patch calls under recover()/watchdog; oracle: outcome is value or error (rapid; native go fuzz in thorough)",
            "Every call into Compile/Evaluate/EvaluateAs*/patch runs under recover() with a per-case watchdog; panics and confirmed hangs are violations, which error is returned is not asserted. Exploration only: absence of panics is shown for the generated programs, resources and operands."),
    "C02": ("schema-driven resource generation (rapid) + differential oracle: google/fhir JSON tree paired with the proto by a descriptor walk; pointer identity and primitive-value comparison",
            "Every element path of every generated resource (all 146 types reachable) is evaluated in five spellings and compared node-for-node with the JSON tree; negative programs check mismatching roots and non-element names."),
    "C03": ("rapid-generated programs x resources x aliasing variables; before/after oracle: deterministic proto serialisation, slice headers and sentinel-filled spare capacity, expression fingerprint, own-node rule",
            "Mutation is detected by comparing complete snapshots of every input before and after each evaluation, including spare slice capacity."),
    "C04": ("generated goroutine histories under the Go race detector + sequential-baseline comparison; rapid state machine over Compile histories; TZ/OverrideTime metamorphic checks; retained-result, in-place-edit and colliding-key (hash-collision pairs) histories",
            "The race detector and a sequential baseline judge generated concurrent histories; the scheduler itself is not controlled, so only interleavings that occur are judged."),
    "C05": ("value-pool pairs/triples (exhaustive over the pool in thorough) against a reference comparison model plus relational laws (symmetry, negation, trichotomy, transitivity)",
            "Model agreement on the type pairs the statement covers; relational laws on all pairs."),
    "C06": ("exhaustive enumeration of operand forms x operators against Kleene truth tables; rapid-generated nested formulas for the algebraic laws",
            "All operator x operand-form cells are enumerated; the run is exhaustive over the form table."),
    "C07": ("exhaustive enumeration of operators/functions (table read from the tree) x positions x three empty deliveries; oracle: empty / empty-or-error",
            "The function table is read from the tree at run time, so added functions are enumerated automatically."),
    "C08": ("boundary matrix (exhaustive) + rapid-generated operands; oracle: math/big exact arithmetic, with a metamorphic div/mod identity evaluated by the library",
            "Exact reference arithmetic over the boundary matrix and random operands of every numeric kind."),
    "C09": ("enumerated/rapid-drawn start values x units x amounts against an independent proleptic-Gregorian calendar model; monotonicity and add/sub round-trip relations",
            "Independent calendar model (no time.AddDate) over the leap cycle, all precisions, offsets and units."),
    "C10": ("rapid-generated collections (resource paths and variables) x criteria x n; list model + metamorphic program pairs evaluated by the library",
            "Model on the item list plus the metamorphic equalities of the statement."),
    "C11": ("rapid-generated expression trees rendered minimally / fully parenthesised / decorated; differential oracle between renderings, trailing-token rejection, String() round trip; enumerated keyword-named steps in eight spellings; generated long operator/parenthesis/invocation chains",
            "Differential between renderings of one tree; the renderer is self-checked against the real parser."),
    "C12": ("every node of generated resources x type-specifier names; oracle: proto annotations + hand-written R4 hierarchy table",
            "Declared types come from proto annotations, not from the repository's reflection code."),
    "C13": ("value pool x eight conversion targets (exhaustive) + rapid near-valid strings (+ native go fuzz over strings in thorough); relational laws between convertsToT/toT/is and the N1 conversion table",
            "Relational laws on all items; table agreement only where N1 is unambiguous."),
    "C14": ("rapid-generated and exhaustively enumerated rune strings x positions x patterns (+ native go fuzz in thorough) against a []rune reference model; metamorphic programs",
            "Reference model over Unicode code points; exhaustive for short strings in thorough."),
    "C15": ("round-trip properties (rapid + exhaustive loops; native go fuzz over string literals in thorough): string escapes, temporal/numeric literals, System<->FHIR primitives, fhir/fhirconv helpers vs google/fhir JSON, integer narrowing vs math/big",
            "Five round-trip families; 8/16-bit narrowing enumerated completely."),
    "C16": ("exhaustive enumeration of N1 names u table names x arity 0..4 x option sets; two-sided table oracle, no-arity-error-after-acceptance, characteristic examples",
            "Exhaustive over names x arities."),
    "C17": ("rapid-generated option lists and instrumented custom functions; oracle: sentinel errors via errors.Is, call counters, pointer identity",
            "Instrumented functions observe exactly what the library passes in."),
    "C18": ("rapid single operations and stateful histories of patch operations; oracle: JSON-tree patch model, unchanged-on-error via deterministic serialisation",
            "Whole-tree comparison after every step."),
    "C19": ("rapid-generated identities/URLs/canonicals and byte-mutated neighbours; parse/format round trips and equivalence laws (native go fuzz in thorough)",
            "Round trips over the full id alphabet and all resource types."),
    "C20": ("exhaustive over 146 resource types and 49 extension value types; rapid-generated extension lists vs list model; extraction vs independent descriptor walk and JSON paths",
            "Identity round trips are enumerated completely; mutators and extraction are generated."),
}

NOT_BUILT_REASON = "check not built yet in this session (planned in DESIGN.md; property-based testing applies)"


def main():
    built = sorted({os.path.basename(p)[:3].upper() for p in glob.glob(os.path.join(HERE, "harness", "c[0-9][0-9]_*_test.go"))})
    extra_na = {}
    na_path = os.path.join(HERE, "not_applicable.json")
    if os.path.exists(na_path):
        extra_na = json.load(open(na_path))
    checks = []
    na = []
    for i in range(1, 21):
        pid = "C%02d" % i
        if pid in extra_na:
            na.append({"property_id": pid, "reason": extra_na[pid]})
            continue
        if pid not in built:
            na.append({"property_id": pid, "reason": NOT_BUILT_REASON})
            continue
        tech, text = TECH[pid]
        checks.append({
            "property_id": pid,
            "quick_cmd": "./check %s quick" % pid,
            "thorough_cmd": "./check %s thorough" % pid,
            "evidence_file": "/verif/evidence/%s.json" % pid,
            "replay_cmd_template": "./check %s --replay {path}" % pid,
            "engine": "rapid-harness",
            "level_claimed": {
                "category": "exploration",
                "text": text + " Generated-input search against an explicit oracle: the property held on everything explored, nothing more.",
                "design_ref": "DESIGN.md §3 " + pid,
            },
            "level_note": "Trusted base: pgregory.net/rapid v1.3.0, the Go toolchain, google/fhir jsonformat/proto descriptors where used as oracle, and the hand-written reference models in /verif/harness. Known findings listed in /verif/known_findings.json are reported as KNOWN-FINDING and excluded from the search by signature.",
            "technique": tech,
        })
    man = {
        "version": 1,
        "setup_cmd": "./check --setup",
        "hooks": {
            "guard": "verif",
            "enable": "no hooks: the harness in /verif/harness is compiled into the repository's module from outside with go test -c -overlay/-modfile (see DESIGN.md §1.1); the build tag 'verif' is reserved but unused",
            "baseline_off_cmd": "cd /repo && go test -vet=off -count=1 ./...",
            "source_commits": [],
            "add_only": True,
        },
        "engines": [{
            "name": "rapid-harness",
            "path": "/verif/harness",
            "serves_properties": [c["property_id"] for c in checks],
            "kind_free_text": "Go test package (pgregory.net/rapid v1.3.0 generators + exhaustive loops + race detector + native go fuzz) driven by /verif/check",
        }],
        "checks": checks,
        "not_applicable": na,
        "notes": "All checks: ./check <ID> [quick|thorough]; VERIF_SEED selects the PRNG value; exit 0/1/2 = held / violation / inconclusive. Replay: ./check <ID> --replay <file>.",
    }
    with open(os.path.join(HERE, "MANIFEST.json"), "w") as f:
        json.dump(man, f, indent=1)
    print("MANIFEST.json: %d checks, %d not_applicable" % (len(checks), len(na)))


if __name__ == "__main__":
    main()
