#!/bin/bash
# usage: fixcommit.sh "<commit message starting with fix:>"  -- builds, runs the full suite, commits only when green
set -e
export GOFLAGS=-mod=mod GOPROXY=off GOSUMDB=off GOTOOLCHAIN=local
cd /repo
test -z "$(gofmt -l fhirpath internal)" || { echo "gofmt:"; gofmt -l fhirpath internal; exit 1; }
go build ./...
out=$(go test -vet=off -count=1 ./... 2>&1) || { echo "$out" | grep -v 'no test files' | grep -v '^ok' | head -60; echo "SUITE FAILED - not committed"; exit 1; }
git status --short | grep -v '^ M' && { echo "unexpected untracked/other changes"; }
git commit -qam "$1"
git log --oneline | head -1
