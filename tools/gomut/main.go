// gomut: a minimal source mutator used by tools/mutsweep.py to measure how sensitive the
// checks are to small code changes (standard library only).
//
//	gomut list  file.go        one line per mutation site: index, line, description
//	gomut apply file.go k      the file with mutation k applied, on stdout
package main

import (
	"bytes"
	"fmt"
	"go/ast"
	"go/parser"
	"go/printer"
	"go/token"
	"os"
	"strconv"
)

type site struct {
	line  int
	desc  string
	apply func()
}

var binSwap = map[token.Token]token.Token{
	token.LSS: token.LEQ, token.LEQ: token.LSS, token.GTR: token.GEQ, token.GEQ: token.GTR,
	token.EQL: token.NEQ, token.NEQ: token.EQL, token.LAND: token.LOR, token.LOR: token.LAND,
	token.ADD: token.SUB, token.SUB: token.ADD, token.MUL: token.QUO, token.QUO: token.MUL, token.REM: token.QUO,
}

func collect(fset *token.FileSet, f *ast.File) []site {
	var sites []site
	add := func(pos token.Pos, desc string, fn func()) {
		sites = append(sites, site{fset.Position(pos).Line, desc, fn})
	}
	ast.Inspect(f, func(n ast.Node) bool {
		switch x := n.(type) {
		case *ast.GenDecl:
			if x.Tok == token.IMPORT {
				return false
			}
		case *ast.BinaryExpr:
			if to, ok := binSwap[x.Op]; ok {
				from := x.Op
				add(x.OpPos, fmt.Sprintf("binary %s -> %s", from, to), func() { x.Op = to })
			}
			// boundary: a < b  ->  a <= b is covered above; also swap direction for orderings
			if x.Op == token.LSS || x.Op == token.GTR {
				from := x.Op
				to := map[token.Token]token.Token{token.LSS: token.GTR, token.GTR: token.LSS}[from]
				add(x.OpPos, fmt.Sprintf("binary %s -> %s", from, to), func() { x.Op = to })
			}
		case *ast.UnaryExpr:
			if x.Op == token.NOT {
				add(x.OpPos, "drop ! (double negation)", func() { x.X = &ast.UnaryExpr{Op: token.NOT, X: x.X} })
			}
			if x.Op == token.SUB {
				add(x.OpPos, "drop unary -", func() { x.Op = token.ADD })
			}
		case *ast.BasicLit:
			if x.Kind == token.INT {
				if v, err := strconv.ParseInt(x.Value, 0, 64); err == nil {
					old := x.Value
					nv := v + 1
					if v == 1 {
						nv = 0
					}
					add(x.ValuePos, fmt.Sprintf("int %s -> %d", old, nv), func() { x.Value = strconv.FormatInt(nv, 10) })
				}
			}
		case *ast.Ident:
			if x.Name == "true" || x.Name == "false" {
				old := x.Name
				to := map[string]string{"true": "false", "false": "true"}[old]
				add(x.NamePos, old+" -> "+to, func() { x.Name = to })
			}
		case *ast.BlockStmt:
			for i, st := range x.List {
				i, st := i, st
				switch s := st.(type) {
				case *ast.ExprStmt:
					add(s.Pos(), "delete call statement", func() { x.List[i] = &ast.EmptyStmt{Semicolon: s.Pos()} })
				case *ast.AssignStmt:
					if s.Tok != token.DEFINE {
						add(s.Pos(), "delete assignment", func() { x.List[i] = &ast.EmptyStmt{Semicolon: s.Pos()} })
					}
				case *ast.IncDecStmt:
					add(s.Pos(), "delete inc/dec", func() { x.List[i] = &ast.EmptyStmt{Semicolon: s.Pos()} })
				case *ast.IfStmt:
					if s.Else == nil && s.Init == nil {
						add(s.Pos(), "delete if statement (no else)", func() { x.List[i] = &ast.EmptyStmt{Semicolon: s.Pos()} })
					}
				case *ast.BranchStmt:
					if s.Tok == token.BREAK || s.Tok == token.CONTINUE {
						from := s.Tok
						to := map[token.Token]token.Token{token.BREAK: token.CONTINUE, token.CONTINUE: token.BREAK}[from]
						if s.Label == nil {
							add(s.Pos(), fmt.Sprintf("%s -> %s", from, to), func() { s.Tok = to })
						}
					}
				}
			}
		case *ast.CaseClause:
			if len(x.List) > 1 {
				for i := range x.List {
					i := i
					add(x.List[i].Pos(), "drop one case value", func() { x.List = append(append([]ast.Expr{}, x.List[:i]...), x.List[i+1:]...) })
				}
			}
		}
		return true
	})
	return sites
}

func main() {
	if len(os.Args) < 3 {
		fmt.Fprintln(os.Stderr, "usage: gomut list|apply file.go [k]")
		os.Exit(2)
	}
	fset := token.NewFileSet()
	f, err := parser.ParseFile(fset, os.Args[2], nil, parser.ParseComments)
	if err != nil {
		fmt.Fprintln(os.Stderr, err)
		os.Exit(2)
	}
	sites := collect(fset, f)
	switch os.Args[1] {
	case "list":
		for i, s := range sites {
			fmt.Printf("%d\t%d\t%s\n", i, s.line, s.desc)
		}
	case "apply":
		k, err := strconv.Atoi(os.Args[3])
		if err != nil || k < 0 || k >= len(sites) {
			fmt.Fprintln(os.Stderr, "bad site index")
			os.Exit(2)
		}
		sites[k].apply()
		var buf bytes.Buffer
		if err := printer.Fprint(&buf, fset, f); err != nil {
			fmt.Fprintln(os.Stderr, err)
			os.Exit(2)
		}
		os.Stdout.Write(buf.Bytes())
	}
}
