#!/usr/bin/env python3
"""Confirm a seeded change and run checks against it, in a scratch worktree of /repo.

usage: seedcheck.py <mutant-dir> [--checks C01,C05] [--tier quick|thorough|both] [--no-verify]

<mutant-dir> holds patch.diff, a demonstration (demo_test.go) and meta.json.  Steps:
  1. scratch worktree of /repo HEAD under /tmp/seedwt (removed afterwards);
  2. the demonstration passes on the unchanged tree;
  3. with the patch: the whole existing suite still passes and the demonstration fails;
  4. every requested check runs with VERIF_REPO=<worktree> (the registered commands use
     /repo itself; for a seeded change the tree is the scratch copy, never /repo).
Prints one JSON line with the outcome.
"""
import json
import os
import re
import shutil
import subprocess
import sys
import time

VERIF = os.path.dirname(os.path.dirname(os.path.abspath(__file__)))
ENV = dict(os.environ, GOFLAGS="-mod=mod", GOPROXY="off", GOSUMDB="off", GOTOOLCHAIN="local")


def sh(cmd, cwd=None, env=None, timeout=3600):
    p = subprocess.run(cmd, cwd=cwd, env=env or ENV, stdout=subprocess.PIPE, stderr=subprocess.STDOUT, text=True, timeout=timeout)
    return p.returncode, p.stdout


def main():
    args = sys.argv[1:]
    mdir = os.path.abspath(args[0])
    checks, tier, verify = None, "quick", True
    if "--checks" in args:
        checks = args[args.index("--checks") + 1].split(",")
    if "--tier" in args:
        tier = args[args.index("--tier") + 1]
    if "--no-verify" in args:
        verify = False
    meta = json.load(open(os.path.join(mdir, "meta.json")))
    prop = meta.get("property") or meta.get("breaks")
    if checks is None:
        checks = [prop]
    name = os.path.basename(os.path.dirname(mdir)) + "-" + os.path.basename(mdir) if os.path.basename(mdir) in ("A", "B", "C", "D", "E", "F", "G", "H", "J", "K", "L", "M", "N", "P") else os.path.basename(mdir)
    wt = "/tmp/seedwt/%s-%d" % (name, os.getpid())
    os.makedirs("/tmp/seedwt", exist_ok=True)
    out = {"mutant": mdir, "property": prop, "checks": {}}
    rc, o = sh(["git", "-C", "/repo", "worktree", "add", "--detach", "-q", wt, "HEAD"])
    if rc != 0:
        print(json.dumps({"error": "worktree: " + o}))
        return 2
    try:
        demo_src = None
        for cand in ("demo_test.go", "demo/main.go"):
            if os.path.exists(os.path.join(mdir, cand)):
                demo_src = os.path.join(mdir, cand)
        demo_dir = (meta.get("demo_dir") or "fhirpath").strip("/")
        demo_dst = os.path.join(wt, demo_dir, "zz_seed_demo_test.go")
        tests = re.findall(r"^func (Test\w+)\(", open(demo_src).read(), re.M) if demo_src and demo_src.endswith("_test.go") else []
        run_demo = ["go", "test", "-vet=off", "-count=1", "-run", "^(%s)$" % "|".join(tests), "./" + demo_dir + "/"]
        if "-race" in (meta.get("demo_cmd") or ""):
            run_demo.insert(2, "-race")
        if verify:
            if not tests:
                out["verify"] = "no demo test found"
            else:
                shutil.copy(demo_src, demo_dst)
                rc, o = sh(run_demo, cwd=wt)
                out["demo_passes_without_change"] = rc == 0
                if rc != 0:
                    out["demo_output_without"] = o[-1500:]
        rc, o = sh(["git", "apply", os.path.join(mdir, "patch.diff")], cwd=wt)
        if rc != 0:
            out["error"] = "patch does not apply: " + o[-500:]
            print(json.dumps(out))
            return 2
        if verify:
            if tests:
                rc, o = sh(run_demo, cwd=wt)
                out["demo_fails_with_change"] = rc != 0
                os.remove(demo_dst)
            rc, o = sh(["go", "build", "./..."], cwd=wt)
            out["builds"] = rc == 0
            rc, o = sh(["go", "test", "-vet=off", "-count=1", "./..."], cwd=wt)
            out["suite_passes_with_change"] = rc == 0
            if rc != 0:
                out["suite_output"] = "\n".join(l for l in o.splitlines() if not l.startswith("ok") and "no test files" not in l)[-1500:]
        env = dict(ENV, VERIF_REPO=wt)
        tiers = ["quick", "thorough"] if tier == "both" else [tier]
        for c in checks:
            for t in tiers:
                t0 = time.time()
                vdir = os.environ.get("SEED_SNAPSHOT") or VERIF  # a frozen copy of /verif (check, harness, known_findings.json)
                rc, o = sh([os.path.join(vdir, "check"), c, t], cwd=vdir, env=dict(env, VERIF_NOFUZZ="1") if t == "thorough" and os.environ.get("SEED_FUZZ") is None else env, timeout=3000)
                sigs = re.findall(r"^  signature: (.*)$", o, re.M)
                out["checks"].setdefault(c, {})[t] = {"exit": rc, "detected": rc == 1, "wall_s": round(time.time() - t0, 1), "signatures": sigs[:6]}
                if rc == 1:
                    break
        print(json.dumps(out))
        return 0
    finally:
        sh(["git", "-C", "/repo", "worktree", "remove", "--force", wt])
        shutil.rmtree(wt, ignore_errors=True)


if __name__ == "__main__":
    sys.exit(main())
