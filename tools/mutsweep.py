#!/usr/bin/env python3
"""Systematic sensitivity measurement: sample small source mutations of /repo, keep the ones
that still build and pass the whole existing suite, and run the quick checks against each.

usage: mutsweep.py --n 300 [--seed 1] [--workers 4] [--out /tmp/mutsweep] [--tier quick]
                   [--only fhirpath/system] [--resume]

Everything happens in scratch worktrees under --out (removed at the end); /repo is never
touched.  One JSON line per mutant is appended to <out>/results.jsonl:
  {"file","site","line","desc","status": nobuild|suite-kills|detected|survived, "by": <check>, ...}
"""
import glob
import json
import os
import random
import re
import shutil
import subprocess
import sys
import threading
import time

VERIF = os.path.dirname(os.path.dirname(os.path.abspath(__file__)))
ENV = dict(os.environ, GOFLAGS="-mod=mod", GOPROXY="off", GOSUMDB="off", GOTOOLCHAIN="local")

# the code the properties are about (generated parser, test helpers and unrelated helpers excluded)
SCOPE = [
    "fhirpath/*.go", "fhirpath/compopts/*.go", "fhirpath/evalopts/*.go", "fhirpath/patch/*.go", "fhirpath/system/*.go",
    "fhirpath/internal/expr/*.go", "fhirpath/internal/funcs/*.go", "fhirpath/internal/funcs/impl/*.go", "fhirpath/internal/parser/*.go",
    "fhirpath/internal/reflection/*.go", "fhirpath/internal/opts/*.go", "fhirpath/internal/compile/*.go",
    "internal/fhir/*.go", "internal/fhirconv/*.go", "internal/narrow/*.go", "internal/protofields/*.go", "internal/units/*.go",
    "internal/element/*.go", "internal/element/reference/*.go", "internal/element/extension/*.go", "internal/element/canonical/*.go",
    "internal/resource/*.go", "internal/bundle/*.go", "internal/containedresource/*.go",
]

ALL = ["C%02d" % i for i in range(1, 21)]
ORDER = [
    (r"^fhirpath/patch/", ["C18", "C01"]),
    (r"^fhirpath/system/(date|time|layouts|date_time)", ["C09", "C05", "C15", "C13", "C04"]),
    (r"^fhirpath/system/quantity", ["C05", "C15", "C13", "C09", "C08"]),
    (r"^fhirpath/system/", ["C05", "C08", "C15", "C13", "C10", "C12", "C07"]),
    (r"impl/strings", ["C14", "C07", "C16", "C01"]),
    (r"impl/math", ["C08", "C07", "C16", "C01"]),
    (r"impl/conversion", ["C13", "C07", "C16", "C01"]),
    (r"impl/", ["C10", "C06", "C07", "C16", "C12", "C02"]),
    (r"internal/funcs/", ["C16", "C17", "C07"]),
    (r"internal/expr/", ["C06", "C05", "C08", "C09", "C10", "C12", "C02", "C07", "C11", "C17", "C03"]),
    (r"internal/parser/", ["C11", "C15", "C16", "C12"]),
    (r"internal/reflection/", ["C12", "C02"]),
    (r"evalopts|compopts|internal/opts|fhirpath/fhirpath.go", ["C17", "C04", "C06", "C01"]),
    (r"^internal/element/reference|^internal/resource/", ["C19", "C20", "C02"]),
    (r"^internal/(bundle|containedresource|element)", ["C20", "C19", "C02"]),
    (r"^internal/(fhir|fhirconv|narrow|units)/", ["C15", "C13", "C09", "C02"]),
    (r"^internal/protofields/", ["C02", "C12", "C18", "C20"]),
]


def sh(cmd, cwd=None, env=None, timeout=3600):
    p = subprocess.run(cmd, cwd=cwd, env=env or ENV, stdout=subprocess.PIPE, stderr=subprocess.STDOUT, text=True, timeout=timeout)
    return p.returncode, p.stdout


def order_for(path):
    first = []
    for pat, cs in ORDER:
        if re.search(pat, path):
            first = cs
            break
    return first + [c for c in ALL if c not in first]


def main():
    a = sys.argv[1:]
    def opt(name, d):
        return a[a.index(name) + 1] if name in a else d
    n, seed, workers = int(opt("--n", "100")), int(opt("--seed", "1")), int(opt("--workers", "4"))
    out, tier, only = opt("--out", "/tmp/mutsweep"), opt("--tier", "quick"), opt("--only", "")
    os.makedirs(out, exist_ok=True)
    # the checks run from a snapshot of /verif taken now, so that editing the harness while a
    # sweep is running cannot disturb it
    snap = os.path.join(out, "verif-snap")
    shutil.rmtree(snap, ignore_errors=True)
    os.makedirs(snap)
    for name in ("check", "known_findings.json"):
        shutil.copy(os.path.join(VERIF, name), snap)
    shutil.copytree(os.path.join(VERIF, "harness"), os.path.join(snap, "harness"))
    gomut = os.path.join(out, "gomut")
    rc, o = sh(["go", "build", "-o", gomut, "."], cwd=os.path.join(VERIF, "tools", "gomut"))
    if rc != 0:
        print(o)
        return 2
    files = []
    for g in SCOPE:
        files += [f for f in sorted(glob.glob(os.path.join("/repo", g))) if not f.endswith("_test.go")]
    files = sorted(set(files))
    sites = []
    for f in files:
        rel = os.path.relpath(f, "/repo")
        if only and only not in rel:
            continue
        rc, o = sh([gomut, "list", f])
        for line in o.splitlines():
            k, ln, desc = line.split("\t")
            sites.append((rel, int(k), int(ln), desc))
    # sites known to be equivalent by construction: Function.IsTypeFunction is never read
    sites = [x for x in sites if not (x[3] == "false -> true" and x[0].endswith(("funcs/table.go", "funcs/function.go")))]
    rnd = random.Random(seed)
    rnd.shuffle(sites)
    done = set()
    resf = os.path.join(out, "results.jsonl")
    if "--resume" in a and os.path.exists(resf):
        for l in open(resf):
            d = json.loads(l)
            done.add((d["file"], d["site"]))
    todo = [s for s in sites[:n] if (s[0], s[1]) not in done]
    if "--sites" in a:  # explicit re-runs: file:site,file:site (results go to results-redo.jsonl)
        want = set(tuple(x.rsplit(":", 1)) for x in opt("--sites", "").split(","))
        todo = [s for s in sites if (s[0], str(s[1])) in want]
        resf = os.path.join(out, "results-redo.jsonl")
    only_checks = opt("--checks", "").split(",") if "--checks" in a else None
    print("sites in scope: %d, sampled: %d, to do: %d" % (len(sites), min(n, len(sites)), len(todo)), flush=True)
    lock = threading.Lock()
    it = iter(todo)

    def worker(w):
        wt = os.path.join(out, "wt%d" % w)
        sh(["git", "-C", "/repo", "worktree", "remove", "--force", wt])
        rc, o = sh(["git", "-C", "/repo", "worktree", "add", "--detach", "-q", wt, "HEAD"])
        if rc != 0:
            print("worktree failed", o)
            return
        try:
            while True:
                with lock:
                    s = next(it, None)
                if s is None:
                    return
                rel, k, ln, desc = s
                rec = {"file": rel, "site": k, "line": ln, "desc": desc}
                t0 = time.time()
                sh(["git", "checkout", "-q", "--", "."], cwd=wt)
                shutil.rmtree(os.path.join(wt, ".verif-out"), ignore_errors=True)
                rc, src = sh([gomut, "apply", os.path.join("/repo", rel), str(k)])
                if rc != 0:
                    rec["status"] = "mutator-error"
                else:
                    with open(os.path.join(wt, rel), "w") as f:
                        f.write(src)
                    rc, o = sh(["go", "build", "./..."], cwd=wt)
                    if rc != 0:
                        rec["status"] = "nobuild"
                    else:
                        try:
                            rc, o = sh(["go", "test", "-vet=off", "-count=1", "-timeout", "300s", "./..."], cwd=wt, timeout=400)
                        except subprocess.TimeoutExpired:
                            rc = 1
                        if rc != 0:
                            rec["status"] = "suite-kills"
                        else:
                            rec["status"] = "survived"
                            rec["ran"] = []
                            env = dict(ENV, VERIF_REPO=wt, VERIF_NOFUZZ="1")
                            for c in (only_checks or order_for(rel)):
                                try:
                                    rc, o = sh([os.path.join(snap, "check"), c, tier], cwd=snap, env=env, timeout=1500)
                                except subprocess.TimeoutExpired:
                                    rc, o = 2, "timeout"
                                rec["ran"].append([c, rc])
                                if rc == 1:
                                    rec["status"] = "detected"
                                    rec["by"] = c
                                    rec["signatures"] = re.findall(r"^  signature: (.*)$", o, re.M)[:3]
                                    break
                rec["wall_s"] = round(time.time() - t0, 1)
                with lock:
                    with open(resf, "a") as f:
                        f.write(json.dumps(rec) + "\n")
                    print(rec["status"], rel, ln, desc, rec.get("by", ""), flush=True)
        finally:
            sh(["git", "-C", "/repo", "worktree", "remove", "--force", wt])
            shutil.rmtree(wt, ignore_errors=True)

    ts = [threading.Thread(target=worker, args=(i,)) for i in range(workers)]
    for t in ts:
        t.start()
    for t in ts:
        t.join()
    sh(["git", "-C", "/repo", "worktree", "prune"])
    return 0


if __name__ == "__main__":
    sys.exit(main())
