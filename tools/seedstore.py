#!/usr/bin/env python3
"""Store a confirmed seeded change under /verif/seeded/<id>/.

usage: seedstore.py <mutant-dir> <seedcheck-result.json> [--note "..."]

Copies patch.diff and the demonstration, and writes meta.json: the sub-agent's description
(property, what, needs), what was confirmed here and how, and which check reports it.
Refuses a change that was not fully confirmed (demo passes without / fails with / suite green).
"""
import json
import os
import shutil
import sys

VERIF = os.path.dirname(os.path.dirname(os.path.abspath(__file__)))


def main():
    mdir, resp = os.path.abspath(sys.argv[1]), sys.argv[2]
    note = sys.argv[sys.argv.index("--note") + 1] if "--note" in sys.argv else ""
    meta = json.load(open(os.path.join(mdir, "meta.json")))
    res = json.loads(open(resp).read().strip().split("\n")[-1])
    ok = res.get("demo_passes_without_change") and res.get("demo_fails_with_change") and res.get("suite_passes_with_change")
    if not ok and "--force-confirmed" not in sys.argv:
        print("not confirmed:", {k: res.get(k) for k in ("demo_passes_without_change", "demo_fails_with_change", "suite_passes_with_change", "error")})
        return 1
    sid = os.path.basename(os.path.dirname(mdir)) + "-" + os.path.basename(mdir)
    dst = os.path.join(VERIF, "seeded", sid)
    os.makedirs(dst, exist_ok=True)
    shutil.copy(os.path.join(mdir, "patch.diff"), dst)
    shutil.copy(os.path.join(mdir, "demo_test.go"), dst)
    prop = meta.get("property") or meta.get("breaks")
    demo_dir = (meta.get("demo_dir") or "fhirpath").strip("/")
    race = "-race " if "-race" in (meta.get("demo_cmd") or "") else ""
    out = {
        "id": sid,
        "property": prop,
        "what": meta.get("what"),
        "needs_to_manifest": meta.get("needs"),
        "origin": "written by a fresh sub-agent that saw only the property text and its own scratch worktree of /repo",
        "demonstration": {
            "file": "demo_test.go (copy to %s/zz_seed_demo_test.go in a worktree)" % demo_dir,
            "command": "go test %s-vet=off -count=1 -run '^TestDemo' ./%s/" % (race, demo_dir),
        },
        "demo_dir": demo_dir,
        "demo_cmd": "go test %s-vet=off -count=1 -run '^TestDemo' ./%s/" % (race, demo_dir),
        "confirmed_here": {
            "how": "tools/seedcheck.py <dir>: scratch worktree of /repo HEAD under /tmp; demonstration run on the unchanged tree; `git apply patch.diff`; demonstration run again; `go build ./... && go test -vet=off -count=1 ./...` with the patch; each listed check run with VERIF_REPO=<worktree>; worktree removed",
            "demo_passes_without_change": bool(res.get("demo_passes_without_change")),
            "demo_fails_with_change": bool(res.get("demo_fails_with_change")),
            "builds_with_change": bool(res.get("builds", True)),
            "existing_suite_passes_with_change": bool(res.get("suite_passes_with_change")),
        },
        "checks": {c: {t: {"exit": r["exit"], "reported": r["detected"], "wall_s": r["wall_s"], "signatures": r["signatures"]} for t, r in v.items()} for c, v in res.get("checks", {}).items()},
    }
    if note:
        out["note"] = note
    with open(os.path.join(dst, "meta.json"), "w") as f:
        json.dump(out, f, indent=1, ensure_ascii=False)
        f.write("\n")
    print("stored", dst)
    return 0


if __name__ == "__main__":
    sys.exit(main())
