#!/bin/bash
# usage: runall.sh <tier> [ids...]  — runs the checks one after another, prints one line each
tier=${1:-quick}; shift
ids=${@:-C01 C02 C03 C04 C05 C06 C07 C08 C09 C10 C11 C12 C13 C14 C15 C16 C17 C18 C19 C20}
cd "$(dirname "$0")/.."
for p in $ids; do
  ls harness/${p,,}_*_test.go >/dev/null 2>&1 || continue
  ./check $p $tier 2>&1 | grep -E "^VIOLATION|signature:|^C[0-9]+ (quick|thorough)|INCONCLUSIVE" | cut -c1-300
done
